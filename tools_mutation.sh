#!/bin/bash
# usage: tools_mutation.sh <patch.diff> <Cxx> [<Cyy> ...]   -- apply a seeded change to /repo, run quick checks, undo
patch="$1"; shift
cd /repo || exit 2
git diff --quiet || { echo "repo dirty"; exit 2; }
git apply "$patch" || { echo "patch does not apply"; exit 2; }
for p in "$@"; do
  out=$(cd /verif && timeout 900 ./verif check $p --tier quick 2>&1); rc=$?
  echo "== $p rc=$rc"; echo "$out" | grep -E "VIOLATION|KNOWN-FINDING|MACHINERY" | cut -c1-260 | head -6
done
git -C /repo checkout -- . 
