"""Project descriptions (Appendix E of DESIGN.md): hand-written shapes and a seeded generator.

A project is a JSON-able dict:
  {"name":..., "sources": {path: [versions]}, "scripts": {command: ops | {"on": path, "versions": {v: ops}}}}
A history is a list of phases:
  {"edits": [...], "how": "restart"|"watch", "cfg": {...}, "seed": int, "during": [[nidle, edit]...]}
The first phase's edits create the initial sources.
"""

from __future__ import annotations

import copy
import random

GENERIC_WORKER = [["read_declared"], ["write_declared"]]


def worker_script(dyn_inp=(), dyn_out=(), hold_steps=None, fail=False, unlink=(), const_out=False,
                  clobber=None):
    # a switch outside the workflow (not a declared dependency) that makes the command fail early
    ops = [["if_env", "VV_FAIL", "1", [["exit", 1]]]]
    if dyn_inp:
        ops.append(["amend", {"inp": list(dyn_inp)}])
        for p in dyn_inp:
            ops.append(["read", p])
    if dyn_out:
        ops.append(["amend", {"out": list(dyn_out)}])
    ops.append(["read_declared"])
    ops.append(["getenv_declared"])
    ops.append(["write_declared", "const"] if const_out else ["write_declared"])
    if clobber:
        ops.append(["write", clobber, "clobbered by a consumer\n"])
    for p in dyn_out:
        ops.append(["write", p])
    if fail:
        ops.append(["exit", 1])
    return ops


# ---------------------------------------------------------------------------------------------
# Hand-written shapes (regression targets and straight-line happy paths)
# ---------------------------------------------------------------------------------------------


def shape_chain():
    return {
        "name": "chain",
        "sources": {"plan.py": ["v1", "v2"], "s1.txt": ["a", "b"], "s2.txt": ["a", "b"]},
        "scripts": {
            "./plan.py": {
                "on": "plan.py",
                "versions": {
                    "v1": [
                        ["static", ["s1.txt", "s2.txt"]],
                        ["step", "W1", {"inp": ["s1.txt"], "out": ["o1.txt"]}],
                        ["step", "W2", {"inp": ["o1.txt", "s2.txt"], "out": ["o2.txt"]}],
                    ],
                    "v2": [
                        ["static", ["s1.txt", "s2.txt"]],
                        ["step", "W1", {"inp": ["s1.txt"], "out": ["o1.txt"]}],
                    ],
                },
            },
            "W1": GENERIC_WORKER,
            "W2": GENERIC_WORKER,
        },
    }


def shape_subplan_readd():
    """Sub-plan P creates A (consumed by top-level B) and C; drop P; re-add P (candidate P1)."""
    return {
        "name": "subplan_readd",
        "sources": {"plan.py": ["v1", "v2"], "sub.py": ["v1"], "inp.txt": ["a", "b"]},
        "scripts": {
            "./plan.py": {
                "on": "plan.py",
                "versions": {
                    "v1": [
                        ["static", ["sub.py", "inp.txt"]],
                        ["step", "./sub.py", {"inp": ["sub.py"], "need": "PLAN"}],
                        ["step", "B", {"inp": ["a.txt"], "out": ["b.txt"]}],
                    ],
                    "v2": [
                        ["static", ["sub.py", "inp.txt"]],
                        ["step", "B", {"inp": ["a.txt"], "out": ["b.txt"]}],
                    ],
                },
            },
            "./sub.py": [
                ["step", "A", {"out": ["a.txt"]}],
                ["step", "C", {"out": ["c.txt"]}],
            ],
            "A": GENERIC_WORKER,
            "B": GENERIC_WORKER,
            "C": GENERIC_WORKER,
        },
    }


def shape_subplan_noinp():
    """Like subplan_readd, but the sub-plan step P has no input file of its own."""
    return {
        "name": "subplan_noinp",
        "sources": {"plan.py": ["v1", "v2"], "inp.txt": ["a", "b"]},
        "scripts": {
            "./plan.py": {
                "on": "plan.py",
                "versions": {
                    "v1": [
                        ["static", ["inp.txt"]],
                        ["step", "P", {"need": "PLAN"}],
                        ["step", "B", {"inp": ["a.txt"], "out": ["b.txt"]}],
                    ],
                    "v2": [
                        ["static", ["inp.txt"]],
                        ["step", "B", {"inp": ["a.txt"], "out": ["b.txt"]}],
                    ],
                },
            },
            "P": [
                ["step", "A", {"out": ["a.txt"]}],
                ["step", "C", {"out": ["c.txt"]}],
            ],
            "A": GENERIC_WORKER,
            "B": GENERIC_WORKER,
            "C": GENERIC_WORKER,
        },
    }


def shape_detach_running_fail():
    """WORK creates SUB on its first attempt only, is deferred on late.txt, reruns without SUB."""
    return {
        "name": "detach_running_fail",
        "schedule_dependent": True,  # scripts look at the file system: excluded from relational checks
        "sources": {"plan.py": ["v1"], "s1.txt": ["a", "b"]},
        "scripts": {
            "./plan.py": {
                "on": "plan.py",
                "versions": {
                    "v1": [
                        ["static", ["s1.txt"]],
                        ["step", "LATE", {"inp": ["s1.txt"], "out": ["late.txt"]}],
                        ["step", "WORK", {"inp": ["s1.txt"], "out": ["work.txt"], "need": "PLAN"}],
                    ]
                },
            },
            "LATE": GENERIC_WORKER,
            "WORK": [
                ["if_exists", "late.txt", [], [["step", "SUB", {"out": ["sub.txt"]}]]],
                ["amend", {"inp": ["late.txt"]}],
                ["read", "late.txt"],
                ["read_declared"],
                ["write_declared"],
            ],
            "SUB": [["write", "sub.txt"], ["nop"], ["nop"], ["nop"], ["exit", 1]],
        },
    }


def shape_amend_unchanged_output():
    """T starts amending b.txt only after cfg.txt changed; S reproduces an identical b.txt."""
    return {
        "name": "amend_unchanged_output",
        "sources": {"plan.py": ["v1"], "a.txt": ["a", "b"], "cfg.txt": ["plain", "useb"]},
        "scripts": {
            "./plan.py": {
                "on": "plan.py",
                "versions": {
                    "v1": [
                        ["static", ["a.txt", "cfg.txt"]],
                        ["step", "T", {"inp": ["cfg.txt"], "out": ["c.txt"]}],
                        ["step", "S", {"inp": ["a.txt"], "out": ["b.txt"]}],
                    ]
                },
            },
            "S": [["read_declared"], ["write_declared", "const"]],
            "T": [
                ["if_version", "cfg.txt", "useb", [["amend", {"inp": ["b.txt"]}], ["read", "b.txt"]]],
                ["read_declared"],
                ["write_declared"],
            ],
        },
    }


def shape_detach_running_same_output():
    """SUBP creates S and is deferred on late.txt; its rerun detaches S while S may be running."""
    return {
        "name": "detach_running_same_output",
        "sources": {"plan.py": ["v1"], "s1.txt": ["a", "b"]},
        "scripts": {
            "./plan.py": {
                "on": "plan.py",
                "versions": {
                    "v1": [
                        ["static", ["s1.txt"]],
                        ["step", "SUBP", {"need": "PLAN"}],
                        ["step", "LATE", {"inp": ["s1.txt"], "out": ["late.txt"]}],
                    ]
                },
            },
            "SUBP": [
                ["step", "S", {"inp": ["s1.txt"], "out": ["o.txt"]}],
                ["amend", {"inp": ["late.txt"]}],
                ["read", "late.txt"],
            ],
            "S": [["read_declared"], ["nop"], ["nop"], ["write_declared", "const"]],
            "LATE": GENERIC_WORKER,
        },
    }


def shape_rm_before_write():
    """Steps that remove their old outputs before regenerating them (`rm -f out; ... > out`): a rerun
    has a window in which an OUTDATED output is absent from disk (a kill in that window makes the restart
    see an externally deleted OUTDATED file)."""
    regen = [["read_declared"], ["unlink_declared"], ["nop"], ["write_declared"]]
    return {
        "name": "rm_before_write",
        "sources": {"plan.py": ["v1"], "s1.txt": ["a", "b"], "s2.txt": ["a", "b"]},
        "scripts": {
            "./plan.py": {
                "on": "plan.py",
                "versions": {
                    "v1": [
                        ["static", ["s1.txt", "s2.txt"]],
                        ["step", "R1", {"inp": ["s1.txt"], "out": ["r1.txt"]}],
                        ["step", "R2", {"inp": ["r1.txt", "s2.txt"], "out": ["r2.txt", "r2b.txt"]}],
                    ]
                },
            },
            "R1": regen,
            "R2": regen,
        },
    }


def shape_env_shared():
    """Several steps track the same environment variables; the variables change and change back."""
    w = [["getenv_declared"], ["read_declared"], ["write_declared"]]
    return {
        "name": "env_shared",
        "sources": {"plan.py": ["v1"], "s1.txt": ["a", "b"]},
        "scripts": {
            "./plan.py": {
                "on": "plan.py",
                "versions": {
                    "v1": [
                        ["static", ["s1.txt"]],
                        ["step", "E1", {"env": ["VV_A"], "inp": ["s1.txt"], "out": ["e1.txt"]}],
                        ["step", "E2", {"env": ["VV_A", "VV_B"], "out": ["e2.txt"]}],
                        ["step", "E3", {"env": ["VV_B"], "out": ["e3.txt"]}],
                        ["step", "E4", {"env": ["VV_A"], "out": ["e4.txt"]}],
                        ["step", "E5", {"env": ["VV_B"], "inp": ["e3.txt"], "out": ["e5.txt"]}],
                    ]
                },
            },
            "E1": w, "E2": w, "E3": w, "E4": w, "E5": w,
        },
        # the first element is applied before the first build, the others are the later phases
        "extra_histories": [
            [[["env", "VV_A", "alpha"]], [["env", "VV_A", "beta"]], [["env", "VV_A", "alpha"]]],
            [[["env", "VV_A", "alpha"], ["env", "VV_B", "x"]], [["env", "VV_A", "beta"], ["env", "VV_B", None]],
             [["env", "VV_A", "alpha"], ["env", "VV_B", "x"]], [["env", "VV_B", None]]],
            [[], [["env", "VV_B", "y"], ["set", "s1.txt", "b"]], [["env", "VV_B", None]], [["env", "VV_B", "y"]]],
        ],
    }


def shape_late_static():
    """A step amends an input that its (still running) plan declares static only later: depending on the
    schedule the step finds it, or asks to be deferred and the input is confirmed before / after the
    step's completion is recorded.  Every schedule must end in the same successful build."""
    return {
        "name": "late_static",
        "sources": {"plan.py": ["v1"], "late.txt": ["a", "b"], "s1.txt": ["a", "b"]},
        "scripts": {
            "./plan.py": {
                "on": "plan.py",
                "versions": {
                    "v1": [
                        ["static", ["s1.txt"]],
                        ["step", "WK", {"inp": ["s1.txt"], "out": ["wk.txt"]}],
                        ["step", "WK2", {"out": ["wk2.txt"]}],
                        ["nop"], ["nop"], ["nop"],
                        ["static", ["late.txt"]],
                        ["nop"], ["nop"],
                    ]
                },
            },
            # both take their time to terminate after a refused amend (cleaning up)
            "WK": [["amend", {"inp": ["late.txt"]}, [["nop"], ["nop"], ["nop"], ["nop"], ["nop"], ["nop"]]],
                   ["read", "late.txt"], ["read_declared"], ["write_declared"]],
            "WK2": [["nop"], ["amend", {"inp": ["late.txt"]}, [["nop"], ["nop"], ["nop"]]], ["nop"], ["read", "late.txt"], ["write_declared"]],
        },
    }


def shape_amend_cycle():
    """Steps that try to amend an input whose builder (already defined, so the file is attached) depends on
    their own output: every such request must be rejected as cyclic, whatever the order of arrival."""
    return {
        "name": "amend_cycle",
        # who is refused depends on who comes first: A's amendment when the plan has defined C already,
        # the plan's definition of C when A's amendment was recorded before (the project is contradictory)
        "schedule_dependent": True,
        "sources": {"plan.py": ["v1"], "s1.txt": ["a", "b"]},
        "scripts": {
            "./plan.py": {
                "on": "plan.py",
                "versions": {
                    "v1": [
                        ["static", ["s1.txt"]],
                        # the plan itself: an amended output, a step that turns it into x.txt, x.txt amended as input
                        ["amend", {"out": ["y.txt"]}],
                        ["write", "y.txt"],
                        ["step", "CP", {"inp": ["y.txt"], "out": ["x.txt"]}],
                        ["try", ["amend", {"inp": ["x.txt"]}]],
                        ["step", "A", {"inp": ["s1.txt"], "out": ["a.txt"]}],
                        ["step", "B", {"inp": ["a.txt"], "out": ["b.txt"]}],
                        ["step", "C", {"inp": ["b.txt"], "out": ["c.txt"]}],
                    ]
                },
            },
            "CP": GENERIC_WORKER,
            "A": [["read_declared"], ["try", ["amend", {"inp": ["c.txt"]}]], ["write_declared"]],
            "B": [["read_declared"], ["try", ["amend", {"inp": ["c.txt"]}]], ["write_declared"]],
            "C": GENERIC_WORKER,
        },
    }


def shape_optional_consumer_dropped():
    """An optional step is built only because a step of another plan consumes its output; that plan is
    edited and drops the consumer (also: a consumer two creator levels below the edited plan).  The build
    after the edit must already revert the optional step: a later build without changes does nothing."""
    return {
        "name": "optional_consumer_dropped",
        "sources": {"plan.py": ["v1"], "sub.py": ["v1", "v2", "v3"], "inner.py": ["v1"], "s1.txt": ["a", "b"]},
        "scripts": {
            "./plan.py": {
                "on": "plan.py",
                "versions": {
                    "v1": [
                        ["static", ["s1.txt", "sub.py", "inner.py"]],
                        ["step", "OPT", {"need": "OPTIONAL", "inp": ["s1.txt"], "out": ["o.txt"]}],
                        ["step", "OPT2", {"need": "OPTIONAL", "inp": ["s1.txt"], "out": ["o2.txt"]}],
                        ["step", "./sub.py", {"inp": ["sub.py"], "need": "PLAN"}],
                    ]
                },
            },
            "./sub.py": {
                "on": "sub.py",
                "versions": {
                    "v1": [["step", "USE", {"inp": ["o.txt"], "out": ["u.txt"]}],
                           ["step", "./inner.py", {"inp": ["inner.py"], "need": "PLAN"}]],
                    "v2": [["step", "./inner.py", {"inp": ["inner.py"], "need": "PLAN"}]],
                    "v3": [],
                },
            },
            "./inner.py": [["step", "USE2", {"inp": ["o2.txt"], "out": ["u2.txt"]}]],
            "OPT": GENERIC_WORKER, "OPT2": GENERIC_WORKER, "USE": GENERIC_WORKER, "USE2": GENERIC_WORKER,
        },
        "extra_histories": [
            [[], [["set", "sub.py", "v2"]]],
            [[], [["set", "sub.py", "v3"]]],
            [[], [["set", "sub.py", "v2"]], [["set", "sub.py", "v3"]]],
            [[], [["set", "sub.py", "v3"]], [["set", "sub.py", "v1"]], [["set", "sub.py", "v3"]]],
        ],
    }


def shape_creator_fails_while_child_runs():
    """plan v2 defines the same steps and then fails while S (re)runs; v1 again recycles S."""
    steps = [
        ["static", ["s1.txt"]],
        ["step", "S", {"env": ["VV_A"], "out": ["o.txt"]}],
        ["step", "U", {"inp": ["o.txt", "s1.txt"], "out": ["u.txt"]}],
    ]
    return {
        "name": "creator_fails_while_child_runs",
        "schedule_dependent": True,
        "sources": {"plan.py": ["v1", "v2", "v1"], "s1.txt": ["a"]},
        "env_edits": [["env", "VV_A", "x"]],
        "scripts": {
            "./plan.py": {
                "on": "plan.py",
                "versions": {"v1": steps, "v2": steps + [["nop"], ["nop"], ["exit", 1]]},
            },
            "S": [["getenv_declared"], ["nop"], ["nop"], ["write_declared", "const"]],
            "U": GENERIC_WORKER,
        },
    }


def shape_self_product_input():
    """S defines T (-> o.txt) and amends o.txt as its own input; then S is dropped (candidate P4)."""
    return {
        "name": "self_product_input",
        "schedule_dependent": True,  # F8: whether T runs before S is deferred depends on the schedule
        "sources": {"plan.py": ["v1", "v2"], "s1.txt": ["a"]},
        "scripts": {
            "./plan.py": {
                "on": "plan.py",
                "versions": {
                    "v1": [["static", ["s1.txt"]], ["step", "S", {"need": "PLAN"}], ["step", "K", {"inp": ["s1.txt"], "out": ["k.txt"]}]],
                    "v2": [["static", ["s1.txt"]], ["step", "K", {"inp": ["s1.txt"], "out": ["k.txt"]}]],
                },
            },
            "S": [["step", "T", {"out": ["o.txt"]}], ["amend", {"inp": ["o.txt"]}], ["read", "o.txt"]],
            "T": GENERIC_WORKER,
            "K": GENERIC_WORKER,
        },
    }


def shape_unfresh_pruning():
    """C reads p.txt early and amends it late; P stops while C runs; D is dispatched after P stopped and
    keeps running; E stops while C and D run (this is when stop times are pruned); then C amends.
    Under a round-robin (fifo) schedule with three jobs the commands advance one operation per round."""
    nops = lambda n: [["nop"] for _ in range(n)]  # noqa: E731
    return {
        "name": "unfresh_pruning",
        "sources": {"plan.py": ["v1"], "s1.txt": ["a", "b"]},
        "scripts": {
            "./plan.py": {
                "on": "plan.py",
                "versions": {
                    "v1": [
                        ["static", ["s1.txt"]],
                        ["step", "C", {"inp": ["s1.txt"], "out": ["c.txt"]}],
                        ["step", "P", {"inp": ["s1.txt"], "out": ["p.txt"]}],
                        ["step", "E", {"inp": ["s1.txt"], "out": ["e.txt"]}],
                        ["step", "D", {"inp": ["s1.txt"], "out": ["d.txt"]}],
                    ]
                },
            },
            # reads first, declares afterwards (which amend() allows): what it read is only valid if the
            # producer had stopped before this command started
            "C": [["read", "p.txt", "optional"]] + nops(14) + [["amend", {"inp": ["p.txt"]}], ["read", "p.txt"],
                                                               ["read_declared"], ["write_declared"]],
            "P": GENERIC_WORKER,
            "E": nops(6) + GENERIC_WORKER,
            "D": nops(20) + GENERIC_WORKER,
        },
    }


def shape_optional_via_amend():
    """An optional step is needed only through an input that WORK amends while cfg.txt says so."""
    return {
        "name": "optional_via_amend",
        "sources": {"plan.py": ["v1"], "cfg.txt": ["use", "skip", "use"], "s1.txt": ["a"]},
        "scripts": {
            "./plan.py": {
                "on": "plan.py",
                "versions": {
                    "v1": [
                        ["static", ["cfg.txt", "s1.txt"]],
                        ["step", "O", {"inp": ["s1.txt"], "out": ["sub/opt.txt"], "need": "OPTIONAL"}],
                        ["step", "WORK", {"inp": ["cfg.txt"], "out": ["w.txt"]}],
                    ]
                },
            },
            "O": GENERIC_WORKER,
            "WORK": [
                ["if_version", "cfg.txt", "use", [["amend", {"inp": ["sub/opt.txt"]}], ["read", "sub/opt.txt"]]],
                ["read_declared"],
                ["write_declared"],
            ],
        },
    }


def shape_hold():
    return {
        "name": "hold",
        "sources": {"plan.py": ["v1"], "s1.txt": ["a", "b"]},
        "scripts": {
            "./plan.py": {
                "on": "plan.py",
                "versions": {
                    "v1": [
                        ["static", ["s1.txt"]],
                        ["hold"],
                        ["step", "W1", {"inp": ["s1.txt"], "out": ["o1.txt"]}],
                        ["hold"],
                        ["step", "W2", {"inp": ["s1.txt"], "out": ["o2.txt"]}],
                        ["release"],
                        ["step", "W3", {"inp": ["o1.txt", "o2.txt"], "out": ["o3.txt"]}],
                        ["release"],
                        ["step", "W4", {"inp": ["o3.txt"], "out": ["o4.txt"]}],
                    ]
                },
            },
            "W1": GENERIC_WORKER,
            "W2": GENERIC_WORKER,
            "W3": GENERIC_WORKER,
            "W4": GENERIC_WORKER,
        },
    }


def shape_hold_recycle():
    """The first build stops after S1 fails (S2, S3 stay pending without a hash); the plan is edited and
    re-declares the three steps inside a hold block: none may start before the release."""
    nops = lambda n: [["nop"] for _ in range(n)]  # noqa: E731
    body = [
        ["static", ["cfg.txt", "s1.txt"]],
        ["hold"],
        ["step", "S1", {"inp": ["cfg.txt"], "out": ["h1.txt"]}],
        ["step", "S2", {"inp": ["s1.txt"], "out": ["h2.txt"]}],
        ["step", "S3", {"inp": ["s1.txt"], "out": ["h3.txt"]}],
    ]
    return {
        "name": "hold_recycle",
        "sources": {"plan.py": ["v1", "v2", "v3"], "cfg.txt": ["bad", "good"], "s1.txt": ["a"]},
        "scripts": {
            "./plan.py": {
                "on": "plan.py",
                "versions": {"v1": body + nops(2) + [["release"]], "v2": body + nops(6) + [["release"]],
                             "v3": body + nops(10) + [["release"]]},
            },
            "S1": [["if_version", "cfg.txt", "bad", [["exit", 1]]], ["read_declared"], ["write_declared"]],
            "S2": GENERIC_WORKER,
            "S3": GENERIC_WORKER,
        },
    }


def shape_pending_mix():
    """Pending steps with different causes: A asks for more gpu than exists, B asks for an available
    amount but waits for the output of F, which fails (under keep-going), C waits for a missing input."""
    return {
        "name": "pending_mix",
        "sources": {"plan.py": ["v1"], "s1.txt": ["a", "b"]},
        "scripts": {
            "./plan.py": {
                "on": "plan.py",
                "versions": {
                    "v1": [
                        ["static", ["s1.txt"]],
                        ["step", "F", {"inp": ["s1.txt"], "out": ["f.txt"]}],
                        ["step", "A", {"inp": ["s1.txt"], "out": ["a.txt"], "resources": {"gpu": 7}}],
                        ["step", "B", {"inp": ["f.txt"], "out": ["b.txt"], "resources": {"gpu": 1}}],
                        ["step", "C", {"inp": ["nowhere.txt"], "out": ["c.txt"], "resources": {"gpu": 1}}],
                        ["step", "D", {"inp": ["b.txt"], "out": ["d.txt"]}],
                    ]
                },
            },
            "F": [["exit", 1]],
            "A": GENERIC_WORKER,
            "B": GENERIC_WORKER,
            "C": GENERIC_WORKER,
            "D": GENERIC_WORKER,
        },
    }


def shape_dropped_output_with_late_consumer():
    """G stops declaring sub/b.txt while a step defined later in the plan still reads it (incomplete build,
    no clean-up); then the consumer is dropped too: the former output and its directory must go."""
    return {
        "name": "dropped_output_with_late_consumer",
        "sources": {"plan.py": ["v1", "v2", "v3"], "s1.txt": ["a"]},
        "scripts": {
            "./plan.py": {
                "on": "plan.py",
                "versions": {
                    "v1": [["static", ["s1.txt"]], ["step", "G", {"inp": ["s1.txt"], "out": ["a.txt", "sub/b.txt"]}]],
                    "v2": [["static", ["s1.txt"]], ["step", "G", {"inp": ["s1.txt"], "out": ["a.txt"]}],
                           ["step", "K", {"inp": ["sub/b.txt"], "out": ["k.txt"]}]],
                    "v3": [["static", ["s1.txt"]], ["step", "G", {"inp": ["s1.txt"], "out": ["a.txt"]}]],
                },
            },
            "G": GENERIC_WORKER,
            "K": GENERIC_WORKER,
        },
    }


def shape_amend():
    return {
        "name": "amend",
        "sources": {"plan.py": ["v1"], "s1.txt": ["a", "b"], "s2.txt": ["a", "b"]},
        "scripts": {
            "./plan.py": {
                "on": "plan.py",
                "versions": {
                    "v1": [
                        ["static", ["s1.txt", "s2.txt"]],
                        ["step", "P", {"inp": ["s1.txt"], "out": ["p.txt"]}],
                        ["step", "Q", {"inp": ["s2.txt"], "out": ["q.txt"]}],
                    ]
                },
            },
            "P": GENERIC_WORKER,
            "Q": worker_script(dyn_inp=["p.txt"]),
        },
    }


def shape_optional():
    return {
        "name": "optional",
        "sources": {"plan.py": ["v1", "v2"], "s1.txt": ["a", "b"]},
        "scripts": {
            "./plan.py": {
                "on": "plan.py",
                "versions": {
                    "v1": [
                        ["static", ["s1.txt"]],
                        ["step", "O1", {"inp": ["s1.txt"], "out": ["x1.txt"], "need": "OPTIONAL"}],
                        ["step", "O2", {"inp": ["x1.txt"], "out": ["x2.txt"], "need": "OPTIONAL"}],
                        ["step", "O3", {"inp": ["s1.txt"], "out": ["x3.txt"], "need": "OPTIONAL"}],
                        ["step", "D1", {"inp": ["x2.txt"], "out": ["y1.txt"]}],
                    ],
                    "v2": [
                        ["static", ["s1.txt"]],
                        ["step", "O1", {"inp": ["s1.txt"], "out": ["x1.txt"], "need": "OPTIONAL"}],
                        ["step", "O2", {"inp": ["x1.txt"], "out": ["x2.txt"], "need": "OPTIONAL"}],
                        ["step", "O3", {"inp": ["s1.txt"], "out": ["x3.txt"], "need": "OPTIONAL"}],
                    ],
                },
            },
            "O1": GENERIC_WORKER,
            "O2": GENERIC_WORKER,
            "O3": GENERIC_WORKER,
            "D1": GENERIC_WORKER,
        },
    }


def shape_tree_glob():
    return {
        "name": "tree_glob",
        "sources": {
            "plan.py": ["v1"],
            "data/d1.txt": ["a", "b"],
            "data/d2.txt": ["a", "b"],
            "src/g1.in": ["a", "b"],
            "src/g2.in": ["a", "b"],
            "src/gx.in": ["a", "b"],
        },
        "scripts": {
            "./plan.py": {
                "on": "plan.py",
                "versions": {
                    "v1": [
                        ["tree", ["data/"]],
                        ["sglob", "src/*.in"],
                        ["glob", "src/g${*i}.in", {"i": "[0-9]"}, [["step", "G:{s}", {"inp": ["{m}"], "out": ["out/{s}.out"]}]]],
                        ["step", "T1", {"inp": ["data/d1.txt"], "out": ["t1.txt"]}],
                    ]
                },
            },
            "G:g1": GENERIC_WORKER,
            "G:g2": GENERIC_WORKER,
            "G:g3": GENERIC_WORKER,
            "G:gx": GENERIC_WORKER,
            "T1": worker_script(dyn_inp=["data/d2.txt"]),
        },
    }


def shape_nested_dirs():
    """Static input, static tree and glob whose directories are nested two levels deep."""
    return {
        "name": "nested_dirs",
        "sources": {
            "plan.py": ["v1"],
            "a/b/inp.txt": ["a", "b"],
            "data/deep/d1.txt": ["a", "b"],
            "src/lib/g1.in": ["a", "b"],
            "src/lib/g2.in": ["a", "b"],
        },
        "scripts": {
            "./plan.py": {
                "on": "plan.py",
                "versions": {
                    "v1": [
                        ["static", ["a/b/inp.txt"]],
                        ["tree", ["data/"]],
                        ["sglob", "src/lib/*.in"],
                        ["glob", "src/lib/g${*i}.in", {"i": "[0-9]"},
                         [["step", "G:{s}", {"inp": ["{m}"], "out": ["out/deep/{s}.out"]}]]],
                        ["step", "N1", {"inp": ["a/b/inp.txt"], "out": ["n1.txt"]}],
                        ["step", "T1", {"inp": ["data/deep/d1.txt"], "out": ["t1.txt"]}],
                    ]
                },
            },
            "G:g1": GENERIC_WORKER,
            "G:g2": GENERIC_WORKER,
            "G:g3": GENERIC_WORKER,
            "N1": GENERIC_WORKER,
            "T1": GENERIC_WORKER,
        },
    }


def shape_glob_undeclared():
    """Steps use glob matches that nothing declares static (UNDECLARED placeholders, build incomplete)."""
    return {
        "name": "glob_undeclared",
        "sources": {"plan.py": ["v1", "v2"], "src/g1.in": ["a", "b"], "src/g2.in": ["a", "b"], "s1.txt": ["a", "b"]},
        "scripts": {
            "./plan.py": {
                "on": "plan.py",
                "versions": {
                    "v1": [
                        ["static", ["s1.txt"]],
                        ["glob", "src/g${*i}.in", {"i": "[0-9]"}, [["step", "G:{s}", {"inp": ["{m}"], "out": ["out/{s}.out"]}]]],
                        ["step", "N1", {"inp": ["s1.txt"], "out": ["n1.txt"]}],
                    ],
                    "v2": [
                        ["static", ["s1.txt"]],
                        ["sglob", "src/*.in"],
                        ["glob", "src/g${*i}.in", {"i": "[0-9]"}, [["step", "G:{s}", {"inp": ["{m}"], "out": ["out/{s}.out"]}]]],
                        ["step", "N1", {"inp": ["s1.txt"], "out": ["n1.txt"]}],
                    ],
                },
            },
            "G:g1": GENERIC_WORKER,
            "G:g2": GENERIC_WORKER,
            "G:g3": GENERIC_WORKER,
            "N1": GENERIC_WORKER,
        },
    }


def shape_amend_detached_input():
    """T amends the output of W1 as input; the plan drops W1: the file node lingers detached and BUILT."""
    return {
        "name": "amend_detached_input",
        "sources": {"plan.py": ["v1", "v2"], "cfg.txt": ["a", "b", "c"]},
        "scripts": {
            "./plan.py": {
                "on": "plan.py",
                "versions": {
                    "v1": [
                        ["static", ["cfg.txt"]],
                        ["step", "W1", {"inp": [], "out": ["o1.txt"]}],
                        ["step", "T", {"inp": ["cfg.txt"], "out": ["t.txt"]}],
                    ],
                    "v2": [
                        ["static", ["cfg.txt"]],
                        ["step", "T", {"inp": ["cfg.txt"], "out": ["t.txt"]}],
                    ],
                },
            },
            "W1": GENERIC_WORKER,
            "T": worker_script(dyn_inp=["o1.txt"]),
        },
    }


def shape_resource_detached_running():
    """A sub-plan starts a long step that holds a resource and then fails: the step keeps running
    detached, and must keep counting against the resource while another claimant waits."""
    nops = lambda n: [["nop"] for _ in range(n)]  # noqa: E731
    return {
        "name": "resource_detached_running",
        "sources": {"plan.py": ["v1"], "sub1.py": ["v1"], "s1.txt": ["a", "b"]},
        "scripts": {
            "./plan.py": {
                "on": "plan.py",
                "versions": {
                    "v1": [
                        ["static", ["s1.txt", "sub1.py"]],
                        ["step", "./sub1.py", {"inp": ["sub1.py"], "need": "PLAN"}],
                        ["step", "Y", {"inp": ["z.txt"], "out": ["y.txt"], "resources": {"gpu": 2}}],
                        ["step", "Z", {"inp": ["s1.txt"], "out": ["z.txt"]}],
                    ]
                },
            },
            "./sub1.py": [["step", "X", {"inp": [], "out": ["x.txt"], "resources": {"gpu": 2}}]] + nops(4) + [["exit", 1]],
            "X": nops(40) + GENERIC_WORKER,
            "Y": GENERIC_WORKER,
            "Z": nops(8) + GENERIC_WORKER,
        },
    }


def shape_dir_glob():
    """A pattern that enumerates directories (one step per case directory)."""
    return {
        "name": "dir_glob",
        "sources": {"plan.py": ["v1"], "cases/c1/inp.txt": ["a", "b"], "cases/c2/inp.txt": ["a", "b"]},
        "scripts": {
            "./plan.py": {
                "on": "plan.py",
                "versions": {
                    "v1": [
                        ["tree", ["cases/"]],
                        ["glob", "cases/${*c}/", {}, [["step", "D:{s}", {"inp": ["{m}inp.txt"], "out": ["res/{s}.txt"]}]]],
                    ]
                },
            },
            "D:c1": GENERIC_WORKER,
            "D:c2": GENERIC_WORKER,
            "D:c3": GENERIC_WORKER,
        },
    }


def shape_glob_nodeless():
    """A pattern whose matches lie in a static tree and are used by no step as input: the matches have no
    file node, the pattern's recorded match set is the only trace of them in the workflow."""
    return {
        "name": "glob_nodeless",
        "sources": {"plan.py": ["v1"], "data/b1/x.csv": ["a", "b"], "data/b1/y.csv": ["a", "b"], "data/b2/z.csv": ["a", "b"]},
        "scripts": {
            "./plan.py": {
                "on": "plan.py",
                "versions": {
                    "v1": [
                        ["tree", ["data/"]],
                        ["glob", "data/${*b}/${*f}.csv", {}, [["step", "L:{s}", {"out": ["lst/{s}.txt"]}]]],
                        ["nop"], ["nop"], ["nop"], ["nop"],
                    ]
                },
            },
            "L:x": GENERIC_WORKER, "L:y": GENERIC_WORKER, "L:z": GENERIC_WORKER, "L:w": GENERIC_WORKER,
        },
    }


def shape_tree_recycle_overlap():
    """A sub-plan owns a static tree; the plan drops the sub-plan and gives another step an output below
    that directory; then the sub-plan comes back unchanged (a full recycle brings the tree back without
    any declaration).  A static tree and somebody else's output below it must never be attached
    together, whatever the history (finding F27)."""
    sub = ["step", "./sub.py", {"inp": ["sub.py"], "need": "PLAN"}]
    t = ["step", "T", {"inp": ["s1.txt"], "out": ["data/x.txt"]}]
    head = [["static", ["sub.py", "s1.txt"]]]
    return {
        "name": "tree_recycle_overlap",
        "cfg": {"clean": False},      # --no-clean: what a plan dropped stays around, detached
        "schedule_dependent": True,   # v3 / v3b are contradictory plans: which declaration is refused depends on who comes first
        "sources": {"plan.py": ["v1", "v2", "v3", "v3b"], "sub.py": ["v1"], "s1.txt": ["a", "b"], "data/d1.txt": ["a", "b"]},
        "scripts": {
            "./plan.py": {
                "on": "plan.py",
                "versions": {"v1": head + [sub], "v2": head + [t], "v3": head + [sub, t], "v3b": head + [t, sub]},
            },
            "./sub.py": [["tree", ["data/"]], ["step", "U", {"inp": ["data/d1.txt"], "out": ["u.txt"]}]],
            "T": GENERIC_WORKER,
            "U": GENERIC_WORKER,
        },
        "extra_histories": [
            [[], [["set", "plan.py", "v2"]], [["set", "plan.py", "v3"]]],
            [[], [["set", "plan.py", "v2"]], [["set", "plan.py", "v3b"]]],
        ],
    }


def shape_warning_optional_revert():
    """A build that ends with nothing but a warning (a pattern matches files that nothing declares) is a
    complete build: an optional step that lost its last consumer is reverted and its output removed."""
    head = [["static", ["s1.txt"]], ["glob", "notes/*.md"],
            ["step", "OPT", {"need": "OPTIONAL", "inp": ["s1.txt"], "out": ["mid.txt"]}]]
    return {
        "name": "warning_optional_revert",
        "sources": {"plan.py": ["v1", "v2"], "notes/n1.md": ["a", "b"], "s1.txt": ["a", "b"]},
        "scripts": {
            "./plan.py": {
                "on": "plan.py",
                "versions": {"v1": head + [["step", "USE", {"inp": ["mid.txt"], "out": ["out.txt"]}]], "v2": head},
            },
            "OPT": GENERIC_WORKER,
            "USE": GENERIC_WORKER,
        },
    }


def shape_fail_after_write():
    """A step succeeds once, then reruns, rewrites its output and fails; then the plan drops it.  What
    is on disk is what the step itself wrote, so the clean-up of the next successful build removes it."""
    return {
        "name": "fail_after_write",
        # (s1.txt first: the histories switch the sources one at a time in this order)
        "sources": {"s1.txt": ["a", "b"], "plan.py": ["v1", "v2"]},
        "scripts": {
            "./plan.py": {
                "on": "plan.py",
                "versions": {
                    "v1": [["static", ["s1.txt"]], ["step", "FW", {"inp": ["s1.txt"], "out": ["fw.txt", "sub/fw2.txt"]}],
                           ["step", "OK1", {"inp": ["s1.txt"], "out": ["ok1.txt"]}]],
                    "v2": [["static", ["s1.txt"]], ["step", "OK1", {"inp": ["s1.txt"], "out": ["ok1.txt"]}]],
                },
            },
            "FW": [["read_declared"], ["write_declared"], ["if_version", "s1.txt", "b", [["exit", 1]]]],
            "OK1": GENERIC_WORKER,
        },
    }


def shape_sglob_dirs():
    """static() with a pattern that matches directories (they become static trees) and one that matches
    files: a restart without changes finds the recorded match sets unchanged."""
    return {
        "name": "sglob_dirs",
        "sources": {"plan.py": ["v1"], "data/a/x.txt": ["a", "b"], "data/b/y.txt": ["a", "b"], "src/g1.in": ["a", "b"]},
        "scripts": {
            "./plan.py": {
                "on": "plan.py",
                "versions": {
                    "v1": [
                        ["sglob", "data/*/"],
                        ["sglob", "src/*.in"],
                        ["step", "SD", {"inp": ["data/a/x.txt", "src/g1.in"], "out": ["sd.txt"]}],
                    ]
                },
            },
            "SD": GENERIC_WORKER,
        },
    }


def shape_glob_sub_slash():
    """A named wildcard whose substitution spans a directory separator; the matches (inside a static tree,
    used by no step as input) have no file node, so the pattern's stored regular expression is all that
    makes a new match relevant to the watcher."""
    return {
        "name": "glob_sub_slash",
        "sources": {"plan.py": ["v1"], "src/a/m1.py": ["a", "b"], "src/a/m2.py": ["a", "b"]},
        "scripts": {
            "./plan.py": {
                "on": "plan.py",
                "versions": {
                    "v1": [
                        ["tree", ["src/"]],
                        ["glob", "src/${*mod}.py", {"mod": "*/*"}, [["step", "M:{s}", {"out": ["lst/{s}.txt"]}]]],
                    ]
                },
            },
            "M:m1": GENERIC_WORKER, "M:m2": GENERIC_WORKER, "M:m3": GENERIC_WORKER, "M:m4": GENERIC_WORKER,
        },
    }


def shape_odd_dir_names():
    """Static inputs below directories whose names contain characters that are special in GLOB / LIKE."""
    return {
        "name": "odd_dir_names",
        "sources": {"plan.py": ["v1"], "dq?/d1.txt": ["a", "b"], "ds*/d2.txt": ["a", "b"], "d[b]/d3.txt": ["a", "b"], "s1.txt": ["a", "b"]},
        "scripts": {
            "./plan.py": {
                "on": "plan.py",
                "versions": {
                    "v1": [
                        ["static", ["dq?/d1.txt", "ds*/d2.txt", "d[b]/d3.txt", "s1.txt"]],
                        ["step", "Q1", {"inp": ["dq?/d1.txt"], "out": ["q1.txt"]}],
                        ["step", "Q2", {"inp": ["ds*/d2.txt", "s1.txt"], "out": ["q2.txt"]}],
                        ["step", "Q3", {"inp": ["d[b]/d3.txt"], "out": ["q3.txt"]}],
                    ]
                },
            },
            "Q1": GENERIC_WORKER, "Q2": GENERIC_WORKER, "Q3": GENERIC_WORKER,
        },
    }


def shape_target_role_change():
    """A path that the first plan declares static is produced by a step after an edit of the plan, and the
    rebuild asks for that path as its target: the target is judged by the plan as it is now."""
    return {
        "name": "target_role_change",
        # (excluded from the relational checks like the schedule-dependent shapes: after the edit a step
        # overwrites what used to be a source file, so "the final sources" are not what a scratch build gets)
        "schedule_dependent": True,
        "sources": {"plan.py": ["v1", "v2"], "data.txt": ["a"], "s1.txt": ["a", "b"]},
        "scripts": {
            "./plan.py": {
                "on": "plan.py",
                "versions": {
                    "v1": [["static", ["data.txt", "s1.txt"]], ["step", "USE", {"inp": ["data.txt"], "out": ["use.txt"]}]],
                    "v2": [["static", ["s1.txt"]], ["step", "GEN", {"inp": ["s1.txt"], "out": ["data.txt"]}],
                           ["step", "USE", {"inp": ["data.txt"], "out": ["use.txt"]}]],
                },
            },
            "GEN": GENERIC_WORKER, "USE": GENERIC_WORKER,
        },
        "extra_histories": [
            [[], {"edits": [["set", "plan.py", "v2"], ["del", "data.txt"]], "cfg": {"targets": ["data.txt"]}}, []],
            [[], {"edits": [["set", "plan.py", "v2"], ["del", "data.txt"]], "cfg": {"targets": ["use.txt"]}}, {"edits": [], "cfg": {"targets": ["data.txt"]}}],
        ],
    }


def shape_amend_output_of_subplan():
    """A step of the top-level plan amends the output of a step that a slow sub-plan defines.  When the
    sub-plan is executed again (after a kill, or because it was interrupted) its producer is detached for a
    while, still SUCCEEDED with its output BUILT: a consumer that amends the output in that window is told
    to wait, and must be retried once the sub-plan has brought the producer back."""
    return {
        "name": "amend_output_of_subplan",
        "sources": {"plan.py": ["v1"], "sub.py": ["v1", "v2"], "s1.txt": ["a", "b"]},
        "scripts": {
            "./plan.py": {
                "on": "plan.py",
                "versions": {
                    "v1": [
                        ["static", ["s1.txt", "sub.py"]],
                        ["step", "./sub.py", {"inp": ["sub.py"], "need": "PLAN"}],
                        ["step", "CONS", {"out": ["c.txt"]}],
                        ["step", "CONS2", {"inp": ["s1.txt"], "out": ["c2.txt"]}],
                    ]
                },
            },
            "./sub.py": {"on": "sub.py", "versions": {
                "v1": [["nop"], ["step", "PROD", {"inp": ["s1.txt"], "out": ["p.txt"]}], ["nop"], ["nop"], ["nop"], ["nop"], ["nop"], ["nop"]],
                "v2": [["nop"], ["nop"], ["nop"], ["step", "PROD", {"inp": ["s1.txt"], "out": ["p.txt"]}], ["nop"], ["nop"], ["nop"], ["nop"]]}},
            "PROD": GENERIC_WORKER,
            "CONS": [["amend", {"inp": ["p.txt"]}], ["read", "p.txt"], ["write_declared"]],
            "CONS2": [["nop"], ["nop"], ["amend", {"inp": ["p.txt"]}], ["read", "p.txt"], ["read_declared"], ["write_declared"]],
        },
    }


def shape_resources():
    return {
        "name": "resources",
        "sources": {"plan.py": ["v1"], "s1.txt": ["a", "b"]},
        "scripts": {
            "./plan.py": {
                "on": "plan.py",
                "versions": {
                    "v1": [["static", ["s1.txt"]]]
                    + [
                        ["step", f"R{i}", {"inp": ["s1.txt"], "out": [f"r{i}.txt"], "resources": {"gpu": 1 + (i % 2)}}]
                        for i in range(4)
                    ]
                    + [["step", "U1", {"inp": ["s1.txt"], "out": ["u1.txt"], "resources": {"tpu": 1}}]],
                },
            },
            **{f"R{i}": GENERIC_WORKER for i in range(4)},
            "U1": GENERIC_WORKER,
        },
    }


SHAPES = {
    f.__name__[6:]: f
    for f in (
        shape_chain,
        shape_subplan_readd,
        shape_subplan_noinp,
        shape_detach_running_fail,
        shape_amend_unchanged_output,
        shape_detach_running_same_output,
        shape_creator_fails_while_child_runs,
        shape_self_product_input,
        shape_unfresh_pruning,
        shape_optional_via_amend,
        shape_hold,
        shape_amend,
        shape_optional,
        shape_tree_glob,
        shape_nested_dirs,
        shape_glob_undeclared,
        shape_dir_glob,
        shape_dropped_output_with_late_consumer,
        shape_pending_mix,
        shape_hold_recycle,
        shape_resource_detached_running,
        shape_amend_detached_input,
        shape_rm_before_write,
        shape_env_shared,
        shape_late_static,
        shape_amend_cycle,
        shape_optional_consumer_dropped,
        shape_glob_nodeless,
        shape_tree_recycle_overlap,
        shape_warning_optional_revert,
        shape_fail_after_write,
        shape_sglob_dirs,
        shape_glob_sub_slash,
        shape_odd_dir_names,
        shape_target_role_change,
        shape_amend_output_of_subplan,
        shape_resources,
    )
}


def initial_phase(project: dict, cfg=None, seed=0, versions=None) -> dict:
    edits = []
    for path, vers in project["sources"].items():
        v = (versions or {}).get(path, vers[0])
        if v is not None:
            edits.append(["set", path, v])
    return {"edits": edits, "how": "restart", "cfg": cfg or {"njob": 2}, "seed": seed, "fresh": True}


# ---------------------------------------------------------------------------------------------
# Seeded generator
# ---------------------------------------------------------------------------------------------


class Gen:
    """Random projects: a plan, up to two sub-plans, worker DAG, optional/amend/env/vol/resources.

    Plan versions are obtained from a base configuration by mutations (drop / re-add / move a
    worker between plans / redefine inputs, env or need / rename an output), so that consecutive
    versions exercise detach, recycle, partial recycle and role changes.
    """

    def __init__(self, seed: int, nworkers=5, nsources=3, nversions=3, features=None):
        self.rng = random.Random(seed)
        self.nworkers = nworkers
        self.nsources = nsources
        self.nversions = nversions
        self.features = features or {
            "subplan": 0.6,
            "optional": 0.25,
            "amend": 0.3,
            "env": 0.25,
            "vol": 0.15,
            "resources": 0.2,
            "hold": 0.25,
            "tree": 0.3,
            "glob": 0.25,
            "subdir_out": 0.3,
            "fail": 0.05,
            "dyn_out": 0.1,
            "workdir": 0.1,
            "const_out": 0.15,
            "overrides": 0.2,
            "clobber": 0.04,
            "late_subplan": 0.3,
        }

    def flip(self, name):
        return self.rng.random() < self.features.get(name, 0.0)

    def project(self) -> dict:
        rng = self.rng
        sources = [f"s{i}.txt" for i in range(1, self.nsources + 1)]
        tree_files = []
        use_tree = self.flip("tree")
        if use_tree:
            tree_files = ["data/d1.txt", "data/d2.txt"]
        use_glob = self.flip("glob")
        glob_files = ["src/g1.in", "src/g2.in", "src/gx.in"] if use_glob else []
        nsub = 0
        if self.flip("subplan"):
            nsub = rng.choice([1, 1, 2])
        workers = {}
        avail_inputs = list(sources) + tree_files
        scripts = {}
        for i in range(1, self.nworkers + 1):
            name = f"W{i}"
            ninp = rng.choice([0, 1, 1, 2, 2, 3])
            inp = sorted(rng.sample(avail_inputs, min(ninp, len(avail_inputs))))
            dyn = []
            if inp and self.flip("amend"):
                k = rng.randrange(len(inp))
                dyn = [inp.pop(k)]
            out = [f"out/o{i}.txt" if self.flip("subdir_out") else f"o{i}.txt"]
            if rng.random() < 0.15:
                out.append(f"o{i}b.txt")
            vol = [f"v{i}.log"] if self.flip("vol") else []
            dyn_out = [f"dyn{i}.txt"] if self.flip("dyn_out") else []
            decl = {"inp": inp, "out": out}
            if vol:
                decl["vol"] = vol
            if self.flip("optional"):
                decl["need"] = "OPTIONAL"
            if self.flip("env"):
                decl["env"] = [rng.choice(["VV_A", "VV_B"])]
            if self.flip("overrides"):
                decl["overrides"] = {"VV_O": rng.choice(["1", "2"])}
            if self.flip("resources"):
                decl["resources"] = {rng.choice(["gpu", "gpu", "tpu"]): rng.choice([1, 1, 2])}
            workers[name] = {"decl": decl, "where": rng.randrange(0, nsub + 1)}
            built_inputs = [p for p in inp if not p.startswith(("s", "data/"))]
            scripts[name] = worker_script(
                dyn_inp=dyn, dyn_out=dyn_out, fail=self.flip("fail"), const_out=self.flip("const_out"),
                clobber=rng.choice(built_inputs) if built_inputs and self.flip("clobber") else None,
            )
            scripts[name].extend([["write", v] for v in vol])
            avail_inputs.extend(out)
        late = {}
        for si in range(nsub):
            if self.flip("late_subplan"):
                outs = [w["decl"]["out"][0] for n, w in workers.items() if w["where"] != si + 1]
                if outs:
                    late[si + 1] = rng.choice(outs)
        base = {
            "late": late,
            "workers": workers,
            "active": {w: True for w in workers},
            "static": list(sources),
            "tree": use_tree,
            "glob": use_glob,
            "nsub": nsub,
            "hold": self.flip("hold"),
        }
        configs = [base]
        for _ in range(self.nversions - 1):
            configs.append(self.mutate(copy.deepcopy(configs[-1])))
        plan_versions = {}
        sub_versions = [dict() for _ in range(nsub)]
        for vi, cfg in enumerate(configs, start=1):
            v = f"v{vi}"
            plan_versions[v] = self.render_plan(cfg, 0)
            for si in range(nsub):
                sub_versions[si][v] = self.render_plan(cfg, si + 1)
        # twins: same operations, different file content (an edit that changes nothing the plan does)
        for v in list(plan_versions):
            plan_versions[v + "b"] = copy.deepcopy(plan_versions[v])
        src = {"plan.py": [v for v in plan_versions if not v.endswith("b")]}
        for s in sources:
            src[s] = ["a", "b", "c"]
        for s in tree_files + glob_files:
            src[s] = ["a", "b"]
        scripts["./plan.py"] = {"on": "plan.py", "versions": plan_versions}
        for si in range(nsub):
            # the sub-plan's behaviour follows the version of plan.py through its own file
            src[f"sub{si + 1}.py"] = list(plan_versions)
            scripts[f"./sub{si + 1}.py"] = {"on": f"sub{si + 1}.py", "versions": sub_versions[si]}
        if use_glob:
            for g in ("g1", "g2", "g3", "gx"):
                scripts[f"G:{g}"] = GENERIC_WORKER
        return {
            "name": f"gen{rng.randrange(10**6)}",
            "sources": src,
            "scripts": scripts,
            "nsub": nsub,
            "linked": [f"sub{si + 1}.py" for si in range(nsub)],
        }

    def mutate(self, cfg):
        rng = self.rng
        names = sorted(cfg["workers"])
        for _ in range(rng.choice([1, 1, 2])):
            kind = rng.choice(["drop", "readd", "move", "inp", "env", "need", "rename", "hold", "static", "tree"])
            w = rng.choice(names)
            wk = cfg["workers"][w]
            if kind == "drop":
                cfg["active"][w] = False
            elif kind == "readd":
                off = [n for n in names if not cfg["active"][n]]
                if off:
                    cfg["active"][rng.choice(off)] = True
            elif kind == "move":
                wk["where"] = rng.randrange(0, cfg["nsub"] + 1)
            elif kind == "inp":
                if wk["decl"]["inp"] and rng.random() < 0.5:
                    wk["decl"]["inp"] = wk["decl"]["inp"][:-1]
                else:
                    cand = [s for s in cfg["static"] if s not in wk["decl"]["inp"]]
                    if cand:
                        wk["decl"]["inp"] = sorted(wk["decl"]["inp"] + [rng.choice(cand)])
            elif kind == "env":
                if "env" in wk["decl"]:
                    del wk["decl"]["env"]
                else:
                    wk["decl"]["env"] = ["VV_A"]
            elif kind == "need":
                if wk["decl"].get("need") == "OPTIONAL":
                    del wk["decl"]["need"]
                else:
                    wk["decl"]["need"] = "OPTIONAL"
            elif kind == "rename":
                wk["decl"]["out"] = [wk["decl"]["out"][0].replace(".txt", "r.txt") if not wk["decl"]["out"][0].endswith("r.txt") else wk["decl"]["out"][0].replace("r.txt", ".txt")] + wk["decl"]["out"][1:]
            elif kind == "hold":
                cfg["hold"] = not cfg["hold"]
            elif kind == "static":
                # a former output becomes a user-provided static file or vice versa: skipped here
                pass
            elif kind == "tree":
                cfg["tree"] = cfg["tree"]
        return cfg

    def render_plan(self, cfg, where: int):
        ops = []
        if where == 0:
            ops.append(["static", list(cfg["static"])])
            if cfg["tree"]:
                ops.append(["tree", ["data/"]])
            for si in range(cfg["nsub"]):
                ops.append(["static", [f"sub{si + 1}.py"]])
                ops.append(["step", f"./sub{si + 1}.py", {"inp": [f"sub{si + 1}.py"], "need": "PLAN"}])
            if cfg["glob"]:
                ops.append(["sglob", "src/*.in"])
                # a named wildcard restricted by a sub-pattern: gx.in only matches the unrestricted form
                ops.append(["glob", "src/g${*i}.in", {"i": "[0-9]"}, [["step", "G:{s}", {"inp": ["{m}"], "out": ["gout/{s}.out"]}]]])
        mine = [w for w in sorted(cfg["workers"]) if cfg["active"][w] and cfg["workers"][w]["where"] == where]
        if cfg["hold"] and where == 0 and mine:
            ops.append(["hold"])
        for w in mine:
            ops.append(["step", w, copy.deepcopy(cfg["workers"][w]["decl"])])
        if cfg["hold"] and where == 0 and mine:
            ops.append(["release"])
        if where in cfg.get("late", {}):
            # the sub-plan reads a built file: it is deferred until the producer is done and then
            # runs again, detaching (and re-declaring) the steps it created, possibly while they run
            ops.append(["amend", {"inp": [cfg["late"][where]]}])
            ops.append(["read", cfg["late"][where]])
        return ops

    def history(self, project, nphases=4, watch_p=0.3, cfgs=None, user_edits=False, targets=False) -> list[dict]:
        rng = self.rng
        outs = sorted({o for v in project["scripts"]["./plan.py"]["versions"].values() for op in v
                       if op[0] == "step" for o in op[2].get("out", [])})
        for sub in project.get("linked", []):
            for v in project["scripts"]["./" + sub]["versions"].values():
                outs.extend(o for op in v if op[0] == "step" for o in op[2].get("out", []))
        outs = sorted(set(outs))
        cur = {p: vs[0] for p, vs in project["sources"].items()}
        phases = [initial_phase(project, cfg=self.cfg(cfgs), seed=rng.randrange(10**6))]
        for _ in range(nphases - 1):
            edits = []
            for _ in range(rng.choice([1, 1, 2])):
                kind = rng.choice(["plan", "plan", "src", "src", "del", "env", "none"])
                if kind == "plan":
                    v = rng.choice(project["sources"]["plan.py"])
                    edits.append(["set", "plan.py", v])
                    cur["plan.py"] = v
                    for sp in project.get("linked", []):
                        edits.append(["set", sp, v])
                        cur[sp] = v
                elif kind == "src":
                    cands = [p for p in project["sources"] if not p.endswith(".py")]
                    p = rng.choice(cands)
                    v = rng.choice(project["sources"][p])
                    edits.append(["set", p, v])
                    cur[p] = v
                elif kind == "del":
                    cands = [p for p in project["sources"] if not p.endswith(".py") and cur.get(p) is not None]
                    if cands:
                        p = rng.choice(cands)
                        edits.append(["del", p])
                        cur[p] = None
                elif kind == "env":
                    edits.append(["env", rng.choice(["VV_A", "VV_B"]), rng.choice([None, "1", "2"])])
            if user_edits and outs and rng.random() < 0.5:
                # what users do to outputs between builds
                o = rng.choice(outs)
                ukind = rng.choice(["overwrite", "delete", "todir", "adopt"])
                if ukind == "overwrite":
                    edits.append(["raw", o, "edited by the user\n"])
                elif ukind == "delete":
                    edits.append(["del", o])
                elif ukind == "todir":
                    edits.append(["todir", o])
                else:
                    edits.append(["raw", o, "now a user file\n"])
            how = "watch" if rng.random() < watch_p else "restart"
            cfg = self.cfg(cfgs)
            if targets and outs and rng.random() < 0.6:
                if rng.random() < 0.7:
                    cfg["targets"] = sorted(rng.sample(outs, rng.choice([1, 1, 2])))
                else:
                    cfg["target_dirs"] = [rng.choice(["out/", "gout/"])]
            phases.append({"edits": edits, "how": how, "cfg": cfg, "seed": rng.randrange(10**6)})
        return phases

    def cfg(self, cfgs=None):
        rng = self.rng
        if cfgs:
            return copy.deepcopy(rng.choice(cfgs))
        return {
            "njob": rng.choice([1, 2, 3]),
            "resources": rng.choice([None, "gpu:1", "gpu:2", "gpu:2,tpu:1"]),
            "keep_going": rng.random() < 0.3,
            "defer_cap": rng.choice([2, 3, 100]),
        }


def final_sources(project, phases) -> dict:
    """The source versions and env after applying all edits of a history."""
    cur: dict = {}
    env: dict = {}
    for ph in phases:
        for e in ph.get("edits", []):
            if e[0] in ("set", "swap"):
                cur[e[1]] = e[2]
            elif e[0] == "del":
                cur[e[1]] = None
            elif e[0] == "env":
                env[e[1]] = e[2]
    return {"files": cur, "env": env}
