"""Idle-hook, virtual-time asyncio event loop and the scheduling controller of Layer B.

The controller is consulted only when no callback is ready and a zero-timeout select finds no
I/O.  At that moment every task of the director is parked at an await, so an execution is a
deterministic function of (project, history, choice sequence).
"""

from __future__ import annotations

import asyncio
import random


class Hang(BaseException):
    """The event loop is idle forever: nothing is ready, no gate is waiting."""


class IdleLoop(asyncio.SelectorEventLoop):
    on_idle = None
    vtime = 0.0
    max_vtime = 5000.0

    def time(self):
        return self.vtime

    def _run_once(self):
        if not self._ready and self.on_idle is not None:
            ev = self._selector.select(0)
            if ev:
                # I/O is pending (e.g. inotify): let the base class pick it up with its own select,
                # so that every ready descriptor is dispatched exactly once
                return super()._run_once()
            if not self._ready:
                progressed = self.on_idle()
                if not progressed and not self._ready:
                    # drop cancelled timers at the head
                    while self._scheduled and self._scheduled[0]._cancelled:
                        import heapq

                        h = heapq.heappop(self._scheduled)
                        h._scheduled = False
                    if self._scheduled:
                        self.vtime = max(self.vtime, self._scheduled[0]._when)
                        if self.vtime > self.max_vtime:
                            self.on_hang()
                    else:
                        self.on_hang()
        super()._run_once()

    def on_hang(self):
        raise Hang()


class Controller:
    """Owns every controllable scheduling point (gate) of one execution.

    policy:
      - "fifo": always release the oldest waiting gate (canonical schedule)
      - "random": seeded random choice among waiting gates
      - list of gate-name prefixes (replay): release the named gate if waiting, else fall back
    """

    def __init__(self, seed: int = 0, policy="random", script=None):
        self.rng = random.Random(seed)
        self.policy = policy
        self.waiting: dict[str, asyncio.Future] = {}
        self.order: list[str] = []
        self.choices: list[str] = []
        self.idle_hooks = []  # callables invoked at idle before gate choice; return True if acted
        self.nidle = 0
        self.replay = list(script) if script else None
        self.delay: list[str] = []  # gate-name substrings released only when nothing else waits

    async def gate(self, name: str):
        # make names unique
        base = name
        k = 1
        while name in self.waiting:
            k += 1
            name = f"{base}#{k}"
        fut = asyncio.get_running_loop().create_future()
        self.waiting[name] = fut
        self.order.append(name)
        try:
            await fut
        finally:
            self.waiting.pop(name, None)
            if name in self.order:
                self.order.remove(name)

    def on_idle(self) -> bool:
        self.nidle += 1
        for hook in list(self.idle_hooks):
            if hook():
                return True
        if not self.waiting:
            return False
        names = [n for n in self.order if n in self.waiting and not n.startswith("idle")]
        if not names:
            names = [n for n in self.order if n in self.waiting]
        if self.delay:
            fast = [n for n in names if not any(d in n for d in self.delay)]
            if fast:
                names = fast
        name = None
        if self.replay:
            want = self.replay[0]
            if want in self.waiting:
                name = want
                self.replay.pop(0)
            elif not any(n == want for n in names):
                # the code does not offer this move (anymore): skip it
                self.replay.pop(0)
        if name is None:
            if self.policy == "fifo":
                name = names[0]
            elif self.policy == "lifo":
                name = names[-1]
            else:
                name = self.rng.choice(names)
        self.choices.append(name)
        fut = self.waiting.pop(name)
        if name in self.order:
            self.order.remove(name)
        if not fut.done():
            fut.set_result(None)
        return True
