"""Layer B: the real stepup director, in process, with simulated step commands.

Substitutions (all installed from /verif by monkeypatching, no repository change):

* `stepup.core.executor.launch_command` -> `fake_launch`: the step's script (list of API calls,
  reads and writes from the project description) runs as a coroutine that calls the real
  `DirectorHandler` RPC methods directly and touches real files;
* `ThreadWorker.run_in_thread` -> inline work after one controllable scheduling point;
* reporter -> recorder;
* `DBSession.__aexit__` -> commit wrapper that logs the full projection of every committed
  transaction (read inside the committing transaction);
* `time.monotonic_ns` as seen by `stepup.core.scheduler` -> logical clock.

Everything else (Workflow, Scheduler, Builder, Executor, DirectorHandler, startup, finalize,
Watcher, HashQueue, sqlite) is the code of /repo's working tree.
"""

from __future__ import annotations

import asyncio
import hashlib
import os
import re
import shutil
import signal
import sys
import tempfile
import time
import traceback
from pathlib import Path as PPath

import stepup.core.director as director_mod
import stepup.core.executor as executor_mod
import stepup.core.finalize as finalize_mod
import stepup.core.pending as pending_mod
import stepup.core.builder as builder_mod
import stepup.core.run as run_mod
import stepup.core.scheduler as scheduler_mod
import stepup.core.sqlite3 as sqlite3_mod
from stepup.core.constants import GRAPH_DB
from stepup.core.director import DirectorHandler, ServeConfig, serve
from stepup.core.exceptions import UsageError
from stepup.core.nglob import NamedGlob
from stepup.core.outcome import ChildOutcome
from stepup.core.reporter import ReporterClient
from stepup.core.rpc import BaseAsyncRPCClient
from stepup.core.scheduler import Scheduler
from stepup.core.sqlite3 import DBSession

from .loop import Controller, Hang, IdleLoop
from .projection import GLOBAL_CONTENT, project

SHEBANG = "#!/usr/bin/env python3\n"
NEEDS = {"OPTIONAL": 31, "DEFAULT": 32, "PLAN": 34}


# ---------------------------------------------------------------------------------------------
# World: a real project directory with logical mtimes
# ---------------------------------------------------------------------------------------------


class World:
    def __init__(self, root: str | None = None, clock: int = 1_000_000_000):
        self.root = PPath(root or tempfile.mkdtemp(prefix="vw-", dir=os.environ.get("VERIF_SCRATCH")))
        self.clock = clock
        self.env: dict[str, str] = {}
        self.created_dirs: set[str] = set()
        (self.root / ".stepup").mkdir(exist_ok=True)

    def tick(self) -> int:
        self.clock += 1
        return self.clock

    def abspath(self, rel: str) -> PPath:
        return self.root / rel

    def write(self, rel: str, text: str, mode: int | None = None):
        path = self.abspath(rel)
        path.parent.mkdir(parents=True, exist_ok=True)
        if path.is_dir():
            shutil.rmtree(path)
        tmp = path.with_name(path.name + ".vtmp")
        with open(tmp, "w") as fh:
            fh.write(text)
        if mode is None:
            mode = 0o755 if rel.endswith(".py") else 0o644
        os.chmod(tmp, mode)
        t = self.tick()
        os.utime(tmp, (t, t))
        os.replace(tmp, path)
        GLOBAL_CONTENT.register(text)

    def delete(self, rel: str):
        path = self.abspath(rel)
        if path.is_dir() and not path.is_symlink():
            shutil.rmtree(path)
        elif path.exists() or path.is_symlink():
            path.unlink()

    def read(self, rel: str) -> str | None:
        path = self.abspath(rel)
        try:
            with open(path) as fh:
                return fh.read()
        except (FileNotFoundError, IsADirectoryError, NotADirectoryError):
            return None

    def snapshot(self) -> dict:
        """Return {files: {rel: [content, mode, token]}, dirs: [rel]} (excluding .stepup)."""
        files = {}
        dirs = []
        root = str(self.root)
        for dirpath, dirnames, filenames in os.walk(root):
            rel_dir = os.path.relpath(dirpath, root)
            if rel_dir == ".":
                rel_dir = ""
            if ".stepup" in dirnames and rel_dir == "":
                dirnames.remove(".stepup")
            dirnames.sort()
            for d in dirnames:
                dirs.append(os.path.join(rel_dir, d) if rel_dir else d)
            for f in sorted(filenames):
                rel = os.path.join(rel_dir, f) if rel_dir else f
                p = os.path.join(dirpath, f)
                try:
                    st = os.stat(p)
                    with open(p) as fh:
                        content = fh.read()
                except OSError:
                    continue
                files[rel] = [content, st.st_mode & 0o777, f"{st.st_ino}:{st.st_mtime_ns}"]
        return {"files": files, "dirs": sorted(dirs)}

    def copy(self) -> "World":
        """Copy the tree (including .stepup) to a new scratch directory, keeping mtimes."""
        w = World.__new__(World)
        w.root = PPath(tempfile.mkdtemp(prefix="vw-", dir=os.environ.get("VERIF_SCRATCH")))
        w.clock = self.clock + 1000
        w.env = dict(self.env)
        w.created_dirs = set(self.created_dirs)
        shutil.copytree(self.root, w.root, dirs_exist_ok=True, copy_function=shutil.copy2)
        return w

    def destroy(self):
        shutil.rmtree(self.root, ignore_errors=True)


def source_text(path: str, version: str) -> str:
    return f"{SHEBANG}# {path}@{version}\n"


def version_of(text: str | None) -> str | None:
    if text is None or "@" not in text:
        return None
    return text.rsplit("@", 1)[1].strip()


# ---------------------------------------------------------------------------------------------
# Session state shared with the patches
# ---------------------------------------------------------------------------------------------


class Session:
    def __init__(self, world: World, project: dict, ctl: Controller | None, log_state: bool = True):
        self.world = world
        self.project = project
        self.ctl = ctl
        self.trace: list[dict] = []
        self.handler: DirectorHandler | None = None
        self.seq = 0
        self.last_state = None
        self.log_state = log_state
        self.clock = 0
        self.errors: list[str] = []
        self.reports: list[tuple[str, str]] = []
        self.commit_hooks = []  # callables(session, event, db) run at each commit (crash snapshots)
        self.gate_hooks = []  # callables(session, gate_name) run before each scheduling point
        self.report_hooks = []  # callables(session, tag, msg) run at each reporter message
        self.watch_hooks = []  # callables(session, phase_index, db) run when a watch phase begins
        self.watch_points: list[dict] = []  # state/disk/rc each time the director is watching
        self.ncommit = 0
        self.phase = 0
        self.job_labels: dict[int, str] = {}
        self.task_ids: dict[int, int] = {}
        self.launch_info: dict = {}

    def task_id(self) -> int:
        t = asyncio.current_task()
        return self.task_ids.setdefault(id(t), len(self.task_ids) + 1)

    def emit(self, ev: str, **fields):
        self.seq += 1
        rec = {"seq": self.seq, "ev": ev}
        rec.update(fields)
        self.trace.append(rec)
        return rec

    async def gate(self, name: str):
        for hook in list(self.gate_hooks):
            hook(self, name)
        if self.ctl is None:
            await asyncio.sleep(0)
        else:
            await self.ctl.gate(name)


CUR: Session | None = None
_PATCHED = False


class Recorder(BaseAsyncRPCClient):
    async def __call__(self, name, /, *a, **k):
        if CUR is None:
            return None
        if name == "report":
            tag, msg = a[0], a[1]
            pages = a[2] if len(a) > 2 else k.get("pages")
            CUR.reports.append((tag, str(msg)))
            for hook in list(CUR.report_hooks):
                hook(CUR, tag, str(msg))
            if tag in ("SUCCESS", "FAIL") and os.environ.get("VERIF_REPORT_GATE", "1") == "1":
                # the reporter is another process: the report of a finished run is a round trip during
                # which the director's other tasks go on (a scheduling point like any other)
                await CUR.gate(f"report:{tag}")
            if tag in ("START", "SKIP", "SUCCESS", "FAIL", "DEFERRED", "REMOVE", "ERROR", "NOSKIP", "DROPAMEND", "PHASE"):
                text = str(msg)
                if tag == "ERROR" and pages:
                    text += " || " + " | ".join(f"{t}: {b}" for t, b in pages)
                CUR.emit("report", tag=tag, msg=text[:2000], task=CUR.task_id(), step=str(msg).split("\n", 1)[0])
        return None


def _logical_ns():
    CUR.clock += 1
    return CUR.clock


class _LogicalTime:
    """Stand-in for the `time` module inside stepup.core.scheduler."""

    @staticmethod
    def monotonic_ns():
        if CUR is None:
            import time

            return time.monotonic_ns()
        return _logical_ns()

    def __getattr__(self, name):
        import time

        return getattr(time, name)


def install_patches():
    global _PATCHED
    if _PATCHED:
        return
    _PATCHED = True

    # --- capture the handler
    orig_wire = director_mod._wire_director

    async def wire(**kw):
        h = await orig_wire(**kw)
        if CUR is not None:
            CUR.handler = h
        return h

    director_mod._wire_director = wire

    # --- inline hashing with one scheduling point
    async def inline(self):
        if CUR is not None:
            await CUR.gate(f"hash:{self.job_i}")
        else:
            await asyncio.sleep(0)
        try:
            return self.work(self._cancel_event)
        finally:
            # the moment at which the disk was read (spec/Job.tla: what a job decides on)
            if CUR is not None:
                CUR.emit("hashed", job=self.job_i)

    run_mod.ThreadWorker.run_in_thread = inline

    # --- simulated commands
    executor_mod.launch_command = fake_launch

    # --- logical clock for ran_concurrently
    scheduler_mod.time = _LogicalTime()

    # --- hash jobs handed to the queue (C15: none may be queued by a transaction that is rolled back)
    from stepup.core.hash_queue import HashQueue

    orig_submit = HashQueue.submit

    def submit(self, path, old_hash, cause):
        new = path not in self.in_flight
        job = orig_submit(self, path, old_hash, cause)
        if CUR is not None:
            CUR.emit("hash_submit", path=str(path), new=bool(new), cause=getattr(cause, "name", str(cause)), task=CUR.task_id())
        return job

    HashQueue.submit = submit

    # --- begin wrapper
    orig_aenter = DBSession.__aenter__

    async def aenter(self):
        res = await orig_aenter(self)
        if CUR is not None:
            CUR.emit("begin", task=CUR.task_id())
        return res

    DBSession.__aenter__ = aenter

    # --- commit wrapper
    orig_aexit = DBSession.__aexit__

    async def aexit(self, et, ev, tb):
        ses = CUR
        if ses is None:
            return await orig_aexit(self, et, ev, tb)
        held = self._held
        fn = sys._getframe(1).f_code.co_name
        state = None
        if ev is None and held is not None and held.con.in_transaction and ses.log_state:
            try:
                state = project(held.con)
            except Exception as exc:  # noqa: BLE001
                # (a query cut short by the CPU watchdog is the watchdog's business, see run_serve)
                if "interrupted" not in repr(exc):
                    ses.errors.append(f"projection failed: {exc!r}")
        try:
            res = await orig_aexit(self, et, ev, tb)
        except BaseException as exc:
            ses.emit("commit_failed", fn=fn, exc=type(exc).__name__, task=ses.task_id())
            raise
        if ev is None:
            ses.ncommit += 1
            same = state is not None and state == ses.last_state
            rec = ses.emit("commit", fn=fn, same=same, n=ses.ncommit, task=ses.task_id())
            if state is not None:
                if not same:
                    rec["state"] = state
                ses.last_state = state
            for hook in list(ses.commit_hooks):
                hook(ses, rec, self)
        else:
            ses.emit("rollback", fn=fn, exc=et.__name__ if et else "?", task=ses.task_id())
        return res

    DBSession.__aexit__ = aexit

    # --- the schema is written on an autocommit connection, outside DBSession's transactions: a point at
    # which the process can be killed like after any commit (the stored state is not projected: no graph yet)
    orig_apply_schema = DBSession.apply_schema

    async def apply_schema(self, *a, **k):
        res = await orig_apply_schema(self, *a, **k)
        ses = CUR
        if ses is not None and res:
            for hook in list(ses.commit_hooks):
                hook(ses, {"fn": "apply_schema", "same": False}, self)
        return res

    DBSession.apply_schema = apply_schema

    # --- RPC handler wrappers
    def wrap_rpc(name):
        orig = getattr(DirectorHandler, name)
        inner = getattr(orig, "__wrapped__", None)

        async def wrapper(self, *a, **k):
            ses = CUR
            if ses is None:
                return await orig(self, *a, **k)
            job = a[0] if a and isinstance(a[0], int) else None
            step = None
            if job is not None:
                st = self.scheduler.jobs.get(job)
                step = None if st is None else st.label
            ses.emit("rpc_begin", name=name, job=-1 if job is None else job, step=step or "NULL", task=ses.task_id(), args=_jsonable(a[1:] if job is not None else a))
            try:
                res = await orig(self, *a, **k)
            except BaseException as exc:
                ses.emit("rpc_end", name=name, job=-1 if job is None else job, step=step or "NULL", task=ses.task_id(), outcome=type(exc).__name__, usage=isinstance(exc, UsageError), msg=str(exc)[:600], args=_jsonable(a[1:] if job is not None else a))
                raise
            ses.emit("rpc_end", name=name, job=-1 if job is None else job, step=step or "NULL", task=ses.task_id(), outcome="ok", usage=True, result=_jsonable(res), args=_jsonable(a[1:] if job is not None else a))
            return res

        for attr in ("_rpc_allowed", "__name__", "__doc__", "__qualname__"):
            if hasattr(orig, attr):
                try:
                    setattr(wrapper, attr, getattr(orig, attr))
                except (AttributeError, TypeError):
                    pass
        wrapper.__dict__.update(getattr(orig, "__dict__", {}))
        setattr(DirectorHandler, name, wrapper)

    for name in (
        "declare_static",
        "register_glob",
        "define_step",
        "amend_step",
        "hold_dispatch",
        "release_dispatch",
        "start_build_phase",
        "drain",
        "shutdown",
    ):
        wrap_rpc(name)

    # --- pop_next_job wrapper (decision points)
    orig_pop = Scheduler.pop_next_job

    async def pop(self):
        ses = CUR
        job = await orig_pop(self)
        if ses is not None:
            if job is not None:
                ses.job_labels[job.job_i] = job.step.label
            ses.emit(
                "pop",
                step="NULL" if job is None else job.step.label,
                job=-1 if job is None else job.job_i,
                kind="NULL" if job is None else type(job).__name__,
                runs=bool(job is not None and job.runs_command),
                draining=bool(self.draining),
                nrunning=len(ses.handler.builder.running_tasks) if ses.handler else 0,
            )
        return job

    Scheduler.pop_next_job = pop

    # --- phase end (return code) and pending summary
    orig_report_unbuilt = finalize_mod.report_unbuilt

    async def report_unbuilt(workflow, scheduler, reporter):
        rc = await orig_report_unbuilt(workflow, scheduler, reporter)
        if CUR is not None:
            CUR.emit(
                "phase_end",
                rc=int(rc.value),
                draining=bool(scheduler.draining),
                ran=int(scheduler.run_counter),
                summary=CUR.__dict__.pop("_summary", None) or {"ntotal": 0, "attr_sum": 0, "cyclic": 0, "attr_unique": True, "shown_sum": 0},
                disk=_disk_event(CUR.world.snapshot()),
            )
        return rc

    finalize_mod.report_unbuilt = report_unbuilt
    builder_mod.report_unbuilt = report_unbuilt

    orig_analyze = pending_mod._analyze_pending
    orig_drop = pending_mod._drop_pend_tables

    def drop_tables(db):
        ses = CUR
        if ses is not None:
            try:
                rows = db.execute("SELECT dst_step, root_kind FROM pend_attributed").fetchall()
                steps = [r[0] for r in db.execute("SELECT i FROM pend_step").fetchall()]
                ses._attr = (rows, steps)
            except Exception:  # noqa: BLE001  (tables do not exist yet on the first call)
                pass
        return orig_drop(db)

    pending_mod._drop_pend_tables = drop_tables

    def analyze(workflow):
        if CUR is not None:
            CUR._attr = None
        summary, totals = orig_analyze(workflow)
        if CUR is not None:
            d = _summary_dict(summary)
            d["attr_sum"] = int(sum(totals.values()))
            attr = getattr(CUR, "_attr", None)
            if attr is None:
                d["attr_unique"] = True
            else:
                rows, steps = attr
                dst = [r[0] for r in rows]
                d["attr_unique"] = len(dst) == len(set(dst)) and set(dst) <= set(steps)
                d["attr_sum"] = len(dst)
            CUR._summary = d
        return summary, totals

    pending_mod._analyze_pending = analyze

    # --- finalize end marker (after cleanup)
    orig_finalize = builder_mod.Builder.finalize

    async def finalize(self):
        await orig_finalize(self)
        if CUR is not None:
            CUR.emit("finalize_end", rc=int(self.returncode.value), disk=_disk_event(CUR.world.snapshot()))

    builder_mod.Builder.finalize = finalize

    # --- hash job gate: start of job (queue pop) is director's; completion is inline above.


def _summary_dict(s) -> dict:
    def other(b):
        return int(b.nblocked)

    d = {
        "ntotal": int(s.ntotal),
        "inputs": [[r.path, r.state.name, bool(r.detached), int(r.nblocked)] for r in s.inputs],
        "ninputs_hidden": int(s.ninputs_hidden),
        "ninputs_hidden_blocked": int(s.ninputs_hidden_blocked),
        "resources": [[r.name, int(r.units_needed), -1 if r.units_available is None else int(r.units_available), int(r.nblocked)] for r in s.resources],
        "nresources_hidden": int(s.nresources_hidden),
        "nresources_hidden_blocked": int(s.nresources_hidden_blocked),
    }
    for name in ("failed", "cyclic", "deferred", "other", "runnable"):
        d[name] = other(getattr(s, name))
    # what the user is shown: the rows of the two tables, their "hidden" remainders and the buckets
    d["shown_sum"] = (sum(r[3] for r in d["inputs"]) + d["ninputs_hidden_blocked"] + sum(r[3] for r in d["resources"])
                      + d["nresources_hidden_blocked"] + sum(d[name] for name in ("failed", "cyclic", "deferred", "other", "runnable")))
    if hasattr(s, "attributed_totals"):
        try:
            d["attributed"] = {k: int(v) for k, v in s.attributed_totals.items()}
        except Exception:  # noqa: BLE001
            pass
    return d


def _jsonable(x):
    if isinstance(x, (str, int, bool)):
        return x
    if x is None:
        return "NULL"
    if isinstance(x, float):
        return int(x)
    if isinstance(x, dict):
        return {str(k): _jsonable(v) for k, v in sorted(x.items())}
    if isinstance(x, (list, tuple)):
        return [_jsonable(v) for v in x]
    if isinstance(x, (set, frozenset)):
        return [_jsonable(v) for v in sorted(x)]
    return str(x)


# ---------------------------------------------------------------------------------------------
# Simulated step commands
# ---------------------------------------------------------------------------------------------


class ScriptAbort(Exception):
    def __init__(self, rc, msg=""):
        self.rc = rc
        self.msg = msg


def resolve_script(project: dict, world: World, command: str):
    scr = project["scripts"].get(command)
    if scr is None:
        return None
    if isinstance(scr, dict):
        text = world.read(scr["on"])
        ver = version_of(text)
        ops = scr["versions"].get(ver)
        return ops
    return scr


async def fake_launch(command, *, shell, env, cwd, mp_ctx, run):
    ses = CUR
    h = ses.handler
    label = run.step.label
    job = run.job_i
    cmd = run.step.command_and_workdir[0]
    resources = []
    ses.emit("cmd_start", job=job, step=label, clock=_logical_ns(), cwd=str(cwd), env_root=env.get("ROOT", ""), env_here=env.get("HERE", ""))
    # what a real command gets on its command line: the declaration as of its launch
    ses.launch_info[job] = await _declaration(h, run.step)
    reads: list[str] = []
    rc = 0
    stderr = ""
    try:
        ops = resolve_script(ses.project, ses.world, cmd)
        if ops is None:
            raise ScriptAbort(127, f"no script for {cmd}")
        await _run_ops(ses, h, job, label, cmd, ops, env, reads)
        await ses.gate(f"exit:{label}")
    except ScriptAbort as exc:
        rc = exc.rc
        stderr = exc.msg
    except Hang:
        raise
    except asyncio.CancelledError:
        raise
    except Exception as exc:  # noqa: BLE001
        rc = 1
        stderr = "".join(traceback.format_exception_only(type(exc), exc))
        ses.emit("step_exc", job=job, step=label, exc=type(exc).__name__, usage=isinstance(exc, UsageError), msg=str(exc)[:600])
    ses.emit("cmd_end", job=job, step=label, rc=rc, clock=_logical_ns())
    return ChildOutcome(rc, "", stderr)


class _Decl:
    def __init__(self, inp, env, out, vol):
        self.inp, self.env, self.out, self.vol = inp, env, out, vol


async def _declaration(h, step) -> _Decl:
    """The step's own declaration (initial inputs, env names, outputs), detached paths included.

    A real command has these on its command line, fixed when the plan defined the step; they do
    not change when some other step detaches an input node while the command is starting.
    """
    async with h.db:
        inp = sorted(r.path for r in step._paths("source", raw=True, dynamic=False))
        # outputs: what the step itself declares (a stale edge to a former, renamed output that
        # survived a redefinition is not part of the declaration)
        out = sorted(r.path for r in step.out_paths(dynamic=False))
        vol = sorted(r.path for r in step.vol_paths(dynamic=False))
        env = sorted(step.env_deps(dynamic=False))
    return _Decl(inp, env, out, vol)


def out_content(label: str, path: str, reads: list[str]) -> str:
    h8 = hashlib.sha256("\x00".join(sorted(set(reads))).encode()).hexdigest()[:8]
    return f"{label}>{path}<{h8}\n"


async def _run_ops(ses: Session, h, job, label, cmd, ops, env, reads):
    world = ses.world
    for idx, op in enumerate(ops):
        kind = op[0]
        await ses.gate(f"op:{label}:{idx}:{kind}")
        if kind == "static":
            await h.declare_static(job, [], list(op[1]), [])
        elif kind == "tree":
            await h.declare_static(job, sorted(op[1]), [], [])
        elif kind == "sdecl":
            # one static() call mixing trees, files and patterns (with their current matches)
            pats = []
            for pattern in op[3] if len(op) > 3 else []:
                ng = NamedGlob(pattern)
                ng.glob()
                pats.append((pattern, [str(p) for p in ng.files()]))
            await h.declare_static(job, sorted(op[1]), list(op[2]), pats)
        elif kind == "sglob":
            # static() with a pattern: matches (files) declared static + pattern recorded
            pattern = op[1]
            ng = NamedGlob(pattern)
            ng.glob()
            matches = [str(p) for p in ng.files()]
            files = [m for m in matches if not m.endswith("/")]
            trees = [m for m in matches if m.endswith("/")]
            await h.declare_static(job, sorted(trees), files, [(pattern, matches)])
        elif kind == "glob":
            pattern = op[1]
            subs = dict(op[2]) if len(op) > 2 else {}
            ng = NamedGlob(pattern, subs)
            ng.glob()
            paths = [str(p) for p in ng.files()]
            ses.emit("glob_scan", job=job, step=label, pattern=pattern, paths=paths)
            await h.register_glob(job, pattern, subs, paths)
            # a typical plan acts on the matches: ("glob", pattern, subs, template_ops)
            if len(op) > 3:
                for m in paths:
                    sub_ops = _subst(op[3], m)
                    await _run_ops(ses, h, job, label, cmd, sub_ops, env, reads)
        elif kind == "step":
            kw = dict(op[2]) if len(op) > 2 else {}
            await h.define_step(
                job,
                op[1],
                list(kw.get("inp", [])),
                list(kw.get("env", [])),
                list(kw.get("out", [])),
                list(kw.get("vol", [])),
                kw.get("workdir", "."),
                NEEDS[kw.get("need", "DEFAULT")],
                dict(kw.get("resources", {})),
                bool(kw.get("shell", False)),
                dict(kw["overrides"]) if kw.get("overrides") else None,
                None,
            )
        elif kind == "amend":
            kw = dict(op[1])
            carry_on = await h.amend_step(
                job,
                list(kw.get("inp", [])),
                set(kw.get("env", [])),
                list(kw.get("out", [])),
                list(kw.get("vol", [])),
            )
            ses.emit("amend_result", job=job, step=label, carry_on=bool(carry_on), inp=sorted(kw.get("inp", [])))
            if not carry_on:
                # a script may do some cleaning up (try/finally) before it terminates: op[2] = ops to run first
                if len(op) > 2:
                    await _run_ops(ses, h, job, label, cmd, op[2], env, reads)
                raise ScriptAbort(1, "InputNotFoundError: Dynamic inputs are not available yet.")
        elif kind == "hold":
            await h.hold_dispatch(job)
        elif kind == "release":
            await h.release_dispatch(job)
        elif kind == "read":
            text = world.read(op[1])
            ses.emit("read", job=job, step=label, path=op[1], content="NULL" if text is None else text, clock=_logical_ns())
            if text is None:
                if len(op) > 2 and op[2] == "optional":
                    reads.append(f"{op[1]}=<absent>")
                else:
                    raise ScriptAbort(1, f"FileNotFoundError: {op[1]}")
            else:
                reads.append(f"{op[1]}={text}")
        elif kind == "write":
            text = out_content(cmd, op[1], reads) if len(op) < 3 else op[2]
            world.write(op[1], text)
            ses.emit("write", job=job, step=label, path=op[1], content=text, clock=_logical_ns())
        elif kind == "unlink":
            world.delete(op[1])
            ses.emit("unlink", job=job, step=label, path=op[1], clock=_logical_ns())
        elif kind == "unlink_declared":
            # `rm -f <outputs>` before regenerating them
            info = ses.launch_info[job]
            for p in sorted(str(x) for x in info.out):
                world.delete(p)
                ses.emit("unlink", job=job, step=label, path=p, clock=_logical_ns())
        elif kind == "read_declared":
            info = ses.launch_info[job]
            for p in sorted(str(x) for x in info.inp):
                text = world.read(p)
                ses.emit("read", job=job, step=label, path=p, content="NULL" if text is None else text, clock=_logical_ns())
                if text is None:
                    raise ScriptAbort(1, f"FileNotFoundError: {p}")
                reads.append(f"{p}={text}")
        elif kind == "getenv_declared":
            info = ses.launch_info[job]
            for name in sorted(info.env):
                reads.append(f"${name}={env.get(name)!r}")
        elif kind == "write_declared":
            info = ses.launch_info[job]
            for p in sorted(str(x) for x in info.out):
                text = out_content(cmd, p, [] if len(op) > 1 and op[1] == "const" else reads)
                world.write(p, text)
                ses.emit("write", job=job, step=label, path=p, content=text, clock=_logical_ns())
        elif kind == "read_mode":
            # the command looks at the permission bits of a file (is it executable?)
            ap = world.abspath(op[1])
            mode = (os.stat(ap).st_mode & 0o111) if ap.is_file() else -1
            reads.append(f"{op[1]}:x={int(mode > 0)}")
            ses.emit("read_mode", job=job, step=label, path=op[1], x=int(mode > 0), clock=_logical_ns())
        elif kind == "getenv":
            val = env.get(op[1])
            reads.append(f"${op[1]}={val!r}")
        elif kind == "exit":
            raise ScriptAbort(int(op[1]), "exit")
        elif kind == "if_exists":
            branch = op[2] if world.read(op[1]) is not None else (op[3] if len(op) > 3 else [])
            await _run_ops(ses, h, job, label, cmd, branch, env, reads)
        elif kind == "if_version":
            branch = op[3] if version_of(world.read(op[1])) == op[2] else (op[4] if len(op) > 4 else [])
            await _run_ops(ses, h, job, label, cmd, branch, env, reads)
        elif kind == "if_env":
            branch = op[3] if env.get(op[1]) == op[2] else (op[4] if len(op) > 4 else [])
            await _run_ops(ses, h, job, label, cmd, branch, env, reads)
        elif kind == "nop":
            pass
        elif kind == "try":
            # attempt a declaration; a rejection (UsageError) is caught as a plan author could
            try:
                await _run_ops(ses, h, job, label, cmd, [op[1]], env, reads)
            except UsageError as exc:
                ses.emit("caught", job=job, step=label, exc=type(exc).__name__)
        else:
            raise ScriptAbort(2, f"unknown op {kind}")


def _subst(ops, match: str):
    """Substitute {m} (match path) and {s} (stem) in template ops."""
    stem = os.path.splitext(os.path.basename(match.rstrip("/")))[0]

    def sub(x):
        if isinstance(x, str):
            return x.replace("{m}", match).replace("{s}", stem)
        if isinstance(x, list):
            return [sub(v) for v in x]
        if isinstance(x, dict):
            return {k: sub(v) for k, v in x.items()}
        return x

    return sub(ops)


# ---------------------------------------------------------------------------------------------
# Running the director
# ---------------------------------------------------------------------------------------------


def apply_edit(world: World, project: dict, edit: list, ses: Session | None = None):
    kind = edit[0]
    before = world.read(edit[1]) if len(edit) > 1 and isinstance(edit[1], str) and kind not in ("env",) else None
    if kind == "set":
        path, ver = edit[1], edit[2]
        world.write(path, source_text(path, ver))
    elif kind == "swap":
        # the file is replaced (rename) by another version of the same length that carries the old
        # file's modification time and mode (rsync -t, cp -p + mv, tar x): only inode and content differ
        path, ver = edit[1], edit[2]
        ap = world.abspath(path)
        old = os.stat(ap) if ap.is_file() else None
        world.write(path, source_text(path, ver))
        if old is not None:
            os.chmod(ap, old.st_mode & 0o7777)
            os.utime(ap, ns=(old.st_atime_ns, old.st_mtime_ns))
    elif kind == "raw":  # arbitrary content (e.g. user overwriting an output)
        world.write(edit[1], edit[2], edit[3] if len(edit) > 3 else None)
    elif kind == "del":
        world.delete(edit[1])
    elif kind == "env":
        if edit[2] is None:
            world.env.pop(edit[1], None)
        else:
            world.env[edit[1]] = edit[2]
    elif kind == "mkdir":
        world.abspath(edit[1]).mkdir(parents=True, exist_ok=True)
    elif kind == "rmdir":
        world.delete(edit[1])
    elif kind == "mvdir":
        src, dst = world.abspath(edit[1]), world.abspath(edit[2])
        if src.exists():
            dst.parent.mkdir(parents=True, exist_ok=True)
            if dst.exists():
                # a directory moved there earlier: the user replaces it
                shutil.rmtree(dst)
            os.rename(src, dst)
    elif kind == "touch":
        text = world.read(edit[1])
        if text is not None:
            world.write(edit[1], text)
    elif kind == "chmod":
        p = world.abspath(edit[1])
        if p.exists():
            os.chmod(p, edit[2])
    elif kind == "todir":  # replace a file by a directory
        world.delete(edit[1])
        world.abspath(edit[1]).mkdir(parents=True, exist_ok=True)
    else:
        raise ValueError(f"unknown edit {edit}")
    if ses is not None:
        after = world.read(edit[1]) if len(edit) > 1 and isinstance(edit[1], str) and kind not in ("env",) else None
        ses.emit("ext_edit", edit=_jsonable(edit), changed=bool(before != after or kind in ("rmdir", "mvdir", "todir")),
                 clock=_logical_ns())


CPU_LIMIT = float(os.environ.get("VERIF_DIRECTOR_CPU_LIMIT", "45"))


class RunResult:
    def __init__(self):
        self.rc: int | None = None
        self.exc: str | None = None
        self.hang = False
        self.trace: list[dict] = []
        self.final_state: dict | None = None
        self.disk: dict | None = None
        self.reports: list[tuple[str, str]] = []
        self.choices: list[str] = []
        self.errors: list[str] = []
        self.phase_rcs: list[int] = []
        self.watch_points: list[dict] = []


def make_config(cfg: dict, do_watch: bool) -> ServeConfig:
    return ServeConfig(
        njob=int(cfg.get("njob", 1)),
        use_duration=False,
        do_clean=bool(cfg.get("clean", True)),
        explain_rerun=bool(cfg.get("explain", False)),
        keep_going=bool(cfg.get("keep_going", False)),
        do_watch=do_watch,
        available_resources=cfg.get("resources"),
        defer_cap=int(cfg.get("defer_cap", 100)),
        targets=[_P(t) for t in cfg.get("targets", [])],
        target_dirs=[_P(t) for t in cfg.get("target_dirs", [])],
    )


def _P(s):
    from path import Path

    return Path(s)


def run_serve(
    world: World,
    project: dict,
    cfg: dict,
    *,
    watch_phases: list[dict] | None = None,
    ctl: Controller | None = None,
    during: list | None = None,
    commit_hooks=None,
    gate_hooks=None,
    report_hooks=None,
    watch_hooks=None,
    log_state: bool = True,
    tag: str = "",
    fresh: bool = False,
) -> RunResult:
    """Run one director process lifetime: a build, optionally followed by watch/rebuild phases.

    watch_phases: list of {"edits": [...], "drain_first": bool}; each is applied while the
    director is watching, followed by `start_build_phase`.
    during: list of [nth_idle, edit]: external edits applied during the first build at the n-th
    idle point of the loop (requires a controller).
    """
    global CUR
    install_patches()
    res = RunResult()
    ses = Session(world, project, ctl, log_state=log_state)
    if commit_hooks:
        ses.commit_hooks.extend(commit_hooks)
    if gate_hooks:
        ses.gate_hooks.extend(gate_hooks)
    if report_hooks:
        ses.report_hooks.extend(report_hooks)
    if watch_hooks:
        ses.watch_hooks.extend(watch_hooks)
    old_cwd = os.getcwd()
    old_env = dict(os.environ)
    os.chdir(world.root)
    for k in list(os.environ):
        if k.startswith("VV_"):
            del os.environ[k]
    os.environ.update(world.env)
    loop = IdleLoop()
    if ctl is not None:
        loop.on_idle = ctl.on_idle
    else:
        loop.on_idle = lambda: False
    asyncio.set_event_loop(loop)
    CUR = ses
    do_watch = bool(watch_phases)
    if during and ctl is not None:
        pending = sorted(during, key=lambda x: x[0])

        def hook():
            h_ = ses.handler
            if pending and h_ is not None and getattr(h_, "watcher", None) is not None and h_.watcher.busy_watching.is_set():
                # the build is over: what was meant to happen during it does not happen at all
                ses.emit("during_skipped", n=len(pending))
                del pending[:]
                return False
            if pending and ctl.nidle >= pending[0][0]:
                _, edit = pending.pop(0)
                apply_edit(world, project, edit, ses)
                return True
            return False

        ctl.idle_hooks.append(hook)

    async def main():
        sockdir = tempfile.mkdtemp(prefix="vs-", dir=os.environ.get("VERIF_SCRATCH"))
        try:
            with DBSession.open(GRAPH_DB) as db:
                # an SQL statement that never terminates (a recursive query over a cyclic graph) is
                # interrupted once the CPU budget of this run is spent
                db._con.set_progress_handler(lambda: 1 if time.process_time() > cpu_deadline else 0, 200000)
                ses.emit("proc_start", tag=tag, cfg=_cfg_event(cfg), watch=do_watch, fresh=bool(fresh))
                serve_task = asyncio.ensure_future(
                    serve(
                        make_config(cfg, do_watch),
                        director_socket_path=_P(sockdir) / "sock",
                        reporter=ReporterClient(Recorder()),
                        db=db,
                        handle_signals=False,
                    )
                )
                if do_watch:
                    driver = asyncio.ensure_future(_watch_driver(ses, watch_phases, serve_task))
                    done, _ = await asyncio.wait({serve_task, driver}, return_when=asyncio.FIRST_COMPLETED)
                    if serve_task in done and not driver.done():
                        driver.cancel()
                        try:
                            await driver
                        except BaseException:  # noqa: BLE001
                            pass
                    else:
                        await driver
                result = await serve_task
                # final state
                async with db:
                    pass
                return result
        finally:
            shutil.rmtree(sockdir, ignore_errors=True)

    # A director that spins without ever yielding to the event loop (an endless loop in synchronous code)
    # never reaches an idle point: a CPU-time alarm turns it into the same `hang` event.  The limit is
    # CPU time of this process, far above what any director run of these projects needs.
    def _cpu_alarm(signum, frame):
        raise Hang(f"director used more than {CPU_LIMIT} s of CPU time in one run")

    cpu_deadline = time.process_time() + CPU_LIMIT
    old_handler = signal.signal(signal.SIGVTALRM, _cpu_alarm)
    signal.setitimer(signal.ITIMER_VIRTUAL, CPU_LIMIT)
    try:
        result = loop.run_until_complete(main())
        res.rc = int(result.returncode.value)
        # how the process ended, and what the project itself says about the requested targets: whether
        # the plan as it is on disk now has a step that builds them (an oracle from the project description,
        # top-level plan only; "unknown" when the plan does not settle it)
        targets = sorted(cfg.get("targets", []))
        roles = []
        try:
            plan = project["scripts"].get("./plan.py", {})
            ops = plan.get("versions", {}).get(version_of(world.read(plan.get("on", "plan.py"))), []) if isinstance(plan, dict) else plan
            outs = {p_ for op in ops if op and op[0] == "step" and len(op) > 2 for p_ in op[2].get("out", [])}
            stat = {p_ for op in ops if op and op[0] == "static" for p_ in op[1]}
            roles = [[t, "output" if t in outs else "static" if t in stat else "unknown"] for t in targets]
        except Exception:  # noqa: BLE001
            roles = [[t, "unknown"] for t in targets]
        ses.emit("proc_end", rc=res.rc, target_roles=roles,
                 invalid_target=any(tag_ == "ERROR" and "Invalid build target" in msg_ for tag_, msg_ in ses.reports))
    except Hang as exc:
        res.hang = True
        ses.emit("hang", why=str(exc)[:200])
    except BaseException as exc:  # noqa: BLE001
        if time.process_time() > cpu_deadline:
            # whatever the interrupted statement raised: the run did not end by itself
            res.hang = True
            ses.emit("hang", why=f"director used more than {CPU_LIMIT} s of CPU time in one run ({type(exc).__name__})")
        res.exc = f"{type(exc).__name__}: {exc}"
        cause = exc.__cause__
        if cause is not None:
            res.exc += f" <- {type(cause).__name__}: {cause}"
        # the step whose completion was refused because its outputs are BUILT already (a second completion)
        m2 = re.search(r"Exception in task RUN: (.+?) <- ConsistencyError: Unexpected file hash update: cause=SUCCEEDED .*state=BUILT", res.exc)
        ses.emit("director_exc", exc=type(exc).__name__, cause="NULL" if cause is None else type(cause).__name__, msg=res.exc[:800],
                 second_completion_of=m2.group(1) if m2 else "")
    finally:
        signal.setitimer(signal.ITIMER_VIRTUAL, 0)
        signal.signal(signal.SIGVTALRM, old_handler)
        CUR = None
        try:
            _cancel_all(loop)
        finally:
            asyncio.set_event_loop(None)
            loop.close()
        os.chdir(old_cwd)
        os.environ.clear()
        os.environ.update(old_env)
    res.trace = ses.trace
    res.final_state = ses.last_state
    res.disk = world.snapshot()
    ses.emit("proc_exit", rc=-1 if res.rc is None else res.rc, disk=_disk_event(res.disk))
    res.reports = ses.reports
    res.choices = list(ctl.choices) if ctl else []
    res.errors = ses.errors
    res.phase_rcs = [e["rc"] for e in ses.trace if e["ev"] == "phase_end"]
    res.watch_points = ses.watch_points
    return res


def _cfg_event(cfg: dict) -> dict:
    from stepup.core.utils import parse_resources

    res = cfg.get("resources")
    avail = sorted([k, int(v)] for k, v in parse_resources(res).items()) if res else []
    return {
        "njob": int(cfg.get("njob", 1)),
        "avail": avail,
        "targets": sorted(cfg.get("targets", [])),
        "target_dirs": sorted(cfg.get("target_dirs", [])),
        "defer_cap": int(cfg.get("defer_cap", 100)),
        "clean": bool(cfg.get("clean", True)),
        "keep_going": bool(cfg.get("keep_going", False)),
    }


def _disk_event(disk: dict) -> dict:
    return {"files": {k: [v[0], v[1]] for k, v in disk["files"].items()}, "dirs": disk["dirs"]}


def _cancel_all(loop):
    loop.on_idle = None
    tasks = [t for t in asyncio.all_tasks(loop) if not t.done()]
    for t in tasks:
        t.cancel()
    if tasks:
        try:
            loop.run_until_complete(asyncio.gather(*tasks, return_exceptions=True))
        except BaseException:  # noqa: BLE001
            pass


async def _watch_driver(ses: Session, watch_phases, serve_task):
    h = None
    while h is None:
        await asyncio.sleep(0)
        h = ses.handler
        if serve_task.done():
            return

    async def wait_watching() -> bool:
        while not h.watcher.busy_watching.is_set():
            if serve_task.done() or h.stop_event.is_set():
                return False
            await ses.gate("idle:wait_watch")
        # let the director settle (reporting, scheduled callbacks)
        await ses.gate("idle:settle")
        rcs = [e["rc"] for e in ses.trace if e["ev"] == "phase_end"]
        ses.watch_points.append(
            {"state": ses.last_state, "disk": ses.world.snapshot(), "rc": rcs[-1] if rcs else -1}
        )
        return True

    for i, wp in enumerate(watch_phases):
        if not await wait_watching():
            return
        ses.phase += 1
        for hook in list(ses.watch_hooks):
            hook(ses, i, h.db)
        ses.emit("watch_begin", phase=i)
        for edit in wp.get("edits", []):
            apply_edit(ses.world, ses.project, edit, ses)
            if wp.get("settle_each", True):
                await ses.gate("idle:settle")
                await ses.gate("idle:settle")
        await ses.gate("idle:settle")
        await ses.gate("idle:settle")
        ses.emit("rebuild", updated=sorted(str(p) for p in h.watcher.updated), deleted=sorted(str(p) for p in h.watcher.deleted))
        await h.start_build_phase()
        # the build phase has begun when busy_watching is cleared
        while h.watcher.busy_watching.is_set() and not serve_task.done():
            await ses.gate("idle:wait_build")
    if not await wait_watching():
        return
    await h.shutdown()
