"""Projection of the stepup workflow database onto the abstract state of the TLA+ specification.

One function, `project(con)`, is used by every conformance layer (graph layer, in-process
director, injected wrapper of real director processes).  It reads all persistent tables on the
given sqlite3 connection (inside the committing transaction when called from the commit
wrapper), identifies nodes by `kind:label` (never by row id) and maps digests to abstract content
tokens, so that states of different executions are comparable.

The result only contains JSON types that survive TLC's Json module: strings, small ints,
booleans, lists, objects.  No null, no float.
"""

from __future__ import annotations

import base64
import hashlib
import json

FILE_STATE = {
    11: "UNDECLARED",
    12: "UNCONFIRMED",
    13: "MISSING",
    14: "CONFIRMED",
    15: "PLANNED",
    16: "BUILT",
    17: "OUTDATED",
    18: "VOLATILE",
}
STEP_STATE = {21: "PENDING", 22: "RUNNING", 23: "SUCCEEDED", 24: "FAILED", 25: "CHECKING"}
NEED = {31: "OPTIONAL", 32: "DEFAULT", 33: "TARGET", 34: "PLAN"}
NEED_RANK = {"OPTIONAL": 1, "DEFAULT": 2, "TARGET": 3, "PLAN": 4}

NULL = "NULL"


class ContentMap:
    """Map sha256 digests to abstract content tokens.

    Contents written by the harness are registered with their literal text; any other digest is
    rendered as `d:<hex12>` (still canonical across executions because it is content derived).
    """

    def __init__(self):
        self.by_digest: dict[bytes, str] = {}

    def register(self, text: str) -> bytes:
        digest = hashlib.sha256(text.encode()).digest()
        self.by_digest[digest] = text
        return digest

    def token(self, digest_hex: str | None) -> str:
        if digest_hex is None:
            return NULL
        digest = bytes.fromhex(digest_hex)
        tok = self.by_digest.get(digest)
        if tok is None:
            tok = "d:" + digest_hex[:12]
        return tok


GLOBAL_CONTENT = ContentMap()


def _hash_token(hash_json: str | None, cmap: ContentMap) -> tuple[str, int]:
    """Return (content token, mode bits) of a stored FileHash JSON, or (NULL, 0)."""
    if hash_json is None:
        return NULL, 0
    data = json.loads(hash_json)
    digest = data.get("digest")
    # cattrs stores bytes as hex or base85? handle both hex-string and list of ints.
    if isinstance(digest, str):
        hexd = digest.lower() if len(digest) == 64 else base64.b85decode(digest).hex()
    else:
        hexd = bytes(digest).hex()
    return cmap.token(hexd), int(data.get("mode", 0)) & 0o777


def project(con, cmap: ContentMap | None = None) -> dict:
    """Project all persistent tables into the abstract state."""
    cmap = cmap or GLOBAL_CONTENT
    cur = con.cursor()
    rows = cur.execute("SELECT i, kind, label, creator, detached FROM node").fetchall()
    key_of = {i: f"{kind}:{label}" for i, kind, label, _, _ in rows}
    nodes: dict[str, dict] = {}
    for i, kind, label, creator, detached in rows:
        nodes[key_of[i]] = {
            "kind": kind,
            "label": label,
            "creator": NULL if creator is None else key_of.get(creator, "DANGLING"),
            "detached": bool(detached),
            # file part
            "fstate": NULL,
            "fhash": NULL,
            "fmode": 0,
            # step part
            "sstate": NULL,
            "need": NULL,
            "deferred": False,
            "deferCount": 0,
            "holding": 0,
            "shell": False,
            "safe": False,
            "chkSafe": False,
            "safeNH": False,
            "impliedNeed": NULL,
            "chkAfter": False,
            "hasHashCol": False,
            "ready": False,
            "chkReady": False,
            "hasStepHash": False,
            "envVars": [],
            "nglobs": [],
            "resources": [],
            "overrides": [],
            "hasOutcome": False,
        }
    for node, state, hash_json in cur.execute("SELECT node, state, hash FROM file"):
        rec = nodes[key_of[node]]
        rec["fstate"] = FILE_STATE[state]
        tok, mode = _hash_token(hash_json, cmap)
        rec["fhash"] = tok
        rec["fmode"] = mode
    step_sql = (
        "SELECT node, state, need, deferred, defer_count, shell, env_overrides, _safe, _check_safe,"
        " _holding, _safe_ignoring_hold, _implied_need, _check_after, _has_hash, _ready,"
        " _check_ready FROM step"
    )
    for row in cur.execute(step_sql):
        rec = nodes[key_of[row[0]]]
        rec["sstate"] = STEP_STATE[row[1]]
        rec["need"] = NEED[row[2]]
        rec["deferred"] = bool(row[3])
        rec["deferCount"] = int(row[4])
        rec["shell"] = bool(row[5])
        if row[6] is not None:
            rec["overrides"] = sorted([k, v] for k, v in json.loads(row[6]).items())
        rec["safe"] = bool(row[7])
        rec["chkSafe"] = bool(row[8])
        rec["holding"] = int(row[9])
        rec["safeNH"] = bool(row[10])
        rec["impliedNeed"] = NEED[row[11]]
        rec["chkAfter"] = bool(row[12])
        rec["hasHashCol"] = bool(row[13])
        rec["ready"] = bool(row[14])
        rec["chkReady"] = bool(row[15])
    for (node,) in cur.execute("SELECT node FROM step_hash"):
        nodes[key_of[node]]["hasStepHash"] = True
    for (node,) in cur.execute("SELECT node FROM step_outcome"):
        nodes[key_of[node]]["hasOutcome"] = True
    for node, name, value, dynamic in cur.execute(
        "SELECT node, name, value, dynamic FROM env_var ORDER BY node, name"
    ):
        nodes[key_of[node]]["envVars"].append([name, NULL if value is None else "=" + value, bool(dynamic)])
    for node, pattern, data in cur.execute("SELECT node, pattern, data FROM nglob ORDER BY i"):
        d = json.loads(data)
        matches = _nglob_files(d)
        subs = d.get("subs", {}) if isinstance(d, dict) else {}
        nodes[key_of[node]]["nglobs"].append(
            [pattern, sorted([k, v] for k, v in subs.items()), matches]
        )
    for rec in nodes.values():
        rec["nglobs"].sort()
    for node, name, units in cur.execute(
        "SELECT node, name, units FROM step_resource ORDER BY node, name"
    ):
        nodes[key_of[node]]["resources"].append([name, int(units)])
    deps = []
    dyn = {i for (i,) in cur.execute("SELECT i FROM dynamic_dep")}
    for i, source, sink in cur.execute("SELECT i, source, sink FROM dependency"):
        deps.append([key_of[source], key_of[sink], i in dyn])
    deps.sort()
    return {"nodes": nodes, "deps": deps}


def _nglob_files(data) -> list[str]:
    """Extract the sorted list of matched paths from an unstructured NamedGlob."""
    found: set[str] = set()
    for _key, paths in data.get("results", []):
        found.update(str(p) for p in paths)
    return sorted(found)


def step_hash_details(con, cmap: ContentMap | None = None) -> dict[str, dict]:
    """Return per step key the explained ingredients of the stored step hash (python side)."""
    cmap = cmap or GLOBAL_CONTENT
    out = {}
    cur = con.cursor()
    for kind, label, hash_json in cur.execute(
        "SELECT kind, label, hash FROM step_hash JOIN node ON node.i = step_hash.node"
    ):
        out[f"{kind}:{label}"] = json.loads(hash_json)
    return out
