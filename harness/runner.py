"""Execute cases (project + history) on the real director (Layer B) and collect traces."""

from __future__ import annotations

import multiprocessing as mp
import os
import re
import shutil
import tempfile
import time
import traceback

from .loop import Controller
from .simdirector import World, apply_edit, run_serve


def group_phases(phases: list[dict]) -> list[list[dict]]:
    """Split a history into director lifetimes: a restart phase followed by its watch phases."""
    groups: list[list[dict]] = []
    for ph in phases:
        if ph.get("how", "restart") == "restart" or not groups:
            groups.append([ph])
        else:
            groups[-1].append(ph)
    return groups


_DUP = re.compile(r"^Step \((.*)\) is defined by both step \((.*)\) and step \((.*)\)\.")


def duplicate_definitions(events) -> list[list[str]]:
    """[step, definer, definer] of every rejected duplicate step definition (in the last phase)."""
    res = []
    for e in events:
        if e["ev"] == "begin_phase":
            res = []
        if e["ev"] == "step_exc" and e.get("exc") == "GraphError":
            m = _DUP.match(e.get("msg", ""))
            if m:
                res.append(["step:" + m.group(1), "step:" + m.group(2), "step:" + m.group(3)])
    return sorted(res)


_GLOBPROD = re.compile(r"^Glob pattern \((.*)\) registered by step \((.*)\) matches \((.*)\), which step \((.*)\) builds")


def glob_product_rejections(events) -> list[list[str]]:
    """[pattern, registrant, path, builder] of every rejected glob-versus-product declaration."""
    res = []
    for e in events:
        if e["ev"] == "step_exc" and e.get("exc") == "GraphError":
            m = _GLOBPROD.match(e.get("msg", ""))
            if m:
                res.append(list(m.groups()))
    return sorted(res)


def double_executions(events) -> list[str]:
    """Steps whose command was started again while a command of the same step was still running."""
    running: dict[str, int] = {}
    res = set()
    for e in events:
        if e["ev"] == "cmd_start":
            if running.get(e["step"], 0) > 0:
                res.add("step:" + e["step"])
            running[e["step"]] = running.get(e["step"], 0) + 1
        elif e["ev"] == "cmd_end":
            running[e["step"]] = max(0, running.get(e["step"], 0) - 1)
        elif e["ev"] == "proc_start":
            running = {}
    return sorted(res)


def redefined_in_flight(events) -> list[str]:
    """Steps that were defined again (accepted define_step) while a job of theirs was in flight (F25)."""
    inflight: dict[str, int] = {}
    completing: set[str] = set()
    res = set()
    for e in events:
        if e["ev"] == "proc_start":
            inflight = {}
            completing = set()
        elif e["ev"] == "pop" and e.get("step") not in (None, "NULL"):
            inflight[e["step"]] = inflight.get(e["step"], 0) + 1
        elif e["ev"] == "cmd_end":
            # the job stays in flight until its completion is committed (hashing happens in between)
            completing.add(e["step"])
        elif e["ev"] == "commit" and e.get("fn") == "execute_job" and not e.get("same", False) and completing:
            for st in list(completing):
                inflight[st] = 0
            completing.clear()
        elif e["ev"] == "rpc_end" and e.get("name") == "define_step" and e.get("outcome") == "ok" and e.get("args"):
            a = e["args"]
            label = a[0] if a[5] == "." else f"{a[0]}  # wd={a[5]}"
            if inflight.get(label, 0) > 0:
                res.add("step:" + label)
    return sorted(res)


def run_history(project: dict, phases: list[dict], *, world: World | None = None, keep_world=False,
                commit_hooks=None, gate_hooks=None, report_hooks=None, watch_hooks=None, log_state=True,
                policy="random") -> dict:
    """Run a whole history.  Returns dict(events, runs=[per-lifetime summaries], world)."""
    own = world is None
    if world is None:
        world = World()
    events: list[dict] = []
    runs = []
    try:
        for group in group_phases(phases):
            first = group[0]
            for edit in first.get("edits", []):
                apply_edit(world, project, edit)
            ctl = Controller(seed=int(first.get("seed", 0)), policy=first.get("policy", policy),
                             script=first.get("choices"))
            ctl.delay = list(first.get("delay", []))
            watch = [{"edits": ph.get("edits", [])} for ph in group[1:]]
            res = run_serve(
                world,
                project,
                first.get("cfg", {}),
                watch_phases=watch or None,
                ctl=ctl,
                during=first.get("during"),
                commit_hooks=commit_hooks,
                gate_hooks=gate_hooks,
                report_hooks=report_hooks,
                watch_hooks=watch_hooks,
                log_state=log_state,
                fresh=bool(first.get("fresh", False)),
            )
            events.extend(res.trace)
            runs.append(
                {
                    "rc": res.rc,
                    "exc": res.exc,
                    "hang": res.hang,
                    "phase_rcs": res.phase_rcs,
                    "final_state": res.final_state,
                    "disk": res.disk,
                    "reports": res.reports,
                    "choices": res.choices,
                    "errors": res.errors,
                    "nphases": len(group),
                    "watch_points": res.watch_points,
                    "dups": duplicate_definitions(res.trace),
                    "globprod": glob_product_rejections(res.trace),
                    "double_exec": sorted(set(double_executions(res.trace)) | set(redefined_in_flight(res.trace))),
                }
            )
            if res.exc or res.hang:
                break
    finally:
        if own and not keep_world:
            world.destroy()
    return {"events": events, "runs": runs, "world": world if keep_world or not own else None}


# ---------------------------------------------------------------------------------------------
# parallel map over cases
# ---------------------------------------------------------------------------------------------


def _worker(args):
    fn, case = args
    try:
        return ("ok", fn(case))
    except BaseException as exc:  # noqa: BLE001
        return ("err", f"{type(exc).__name__}: {exc}\n{traceback.format_exc()}")


def _init_worker(scratch):
    os.environ["VERIF_SCRATCH"] = scratch
    os.environ.setdefault("PYTHONHASHSEED", "0")


def pmap(fn, cases: list, nproc: int | None = None, scratch: str | None = None) -> list:
    """Run fn(case) for every case in worker processes (fork); results in order."""
    nproc = nproc or min(14, max(1, (os.cpu_count() or 2) - 2))
    scratch = scratch or os.environ.get("VERIF_SCRATCH") or tempfile.mkdtemp(prefix="verif-")
    os.makedirs(scratch, exist_ok=True)
    if nproc == 1 or len(cases) <= 1:
        _init_worker(scratch)
        return [_worker((fn, c)) for c in cases]
    ctx = mp.get_context("fork")
    with ctx.Pool(nproc, initializer=_init_worker, initargs=(scratch,)) as pool:
        chunk = max(1, len(cases) // (nproc * 8))
        return pool.map(_worker, [(fn, c) for c in cases], chunksize=chunk)


class Scratch:
    """A scratch root outside /repo and /verif, removed on exit."""

    def __init__(self):
        base = os.environ.get("VERIF_SCRATCH_BASE") or ("/dev/shm" if os.path.isdir("/dev/shm") and os.access("/dev/shm", os.W_OK) else tempfile.gettempdir())
        self.path = tempfile.mkdtemp(prefix="verif-", dir=base)
        self.old = os.environ.get("VERIF_SCRATCH")
        os.environ["VERIF_SCRATCH"] = self.path

    def __enter__(self):
        return self

    def __exit__(self, *a):
        shutil.rmtree(self.path, ignore_errors=True)
        if self.old is None:
            os.environ.pop("VERIF_SCRATCH", None)
        else:
            os.environ["VERIF_SCRATCH"] = self.old
