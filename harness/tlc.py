"""Running TLC and exchanging traces / verdicts with the TLA+ specifications."""

from __future__ import annotations

import json
import os
import re
import shutil
import subprocess
import tempfile
import time
from concurrent.futures import ThreadPoolExecutor

SPEC_DIR = os.path.join(os.path.dirname(os.path.dirname(os.path.abspath(__file__))), "spec")
TLA_JAR = "/opt/veriftools/tla/tla2tools.jar"
COMMUNITY = None


class TLCFailure(Exception):
    """TLC itself failed (parse error, evaluation error, timeout): machinery failure."""


def scratch_dir(prefix="vtlc-") -> str:
    return tempfile.mkdtemp(prefix=prefix, dir=os.environ.get("VERIF_SCRATCH"))


def run_tlc(
    module: str,
    cfg: str,
    *,
    env: dict | None = None,
    workers: int | str = 1,
    timeout: int = 600,
    extra: list[str] | None = None,
    spec_dir: str | None = None,
    java_opts: str | None = None,
) -> tuple[int, str, float]:
    """Run TLC on spec/<module>.tla with config file `cfg`; return (rc, output, seconds)."""
    meta = scratch_dir("vmeta-")
    cmd = [
        "tlc",
        "-workers",
        str(workers),
        "-metadir",
        meta,
        "-noGenerateSpecTE",
        "-config",
        cfg,
    ]
    if extra:
        cmd += extra
    cmd.append(module)
    e = dict(os.environ)
    if env:
        e.update(env)
    if java_opts:
        e["JAVA_TOOL_OPTIONS"] = java_opts
    t0 = time.time()
    try:
        proc = subprocess.run(
            cmd,
            cwd=spec_dir or SPEC_DIR,
            env=e,
            capture_output=True,
            text=True,
            timeout=timeout,
        )
        out = proc.stdout + proc.stderr
        rc = proc.returncode
    except subprocess.TimeoutExpired as exc:
        out = (exc.stdout or b"").decode() if isinstance(exc.stdout, bytes) else (exc.stdout or "")
        out += "\nTIMEOUT"
        rc = -9
    finally:
        shutil.rmtree(meta, ignore_errors=True)
        # TLC leaves states/ dirs next to the spec when metadir is ignored
    return rc, out, time.time() - t0


TLC_EVENT_KEYS = {
    "proc_start",
    "begin",
    "commit",
    "rollback",
    "pop",
    "cmd_start",
    "cmd_end",
    "rpc_begin",
    "rpc_end",
    "phase_end",
    "hang",
    "director_exc",
    "step_exc",
    "write",
    "read",
    "amend_result",
    "finalize_end",
    "ext_edit",
    "hash_submit",
    "proc_end",
}


MAX_TRACE_LINES = 25000


def export_trace(tid: str, events: list[dict], keep=TLC_EVENT_KEYS) -> list[str]:
    """Turn recorded events into NDJSON lines for TraceCheck.tla."""
    lines = []
    for ev in events:
        # of the reports, only the failure of a step is a logged critical section
        if ev["ev"] == "report" and ev.get("tag") == "FAIL" and "task" in ev:
            lines.append(json.dumps({"ev": "report_fail", "tid": tid, "k": len(lines) + 1, "task": ev["task"], "step": ev.get("step", "")},
                                    separators=(",", ":"), sort_keys=True))
            continue
        if ev["ev"] not in keep:
            continue
        rec = dict(ev)
        rec["tid"] = tid
        rec["k"] = len(lines) + 1
        rec.pop("msg", None)
        rec.pop("result", None)
        if rec["ev"] == "ext_edit":
            ed = rec.pop("edit")
            rec["kind"] = ed[0]
            rec["path"] = ed[1] if len(ed) > 1 and isinstance(ed[1], str) else ""
        if rec["ev"] == "rpc_begin":
            rec.pop("args", None)
        if rec["ev"] == "rpc_end" and rec.get("name") == "define_step" and "args" in rec:
            a = rec["args"]
            label = a[0] if a[5] == "." else f"{a[0]}  # wd={a[5]}"
            need = {31: "OPTIONAL", 32: "DEFAULT", 34: "PLAN"}.get(a[6], str(a[6]))
            res = a[7] if isinstance(a[7], dict) else {}
            rec["decl"] = {
                "label": label,
                "inp": sorted(set(a[1])),
                "env": sorted(set(a[2])),
                "out": sorted(set(a[3])),
                "vol": sorted(set(a[4])),
                "need": need,
                "res": sorted([k, int(v)] for k, v in res.items()),
            }
        lines.append(json.dumps(rec, separators=(",", ":"), sort_keys=True))
        if len(lines) >= MAX_TRACE_LINES:
            # a build of one of these small projects that logs this many critical sections is going round
            # in circles (the director would only be stopped by the CPU watchdog): the trace is cut here and
            # ends like a build that never ends
            lines.append(json.dumps({"ev": "hang", "tid": tid, "k": len(lines) + 1, "why": f"more than {MAX_TRACE_LINES} logged events"},
                                    separators=(",", ":"), sort_keys=True))
            break
    return lines


def validate_traces(
    batches: list[list[str]],
    *,
    module="TraceCheck.tla",
    cfg="TraceCheck.cfg",
    timeout=900,
    parallel=8,
) -> dict:
    """Validate batches of NDJSON lines; each batch is one TLC JVM.  Returns merged verdicts.

    Result: {"bad": [...], "cnt": {...}, "lines": n, "tlc_s": seconds, "states": n}
    """
    work = scratch_dir("vtrace-")
    results = []

    def one(idx_batch):
        idx, batch = idx_batch
        tf = os.path.join(work, f"trace{idx}.ndjson")
        vf = os.path.join(work, f"verdict{idx}.json")
        with open(tf, "w") as fh:
            fh.write("\n".join(batch) + "\n")
        rc, out, secs = run_tlc(
            module,
            cfg,
            env={"TRACE_FILE": tf, "VERDICT_FILE": vf},
            workers=1,
            timeout=timeout,
        )
        if not os.path.exists(vf):
            keep = os.path.join(work, f"tlc{idx}.out")
            with open(keep, "w") as fh:
                fh.write(out)
            raise TLCFailure(f"TLC produced no verdict for batch {idx} (rc={rc}); tail:\n" + out[-3000:])
        with open(vf) as fh:
            verdict = json.load(fh)
        m = re.search(r"(\d+) states generated, (\d+) distinct states found", out)
        verdict["states"] = int(m.group(2)) if m else 0
        verdict["tlc_s"] = secs
        if verdict["lines"] != len(batch):
            raise TLCFailure(f"TLC consumed {verdict['lines']} of {len(batch)} lines")
        if "Error:" in out and "Postcondition" not in out:
            raise TLCFailure("TLC reported an error:\n" + out[-3000:])
        return verdict

    try:
        with ThreadPoolExecutor(max_workers=parallel) as ex:
            results = list(ex.map(one, enumerate(batches)))
    finally:
        shutil.rmtree(work, ignore_errors=True)
    merged = {"bad": [], "cnt": {}, "lines": 0, "tlc_s": 0.0, "states": 0}
    for v in results:
        bad = v["bad"]
        if isinstance(bad, dict):  # Json module renders an empty sequence as {} or []
            bad = []
        merged["bad"].extend(bad)
        for k, n in v["cnt"].items():
            merged["cnt"][k] = merged["cnt"].get(k, 0) + n
        merged["lines"] += v["lines"]
        merged["tlc_s"] = max(merged["tlc_s"], v["tlc_s"])
        merged["states"] += v["states"]
    return merged


def pack_batches(traces: list[tuple[str, list[str]]], max_lines=4000) -> list[list[str]]:
    """Group whole traces into batches of roughly max_lines lines."""
    batches, cur = [], []
    for _tid, lines in traces:
        if cur and len(cur) + len(lines) > max_lines:
            batches.append(cur)
            cur = []
        cur.extend(lines)
    if cur:
        batches.append(cur)
    return batches
