"""Generate MANIFEST.json from the table below (single source of truth) and validate it."""
import json, os, subprocess, sys
ROOT = os.path.dirname(os.path.abspath(__file__))

TRACE_NOTE = ("Trusted base: TLC 1.8 evaluating spec/Props.tla + spec/TraceCheck.tla; harness/projection.py (state projection); "
              "Layer B substitutions (simulated commands, inline hashing, recorder reporter). Everything else is /repo's working tree.")

CHECKS = {
 "C09": dict(engine="buildlayer", category="model_checking", design_ref="§8 C09",
   technique="TLA+ trace validation (TLC) of every committed transaction of recorded executions against WellFormed / transition-relation monitors",
   text="Every committed state of every recorded execution of the real director (generated projects, edit histories, random schedules, conflict-heavy plans) is checked by TLC against the TLA+ well-formedness invariant and the file/step transition relations; internal (non-usage) errors on any request are violations.",
   note=TRACE_NOTE),
 "C10": dict(engine="buildlayer", category="model_checking", design_ref="§8 C10",
   technique="TLA+ trace validation (TLC): Eligible/SafeDef/ReadyDef/ImpliedNeedDef definitions vs cached columns at every dispatch decision and phase end + SchedCache.tla (operational model of the incremental maintenance of _safe/_safe_ignoring_hold/_implied_need/_tail_time/_ready: exhaustive model check, finds F1 and F2 in their pre-fix variants; action sequences replayed into the real Workflow + Scheduler, Layer G) + Defer.tla (operational model of amended inputs, deferral, wake-up and the defer cap: model checked incl. liveness under fairness, replayed into the real Workflow, Layer G)",
   text="At every dispatch decision of recorded executions TLC re-derives eligibility and all cached scheduling attributes from their TLA+ definitions and compares them with what the code used; at every phase end no eligible step may remain; defer cap and termination (no hang) are monitored.",
   note=TRACE_NOTE),
 "C12": dict(engine="buildlayer", category="model_checking", design_ref="§8 C12",
   technique="TLA+ trace validation (TLC) of command start/end events against job, resource and hold limits + SchedCache.tla (operational model of the incremental maintenance of _safe/_safe_ignoring_hold/_implied_need/_tail_time/_ready: exhaustive model check, finds F1 and F2 in their pre-fix variants; action sequences replayed into the real Workflow + Scheduler, Layer G)",
   text="For every command start of recorded executions under random schedules, job counts, resources and nested holds, TLC checks the job limit, the per-resource budget, undefined resources and that no step declared inside a hold block starts before the outermost release.",
   note=TRACE_NOTE),
 "C15": dict(engine="buildlayer", category="model_checking", design_ref="§8 C15",
   technique="TLA+ trace validation (TLC): rejected requests change no committed state, one request = one state-changing commit, transactions never interleave",
   text="Conflict-heavy concurrent plans produce rejected requests at every internal stage; TLC checks on the recorded traces that a rejected request's task committed no state change, that an accepted request committed exactly once, and that transaction brackets never nest.",
   note=TRACE_NOTE),
 "C19": dict(engine="buildlayer", category="model_checking", design_ref="§8 C19",
   technique="TLA+ trace validation (TLC) of return-code bits and pending summary against the final committed state of each phase + Job.tla (operational model of what a dispatched job does -- validate, skip or execute with the step hash: model checked incl. Sound and, under fairness, Settles; refutes the variants 'skip without comparing outputs' and 'refused skip keeps the hash'; every commit of the real director on a project of the model's shape is matched against the model's actions)",
   text="At every phase end of recorded executions (failing steps, missing inputs, unsatisfiable resources, deferrals, keep-going, drains) TLC recomputes the failed/pending bits and the pending partition from the committed graph and compares them with what the director reported.",
   note=TRACE_NOTE),
 "C03": dict(engine="buildlayer", category="model_checking", design_ref="§8 C03",
   technique="TLA+ trace validation (TLC) of command start / read / amend / completion events against input availability and finality monitors + Defer.tla (operational model of amended inputs, deferral, wake-up and the defer cap: model checked incl. liveness under fairness, replayed into the real Workflow, Layer G) + Job.tla (operational model of what a dispatched job does -- validate, skip or execute with the step hash: model checked incl. Sound and, under fairness, Settles; refutes the variants 'skip without comparing outputs' and 'refused skip keeps the hash'; every commit of the real director on a project of the model's shape is matched against the model's actions)",
   text="For every command start of recorded executions TLC checks that every declared input was built or confirmed; amend/defer and changed-underneath clauses are monitored on the same traces.",
   note=TRACE_NOTE),
 "C08": dict(engine="buildlayer", category="model_checking", design_ref="§8 C08",
   technique="TLA+ trace validation (TLC) of ownership invariants at every commit of conflict-heavy executions",
   text="At every commit of conflict-heavy and generated executions TLC checks single ownership, exclusive static-tree ownership and that recorded glob matches never name a build product.",
   note=TRACE_NOTE),
}

REL_NOTE = ("Trusted base: TLC 1.8 evaluating spec/Props.tla + spec/RelCheck.tla (canonical forms, relational monitors); "
            "harness/projection.py; Layer B substitutions. Both sides of every relation are real executions of /repo's working tree.")
CHECKS.update({
 "C01": dict(engine="history", category="model_checking", design_ref="§8 C01",
   technique="TLA+ relational check (TLC, RelCheck.tla): canonical form of the final state of an incremental history vs a real build from scratch of the final sources; operational TLA+ model of plan re-execution (Recycle.tla) model checked and replayed action by action into the real Workflow",
   text="For hand-written drop/re-add shapes and seeded generated projects with 4-phase edit histories (sources, plan versions, environment), the final committed graph and output contents of the incremental execution are compared by TLC with those of a real build from scratch, through the specification's canonical form; every execution is additionally validated against the commit-level monitors. Recycle.tla (reset/detach, re-declare, recycle or re-create, finish, children with jobs in flight, delete_detached) is model checked (ownership, BUILT <=> SUCCEEDED, completeness of a finished build) and seeded/scripted action sequences are executed on the real Workflow through the graph API, every node compared with the specification after every action.",
   note=REL_NOTE),
 "C04": dict(engine="history", category="model_checking", design_ref="§8 C04",
   technique="TLA+ relational check (TLC, RelCheck.tla): no-op rebuild leaves graph/outputs untouched with zero commands; executed commands of an edited rebuild lie in the least-fixed-point cone + Job.tla (operational model of what a dispatched job does -- validate, skip or execute with the step hash: model checked incl. Sound and, under fairness, Settles; refutes the variants 'skip without comparing outputs' and 'refused skip keeps the hash'; every commit of the real director on a project of the model's shape is matched against the model's actions)",
   text="After each successful history a no-change rebuild must execute nothing, rewrite nothing and leave the full graph identical; after editing a random subset of sources TLC computes the cone (consumers, glob matches, downstream, created steps) on the union graph and requires every executed command to lie in it.",
   note=REL_NOTE),
})

CHECKS.update({
 "C05": dict(engine="crash", category="fault_enumeration", design_ref="§8 C05",
   technique="crash-point enumeration on the real director + TLA+ relational check (TLC, RelCheck.tla crash_equiv) + TLA+ trace validation of every restarted run",
   text="A reference build is run to completion while a snapshot (database as of the last commit + tree) is taken at every crash point: after every state-changing commit (startup, build, cleanup), before every file-system action of a running step, after every cleanup removal. Each snapshot is restarted to completion; TLC compares its final canonical state, outputs and leftover files with the uninterrupted reference and validates the restarted trace (no internal error, interrupted steps only complete through a new job).",
   note=REL_NOTE + " Process kill is modelled as database-as-of-last-commit + tree-at-that-instant; power loss is out of scope."),
})

CHECKS.update({
 "C02": dict(engine="schedules", category="model_checking", design_ref="§8 C02",
   technique="TLA+ relational check (TLC, RelCheck.tla same_final): full graph rendering and outputs of the same project under different controlled schedules, job counts, resource limits, and resumed vs fresh; operational TLA+ model of the file/step state machine (FileStep.tla: ExternalCommute) model checked and replayed into the real Workflow + Defer.tla (operational model of amended inputs, deferral, wake-up and the defer cap: model checked incl. liveness under fairness, replayed into the real Workflow, Layer G)",
   text="Each project is built from scratch under 6-12 controlled schedules (fifo/lifo/random release of every scheduling point, delay-rank 'slow step' schedules, jobs 1-4, resource limits) and resumed with nothing changed; TLC compares the full graph rendering (detached nodes, hash presence) and outputs of successful builds and the success/failed/pending class of all builds.",
   note=REL_NOTE + " Conflict error texts are compared by the graph-layer check, not here."),
 "C14": dict(engine="watch", category="model_checking", design_ref="§8 C14",
   technique="TLA+ relational check (TLC, RelCheck.tla watch_eq_restart): real Watcher on real inotify vs restart on a copy of the same pre-state; operational TLA+ model of the file/step state machine (FileStep.tla) model checked (order independence of a batch of external updates) and replayed into the real Workflow; WatchSets.tla (operational model of Watcher.record_change) model checked and replayed into the real Watcher",
   text="The real director runs in watch mode on real inotify; each watch phase applies a random event sequence (create/modify/delete/restore/recreate of sources, glob matches, tree files, outputs; directory removal and move; plan edits); the rebuilt state is compared by TLC with a restarted director on a snapshot of the same pre-state with the same events applied.",
   note=REL_NOTE),
 "C06": dict(engine="buildlayer", category="model_checking", design_ref="§8 C06",
   technique="TLA+ trace validation (TLC): every file removed between phase end and finalize end must be a recorded, unmodified (or volatile) output and clean-up must be allowed; TLA+ relational check of `stepup clean` invocations (RelCheck.tla clean_tool) + Cleanup.tla (operational model of delete_detached / before_delete / remove_deletable_files: model checked over the whole configuration family, finds F9 in its strict form; configurations replayed into the real Workflow on a real directory, Layer G)",
   text="On histories that include users overwriting, deleting, replacing by a directory or adopting outputs, TLC checks every automatic removal against what steps recorded as written, and every `stepup clean` invocation (argument sets over paths/--all/--unsafe/--commit, read-only connection) against the database projection and the tree before/after.",
   note=TRACE_NOTE),
 "C07": dict(engine="buildlayer", category="model_checking", design_ref="§8 C07",
   technique="TLA+ trace validation (TLC): after a successful unrestricted build with clean-up, no unmodified former output that no active step uses remains on disk or in the graph; empty output directories are gone + Cleanup.tla (operational model of delete_detached / before_delete / remove_deletable_files: model checked over the whole configuration family, finds F9 in its strict form; configurations replayed into the real Workflow on a real directory, Layer G)",
   text="After every successful unrestricted phase of generated histories (plan edits that drop, rename, move, re-role steps and outputs, optional steps), TLC checks the NoOrphans monitor on the committed graph and the tree snapshot.",
   note=TRACE_NOTE),
 "C11": dict(engine="buildlayer", category="model_checking", design_ref="§8 C11",
   technique="TLA+ trace validation (TLC): NeededStep (ImpliedNeedDef by definition, with file and directory targets) at every command start, phase end and finalize end + SchedCache.tla (operational model of the incremental maintenance of _safe/_safe_ignoring_hold/_implied_need/_tail_time/_ready: exhaustive model check, finds F1 and F2 in their pre-fix variants; action sequences replayed into the real Workflow + Scheduler, Layer G)",
   text="With optional-heavy generated graphs and random file/directory target sets (fresh and resumed with other targets), TLC checks that every executed command belongs to a needed step, that a successful phase leaves every needed step built, and that unneeded optional steps are reverted with their outputs removed.",
   note=TRACE_NOTE),
})

CHECKS.update({
 "C16": dict(engine="c16", category="model_checking", design_ref="§8 C16",
   technique="TLA+ model of one RPC server connection (spec/Rpc.tla) checked exhaustively by TLC + TLA+ trace validation (spec/TraceRpc.tla) of recorded executions of the real RPCServerConnection; RpcPair.tla: end-to-end trace validation of the real SocketRPCServer with real async and sync clients over Unix sockets (pairing and outcome class of every call, rogue and vanishing peers)",
   text="Rpc.tla (3 calls; every call kind incl. unknown/hidden procedures, bad arguments, garbage, oversize header, close sentinel; every fragmentation into header/body units; every completion order; EOF at every unit boundary) is model checked exhaustively for at-most/exactly-one reply, own call id, error class, exposure, applied-despite-disconnect and server survival. The real rpc.RPCServerConnection is then driven over a hand-fed StreamReader along seeded scenarios from the same space with byte-level cuts, and every recorded execution must be a behaviour of Rpc.tla (silent parse/teardown steps allowed) with all invariants evaluated in every state; replies are classified with the real client decoder.",
   note="Trusted base: TLC 1.8; the driver in checks/c16.py (fed StreamReader, recording writer, idle-hook loop). Client classes (SocketAsyncRPCClient/SocketSyncRPCClient) are exercised only through _decode_response; several simultaneous connections are not modelled."),
 "C18": dict(engine="c18", category="model_checking", design_ref="§8 C18",
   technique="TLA+ definition of Under(d, p) on code-point sequences (spec/Prefix.tla) enumerated by TLC over an adversarial label universe; expected selections replayed into every selection site of the real code",
   text="TLC enumerates directories and stored labels over an alphabet with case pairs, %, _, backslash, [, *, ?, '.', '0' (the byte after '/'), and non-ASCII, evaluates the specification's Under and emits the expected selection for each directory; the harness stores the labels in real workflow databases and runs every selection site (static-tree ownership and hand-over, directory targets in the scheduler, removed-directory reaction, glob-match justification, stepup clean DIR) through its public entry point, comparing the selected set with the specification's.",
   note="Trusted base: TLC 1.8 evaluating spec/Prefix.tla; checks/c18.py which maps each selection site to an observable set."),
})

CHECKS.update({
 "C17": dict(engine="c17", category="model_checking", design_ref="§8 C17",
   technique="TLA+ semantics of named glob patterns on path components plus a transcription of the regex translation as built (spec/NGlobSem.tla), evaluated by TLC on enumerated/seeded patterns (spec/NGlob.tla) and replayed into NamedGlob on real directory trees; TLA+ model of incremental maintenance (spec/NGlobModel.tla) checked exhaustively",
   text="TLC evaluates, for every pattern (all patterns of <=2 components x <=2 tokens in the thorough tier, plus seeded random ones with classes, `**`, names, substitutions, repeated names, trailing separators), the meaning Accept, the standard-glob prefilter, and the matcher as built AM on a universe of 155 paths as file and as directory. The harness builds random real trees and requires: code matcher == AM; Python's standard recursive glob == Accept of the anonymised pattern; recorded set == prefilter ∩ AM; recorded bindings are bindings of AM; named variants record the same paths; will_change() along random event batches == the specification's extend/reduce. Differences between meaning and as-built matcher are exactly the named deviations (known findings F18-F20); anything else is a violation. NGlobModel.tla model-checks incremental == rescan for Watcher-style accumulation.",
   note="Trusted base: TLC 1.8 evaluating spec/NGlobSem.tla; checks/c17.py (pattern rendering, tree construction). Alphabet a b . with names a b ab .a b.a, depth <= 3; substitutions stay inside one component; no symbolic links."),
})

CHECKS.update({
 "C13": dict(engine="c13", category="model_checking", design_ref="§8 C13",
   technique="TLA+ specification of the byte stream fed to SHA-256 (spec/HashEncCore.tla) model checked for injectivity on an adversarial domain (spec/HashEnc.tla, linear check through VIEW + distinct-state count) and replayed against the real StepHash with a recording hash object (spec/HashVec.tla); TLA+ specification of FileHash.refreshed (spec/Refresh.tla) with trace validation of recorded calls on real files + Job.tla (operational model of what a dispatched job does -- validate, skip or execute with the step hash: model checked incl. Sound and, under fairness, Settles; refutes the variants 'skip without comparing outputs' and 'refused skip keeps the hash'; every commit of the real director on a project of the model's shape is matched against the model's actions)",
   text="TLC proves on a domain of 324000 configurations built from the section keywords, the empty string, defined/undefined variables and known/unknown file hashes that the input stream is injective on two sub-domains covering all pairs but the known collision F22, and that the output stream is injective. The real from_inp/with_out_hashes are executed with a recording hash object on seeded configurations (non-ASCII, control characters, keywords, 2^63-1 sizes) in shuffled ingredient order; the bytes fed to SHA-256 must equal the specification's stream, and for every single-ingredient mutation (label, shell, path, content, size, mode, definedness, value, override, section move) digest equality must coincide with stream equality (i.e. differ). Recorded refreshed() calls after file manipulations (same-size rewrite with restored mtime, chmod, replace by rename, delete, recreate, touch) are validated by TLC against Refresh.tla.",
   note="Trusted base: TLC 1.8; SHA-256 collision freeness; digests of existing files are not adversarial 32-byte values; the recorder that replaces hashlib.sha256 inside HashWords. JSON round trips are checked by generated values outside the TLA+ specification (encode/decode fidelity)."),
})

CHECKS.update({
 "C20": dict(engine="c20", category="model_checking", design_ref="§8 C20",
   technique="TLA+ specification of path meaning (lexical resolution on component sequences) and of the two translations by their meaning (spec/PathXlate.tla); TLC validates recorded calls of translate / translate_back / _keep_affixes / api.step / api.amend / api.get_info and the ROOT/HERE environment exported by the real executor",
   text="For a domain of HERE values (root, nested, sibling of the root, parent of the root), working directories (relative with `..`, trailing separator, absolute inside/outside the root) and paths (`.`/`..` components, doubled separators, leading `./`, trailing `/`, absolute) the real functions are executed on a real directory tree with STEPUP_ROOT/HERE set (and with HERE unset from the step's directory), api.step/amend/get_info are executed with a capturing RPC client, and Layer B runs record what Executor._run_command exports for steps with working directories. TLC evaluates every recorded call against PathXlate.tla: translate must return exactly the normalised root-relative (or normalised absolute) path that designates the same file, translate_back a normalised path designating the same file from the working directory, a normalised root-relative path must come back unchanged, affixes must be preserved, ROOT and HERE must lead to the root and to the working directory. os.path.realpath on the real tree is compared as a cross-check.",
   note="Trusted base: TLC 1.8 evaluating spec/PathXlate.tla; lexical resolution (no symbolic links); the capturing RPC client in checks/c20.py."),
})

PENDING = ["C01","C02","C04","C05","C06","C07","C11","C13","C14","C16","C17","C18","C20"]

def main():
    checks = []
    for pid, c in sorted(CHECKS.items()):
        checks.append({
            "property_id": pid,
            "quick_cmd": f"./verif check {pid} --tier quick",
            "thorough_cmd": f"./verif check {pid} --tier thorough",
            "evidence_file": f"/verif/evidence/{pid}.json",
            "replay_cmd_template": "./verif replay {path}",
            "engine": c["engine"],
            "level_claimed": {"category": c["category"], "text": c["text"], "design_ref": c["design_ref"]},
            "level_note": c["note"],
            "technique": c["technique"],
        })
    manifest = {
        "version": 1,
        "setup_cmd": "./verif setup",
        "hooks": {
            "guard": "REPRODUCIBLE_REPORTING_STEPUP_CORE_VERIF",
            "enable": "no source hooks: observation points are installed from /verif by monkeypatching (harness/simdirector.py) or by PYTHONPATH=/verif/harness/inject sitecustomize with the guard variable set",
            "baseline_off_cmd": "cd /repo && /venv/bin/python -m pytest -ra -q -p no:cacheprovider --timeout=900 --continue-on-collection-errors",
            "source_commits": [],
            "add_only": True,
        },
        "engines": [
            {"name": "buildlayer", "path": "checks/buildlayer.py", "serves_properties": sorted(p for p, c in CHECKS.items() if c["engine"] == "buildlayer"),
             "kind_free_text": "Layer B: real director in process, simulated commands, controller-owned schedules; every recorded trace validated by TLC against spec/TraceCheck.tla"},
            {"name": "schedules", "path": "checks/schedules.py", "serves_properties": ["C02"], "kind_free_text": "same project under many controlled schedules, compared by TLC"},
            {"name": "watch", "path": "checks/watch.py", "serves_properties": ["C14"], "kind_free_text": "real Watcher + inotify vs restart on a snapshot, compared by TLC"},
            {"name": "crash", "path": "checks/crash.py", "serves_properties": ["C05"],
             "kind_free_text": "snapshot-based crash injection at every commit / step fs action / cleanup removal of Layer B executions"},
            {"name": "c16", "path": "checks/c16.py", "serves_properties": ["C16"], "kind_free_text": "Rpc.tla exhaustive model check + trace validation of the real RPCServerConnection"},
            {"name": "c13", "path": "checks/c13.py", "serves_properties": ["C13"], "kind_free_text": "HashEnc.tla injectivity model check + HashVec.tla stream vectors against the real StepHash + Refresh.tla trace validation"},
            {"name": "c17", "path": "checks/c17.py", "serves_properties": ["C17"], "kind_free_text": "NGlobSem.tla vectors replayed into NamedGlob on real trees + NGlobModel.tla exhaustive model check"},
            {"name": "c18", "path": "checks/c18.py", "serves_properties": ["C18"], "kind_free_text": "Prefix.tla vectors replayed into every directory-selection site of the real code"},
            {"name": "c20", "path": "checks/c20.py", "serves_properties": ["C20"], "kind_free_text": "PathXlate.tla validation of recorded translation calls, api calls and executor environment"},
            {"name": "history", "path": "checks/history.py", "serves_properties": sorted(p for p, c in CHECKS.items() if c["engine"] == "history"),
             "kind_free_text": "Layer B histories; final states of related executions compared by TLC through spec/RelCheck.tla"},
            {"name": "filestep", "path": "checks/filestep.py", "serves_properties": ["C02", "C05", "C14"], "kind_free_text": "FileStep.tla model check + replay of action sequences into the real Workflow (Layer G); library called by the C02, C05 and C14 checks"},
            {"name": "plans", "path": "checks/plans.py", "serves_properties": ["C01"], "kind_free_text": "Plans.tla model check (finds F17) + replay of plan/sub-plan ownership transfer into the real Workflow (Layer G); library called by the C01 check"},
            {"name": "schedcache", "path": "checks/schedcache.py", "serves_properties": ["C10", "C11", "C12"], "kind_free_text": "SchedCache.tla model check (cache = definition whenever nothing is flagged; finds F1 and F2 in their pre-fix variants) + replay of graph-modification sequences into the real Workflow + Scheduler (Layer G); library called by the C10, C11 and C12 checks"},
            {"name": "defer", "path": "checks/defer.py", "serves_properties": ["C02", "C03", "C10"], "kind_free_text": "Defer.tla model check (NoLostWakeup, defer cap, Settles under fairness; finds the BUILT-only re-check variant) + replay of amend / declare / confirm / complete interleavings into the real Workflow (Layer G); library called by the C02, C03 and C10 checks"},
            {"name": "job", "path": "checks/job.py", "serves_properties": ["C03", "C04", "C13", "C19"], "kind_free_text": "Job.tla model check (Sound, HashOnlyWhenChecked, BuiltIsRecorded, NeverRaises, CapRespected, Settles under fairness; refutes two variants) + trace validation: commits, hash computations, reads, writes and ends of commands of the real in-process director on a one-step project (edits of inputs, output and environment between and during builds, restarts and watch phases) matched against the model's actions; library called by the C03, C04, C13 and C19 checks"},
            {"name": "watchsets", "path": "checks/watchsets.py", "serves_properties": ["C09", "C14"], "kind_free_text": "WatchSets.tla model check (Complete, DeletedAbsent, UpdatedPresent; finds the cancelling-pair variant) + replay of event sequences into the real Watcher.record_change (Layer G); library called by the C09 and C14 checks"},
            {"name": "cleanup", "path": "checks/cleanup.py", "serves_properties": ["C06", "C07"], "kind_free_text": "Cleanup.tla model check over the whole configuration family (only deleted nodes lose their file, modified files kept, survivors held by something attached; the strict form fails: F9) + replay of sampled configurations into the real Workflow, delete_detached and remove_deletable_files on a real directory (Layer G); library called by the C06 and C07 checks"},
            {"name": "recycle", "path": "checks/recycle.py", "serves_properties": ["C01"], "kind_free_text": "Recycle.tla model check + replay of plan re-execution sequences into the real Workflow (Layer G); library called by the C01 check"},
        ],
        "checks": checks,
        "notes": "See DESIGN.md. known_findings.json lists repaired (fix:) and known defects.",
        "not_applicable": [{"property_id": p, "reason": "check not built yet in this session (planned, see DESIGN.md §8)"} for p in PENDING if p not in CHECKS],
    }
    with open(os.path.join(ROOT, "MANIFEST.json"), "w") as fh:
        json.dump(manifest, fh, indent=1)
    r = subprocess.run(["python3-vt", "-c", "import json,jsonschema,sys; jsonschema.validate(json.load(open('/verif/MANIFEST.json')), json.load(open('/root/.vp/MANIFEST.schema.json'))); print('MANIFEST valid')"], capture_output=True, text=True)
    print(r.stdout, r.stderr[-500:])
    return r.returncode

if __name__ == "__main__":
    sys.exit(main())
