#!/bin/bash
# usage: tools_confirm.sh <worktree> <k> <property> <seeded-id>
# Confirms a seeded change in its scratch worktree: tests pass with it, demo fails with / passes without; stores it under /verif/seeded/<id>/
wt="$1"; k="$2"; prop="$3"; id="$4"
m="$wt/mutation_$k"; out=/verif/seeded/$id
mkdir -p "$out"
cd "$wt" || exit 2
git checkout -q -- stepup
demo=$(ls $m/demo.py $m/test_demo.py 2>/dev/null | head -1)
run_demo() { if [[ "$demo" == *test_demo.py ]]; then PYTHONPATH=$wt PATH=/venv/bin:$PATH timeout 600 /venv/bin/python -m pytest -q -p no:cacheprovider -p no:xdist -o addopts="" "$demo" >/dev/null 2>&1; else PYTHONPATH=$wt PATH=/venv/bin:$PATH timeout 600 /venv/bin/python "$demo" >/dev/null 2>&1; fi; echo $?; }
clean_rc=$(run_demo)
git apply "$m/patch.diff" || { echo "$id: patch does not apply"; exit 2; }
mut_rc=$(run_demo)
PYTHONPATH=$wt timeout 1200 /venv/bin/python -m pytest -q -p no:cacheprovider --timeout=900 --continue-on-collection-errors --deselect tests/test_examples.py --junitxml=/tmp/junit_$id.xml >/dev/null 2>&1
fails=$(python3 - <<PY
import json, xml.etree.ElementTree as ET
b=json.load(open('/root/.vp/BASELINE.json')); stable=set(b['stable_pass'])
res={}
for tc in ET.parse('/tmp/junit_$id.xml').getroot().iter('testcase'):
    res[f"{tc.get('classname')}::{tc.get('name')}"]= not any(ch.tag in('failure','error','skipped') for ch in tc)
print(json.dumps(sorted(n for n in stable if not res.get(n, False))))
PY
)
git checkout -q -- stepup
cp "$m/patch.diff" "$out/patch.diff"; cp "$demo" "$out/"; cp "$m/README.md" "$out/README.md" 2>/dev/null
python3 - <<PY
import json
meta={"id":"$id","property":"$prop","demo":"$(basename $demo)","demo_rc_without_change":$clean_rc,"demo_rc_with_change":$mut_rc,
      "stable_baseline_tests_failing_with_change":$fails,
      "confirmed_by":"tools_confirm.sh in scratch worktree $wt (patch applied with git apply; pinned suite minus test_examples; demo run with and without)"}
json.dump(meta,open("$out/meta.json","w"),indent=1)
print("$id", "demo clean rc", $clean_rc, "mutated rc", $mut_rc, "baseline failing:", len($fails))
PY
