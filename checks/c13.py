"""C13: change detection by hashes is sound.

1. spec/HashEnc.tla (encoding in spec/HashEncCore.tla) is model checked: on a domain built from
   adversarial strings (the section keywords, the empty string) the byte stream fed to SHA-256 is an
   injective function of the configuration, for the input digest (two sub-domains that together
   cover every pair except the known finding F22) and for the output digest.
2. spec/HashVec.tla computes the stream of concrete configurations (ingredients in arbitrary
   order, real widths); this harness feeds the same configurations to the real
   StepHash.from_inp / with_out_hashes with a recording hash object and compares byte for byte,
   checks order independence, and checks digest equality == stream equality over families of
   single-ingredient mutations.
3. spec/Refresh.tla specifies FileHash.refreshed; recorded calls of the real method on real files
   (rewrite, same-size rewrite with restored mtime, chmod, replace, delete, recreate, touch) are
   validated by TLC.
4. (outside the specification: encode/decode fidelity) FileHash / StepHash survive
   to_json -> from_json unchanged.

usage: python -m checks.c13 --tier quick
"""

from __future__ import annotations

import hashlib
import json
import os
import random
import re
import shutil
import sys
import tempfile

sys.path.insert(0, os.path.dirname(os.path.dirname(os.path.abspath(__file__))))

from checks.common import Report, parse_args  # noqa: E402
from harness import tlc  # noqa: E402
from harness.runner import Scratch  # noqa: E402

KW = ["__shell__", "__inp_paths__", "__env_vars__", "__env_overrides__"]
STRS = ["", "a", "b", "ab", "a b", "é", "é", "\x01", "\x02a", "\x01__env_vars__", "x" * 40, "data/in.txt", "ünï/cødé.txt"] + KW


class Recorder:
    """Stands in for hashlib.sha256 inside HashWords: records what is fed, still hashes."""

    def __init__(self):
        self.fed = bytearray()
        self._h = hashlib.sha256()

    def update(self, data):
        self.fed += bytes(data)
        self._h.update(data)

    def digest(self):
        return self._h.digest()


def install_recorder():
    import attrs

    import stepup.core.hash as H

    streams = []

    @attrs.define
    class RecHashWords(H.HashWords):
        _hash = attrs.field(init=False, factory=Recorder)

        def digest(self):
            streams.append(bytes(self._hash.fed))
            return super().digest()

    H.HashWords = RecHashWords
    return streams


def fh(rng, kind=None):
    from stepup.core.hash import FileHash

    kind = kind or rng.choice(["unknown", "reg", "reg", "reg", "exe", "big"])
    if kind == "unknown":
        return FileHash.unknown()
    digest = bytes(rng.randrange(256) for _ in range(32))
    if rng.random() < 0.1:
        digest = b"u\x00\x01" + digest[3:]  # a digest that starts like the unknown marker + a word boundary
    mode = {"reg": 0o100644, "exe": 0o100755, "big": 0o100600}[kind]
    size = rng.choice([0, 1, 3, 255, 256, 65536, 2**40, 2**63 - 1]) if kind == "big" else rng.choice([0, 3, 1000])
    return FileHash(digest, mode, rng.random() * 1e9, size, rng.randrange(1, 2**40))


def random_config(rng):
    nf = rng.choice([0, 1, 2, 3])
    paths = rng.sample(STRS[1:], nf)
    env_names = rng.sample(STRS, rng.choice([0, 1, 2, 3]))
    ovr_names = rng.sample(STRS, rng.choice([0, 0, 1, 2]))
    return {
        "label": rng.choice(STRS),
        "shell": rng.random() < 0.5,
        "inp": {p: fh(rng) for p in paths},
        "env": {n: rng.choice([None, None, *STRS]) for n in env_names},
        "ovr": {n: rng.choice(STRS) for n in ovr_names},
    }


def mutants(cfg, rng):
    """Configurations that differ from cfg in exactly one ingredient."""
    from stepup.core.hash import FileHash

    res = []

    def clone():
        return {"label": cfg["label"], "shell": cfg["shell"], "inp": dict(cfg["inp"]), "env": dict(cfg["env"]), "ovr": dict(cfg["ovr"])}

    m = clone(); m["label"] = cfg["label"] + "x"; res.append(("label", m))
    m = clone(); m["shell"] = not cfg["shell"]; res.append(("shell", m))
    for p, h in cfg["inp"].items():
        if not h.is_unknown:
            m = clone(); m["inp"][p] = FileHash(bytes([h.digest[0] ^ 1]) + h.digest[1:], h.mode, h.mtime, h.size, h.inode); res.append(("content", m))
            m = clone(); m["inp"][p] = FileHash(h.digest, h.mode ^ 0o100, h.mtime, h.size, h.inode); res.append(("mode", m))
            m = clone(); m["inp"][p] = FileHash(h.digest, h.mode, h.mtime, h.size + 1, h.inode); res.append(("size", m))
        m = clone(); del m["inp"][p]; m["inp"][p + "2"] = h; res.append(("path", m))
        m = clone(); del m["inp"][p]; res.append(("drop_input", m))
    m = clone(); m["inp"]["zz_new"] = fh(rng, "reg"); res.append(("add_input", m))
    for n, v in cfg["env"].items():
        m = clone(); m["env"][n] = None if v is not None else ""; res.append(("env_definedness", m))
        if v is not None:
            m = clone(); m["env"][n] = v + "y"; res.append(("env_value", m))
        m = clone(); del m["env"][n]; res.append(("env_drop", m))
    m = clone(); m["env"]["NEWVAR"] = None; res.append(("env_add_undefined", m))
    for n, v in cfg["ovr"].items():
        m = clone(); m["ovr"][n] = v + "y"; res.append(("override_value", m))
        m = clone(); del m["ovr"][n]; res.append(("override_drop", m))
    m = clone(); m["ovr"]["NEWOVR"] = ""; res.append(("override_add_empty", m))
    # an ingredient moved between sections
    for n, v in cfg["env"].items():
        if v is not None and n not in cfg["ovr"]:
            m = clone(); del m["env"][n]; m["ovr"][n] = v; res.append(("env_to_override", m))
    return res


def kw_confusion(x, y):
    """HashEnc!KwConfusion: an environment variable named like the overrides keyword on one side,
    an override whose value is that keyword on the other (known finding F22)."""
    kw = "__env_overrides__"
    return (kw in x["env"] and kw in y["ovr"].values()) or (kw in y["env"] and kw in x["ovr"].values())


def b(s):
    return list(s.encode())


def to_line(i, kind, cfg, rng):
    def files(d):
        items = [[b(p), list(h.mode.to_bytes(8)), list(h.size.to_bytes(8)), list(h.digest)] for p, h in d.items()]
        rng.shuffle(items)
        return items

    if kind == "out":
        return {"id": i, "kind": "out", "files": files(cfg)}
    env = [[b(n), v is not None, b(v) if v is not None else []] for n, v in cfg["env"].items()]
    ovr = [[b(n), True, b(v)] for n, v in cfg["ovr"].items()]
    rng.shuffle(env)
    rng.shuffle(ovr)
    return {"id": i, "kind": "inp", "label": b(cfg["label"]), "shell": cfg["shell"], "files": files(cfg["inp"]), "env": env, "ovr": ovr}


def shuffled(d, rng):
    items = list(d.items())
    rng.shuffle(items)
    return dict(items)


def tlc_streams(lines, parallel=12):
    from concurrent.futures import ThreadPoolExecutor

    work = tlc.scratch_dir("vhash-")
    chunks = [lines[i::parallel] for i in range(parallel) if lines[i::parallel]]

    def one(ic):
        i, chunk = ic
        tf, vf = os.path.join(work, f"in{i}.ndjson"), os.path.join(work, f"out{i}.json")
        with open(tf, "w") as fh_:
            for line in chunk:
                fh_.write(json.dumps(line, separators=(",", ":")) + "\n")
        rc, out, secs = tlc.run_tlc("HashVec.tla", "HashVec.cfg", env={"TRACE_FILE": tf, "VERDICT_FILE": vf}, workers=1, timeout=1800)
        if not os.path.exists(vf) or "Error:" in out:
            raise tlc.TLCFailure(f"HashVec batch {i} failed (rc={rc}):\n{out[-3000:]}")
        with open(vf) as fh_:
            res = json.load(fh_)
        if res["n"] != len(chunk):
            raise tlc.TLCFailure(f"TLC evaluated {res['n']} of {len(chunk)} configurations")
        m = re.search(r"(\d+) states generated, (\d+) distinct states found", out)
        return res["vectors"], int(m.group(2)) if m else 0

    try:
        with ThreadPoolExecutor(max_workers=parallel) as ex:
            results = list(ex.map(one, enumerate(chunks)))
    finally:
        shutil.rmtree(work, ignore_errors=True)
    streams, states = {}, 0
    for vectors, st in results:
        states += st
        for v in vectors:
            streams[v["id"]] = bytes(v["stream"] if isinstance(v["stream"], list) else [])
    return streams, states


def model_checks(report):
    states = 0
    for part, must_pass in (("NoEnvNamedKw", True), ("NoOvrValueKw", True), ("Out", True), ("All", False)):
        rc, out, secs = tlc.run_tlc("HashEnc.tla", f"HashEnc_{part}.cfg", workers=14, timeout=1800)
        m = re.search(r"(\d+) states generated, (\d+) distinct states found", out)
        if not m or "Finished in" not in out:
            report.machinery(f"HashEnc_{part} did not complete:\n" + out[-2000:])
            continue
        states += int(m.group(2))
        failed = "Postcondition" in out and "is false" in out
        if "Error:" in out and not failed:
            report.machinery(f"HashEnc_{part}: TLC error:\n" + out[-2000:])
        elif must_pass and failed:
            report.add_violation("encoding_not_injective", f"sub-domain {part}: {m.group(1)} configurations, {m.group(2)} distinct streams",
                                 {"cfg": f"spec/HashEnc_{part}.cfg"}, tid=part)
        elif not must_pass:
            report.coverage["whole_domain_collisions"] = int(m.group(1)) - int(m.group(2))
            report.notes.append(f"whole domain: {m.group(1)} configurations, {m.group(2)} distinct streams "
                                + ("(collisions = the F22 pairs)" if failed else "(injective)"))
    return states


def refresh_cases(rng, root, n):
    """Recorded calls of FileHash.refreshed on real files."""
    from stepup.core.hash import FileHash

    ids = {"digest": {}, "mtime": {}, "inode": {}}

    def ident(kind, value):
        return ids[kind].setdefault(value, len(ids[kind]) + 1)

    def rec_of(h):
        if h.is_unknown:
            return {"known": False, "digest": 0, "mode": 0, "mtime": 0, "size": 0, "inode": 0}
        return {"known": True, "digest": ident("digest", h.digest), "mode": h.mode, "mtime": ident("mtime", h.mtime),
                "size": h.size, "inode": ident("inode", h.inode)}

    def disk_of(path):
        try:
            st = os.stat(path)
        except OSError:
            return {"present": False, "digest": 0, "mode": 0, "mtime": 0, "size": 0, "inode": 0}
        with open(path, "rb") as fh_:
            d = hashlib.sha256(fh_.read()).digest()
        return {"present": True, "digest": ident("digest", d), "mode": st.st_mode, "mtime": ident("mtime", st.st_mtime),
                "size": st.st_size, "inode": ident("inode", st.st_ino)}

    lines, samples = [], []
    ops = ["none", "same_content", "other_content_same_size_mtime_kept", "other_content_same_size", "other_size", "chmod",
           "replace_same_content_mtime_kept", "replace_other_content_mtime_kept", "delete", "delete_recreate_same", "touch",
           "other_content_same_size_mtime_kept_chmod", "start_unknown_create", "start_unknown_absent",
           # rewritten in place (same inode, size, mode) with a modification time that differs only slightly
           "other_content_same_size_mtime_close", "other_content_same_size_mtime_close"]
    for i in range(n):
        path = os.path.join(root, f"f{i}.txt")
        op = ops[i % len(ops)] if i < 3 * len(ops) else rng.choice(ops)
        content = rng.choice([b"abc", b"hello world", b"", b"x" * 5000])
        if op.startswith("start_unknown"):
            rec = FileHash.unknown()
            if op == "start_unknown_create":
                with open(path, "wb") as fh_:
                    fh_.write(content)
        else:
            with open(path, "wb") as fh_:
                fh_.write(content)
            # recorded modification times: around 2001 and present-day epochs (float spacing differs)
            base = 10**18 if i % 2 == 0 else 1_790_000_000 * 10**9
            os.utime(path, ns=(base + i * 10**9, base + i * 10**9 + rng.randrange(10**6)))
            rec = FileHash.unknown().refreshed(path)
            st = os.stat(path)
            other = bytes((c + 1) % 256 for c in content) if content else b"q"
            if op == "same_content":
                with open(path, "wb") as fh_:
                    fh_.write(content)
            elif op.startswith("other_content_same_size"):
                with open(path, "r+b") as fh_:
                    fh_.write(other if content else b"")
                if "mtime_kept" in op:
                    os.utime(path, ns=(st.st_atime_ns, st.st_mtime_ns))
                if "mtime_close" in op:
                    delta = rng.choice([2_000, 40_000, 500_000, 3_000_000, 250_000_000, 900_000_000, 1_500_000_000])
                    os.utime(path, ns=(st.st_atime_ns, st.st_mtime_ns + rng.choice([1, -1]) * delta))
                if op.endswith("chmod"):
                    os.chmod(path, 0o755)
            elif op == "other_size":
                with open(path, "ab") as fh_:
                    fh_.write(b"more")
            elif op == "chmod":
                os.chmod(path, 0o600)
            elif op.startswith("replace"):
                tmp = path + ".new"
                with open(tmp, "wb") as fh_:
                    fh_.write(content if "same" in op else (other if content else b""))
                os.chmod(tmp, st.st_mode & 0o777)
                os.utime(tmp, ns=(st.st_atime_ns, st.st_mtime_ns))
                os.replace(tmp, path)
            elif op == "delete":
                os.unlink(path)
            elif op == "delete_recreate_same":
                os.unlink(path)
                with open(path, "wb") as fh_:
                    fh_.write(content)
            elif op == "touch":
                os.utime(path, ns=(st.st_atime_ns, st.st_mtime_ns + 12345))
        recd = rec_of(rec)
        disk = disk_of(path)
        got = rec.refreshed(path)
        line = {"id": i, "op": op, "rec": recd, "disk": disk, "got": rec_of(got), "same_object": got is rec}
        lines.append(line)
        if len(samples) < 4:
            samples.append({k: line[k] for k in ("op", "rec", "disk", "got")})
    return lines, samples


def json_round_trips(rng, n):
    from stepup.core.hash import FileHash, StepHash

    bad = []
    for i in range(n):
        h = fh(rng)
        if not h.is_unknown:
            h = FileHash(h.digest, h.mode, rng.choice([h.mtime, 1727300000.123456789, 0.1 + 0.2, 2**53 + 0.0, 1e-9]), h.size, rng.choice([h.inode, 2**63 - 1]))
        back = FileHash.from_json(h.to_json())
        if back != h or back.mtime != h.mtime or back.inode != h.inode or back.size != h.size:
            bad.append(("FileHash", repr(h), repr(back)))
        cfg = random_config(rng)
        for explained in (False, True):
            sh = StepHash.from_inp(cfg["label"], cfg["inp"], cfg["env"], explained=explained, shell=cfg["shell"], env_overrides=cfg["ovr"])
            if rng.random() < 0.6:
                sh = sh.with_out_hashes({"o" + p: v for p, v in cfg["inp"].items()})
            back = StepHash.from_json(sh.to_json())
            if back != sh:
                bad.append(("StepHash", repr(sh)[:300], repr(back)[:300]))
    return bad


def main(argv=None):
    args = parse_args(argv)
    pid = "C13"
    nbase, nrefresh = {"quick": (250, 120), "thorough": (4000, 2000)}[args.tier]
    report = Report(pid, args.tier, args.seed)
    report.assumptions.extend([
        "SHA-256 is collision free: two configurations share a digest exactly when they are encoded as the same byte stream",
        "digests of existing files are 32-byte values not chosen by an adversary (a crafted 32-byte digest starting with 'u' 0 1 could imitate an unknown file followed by a word boundary)",
        "strings are NUL-free (labels, paths, environment names and values)",
        "JSON round trips (to_json/from_json) are checked by generated values outside the TLA+ specification: encode/decode fidelity is not a state-machine property",
    ])
    rng = random.Random(args.seed * 104729 + 13)
    with Scratch():
        states = model_checks(report)
        # ---- vectors against the real code
        recorded = install_recorder()
        from stepup.core.hash import StepHash

        lines, entries = [], []
        for _ in range(nbase):
            base = random_config(rng)
            fam = [("base", base)] + mutants(base, rng)
            gid = len(entries)
            for what, cfg in fam:
                entries.append({"kind": "inp", "cfg": cfg, "what": what, "base": gid})
        # the F22 witness and its neighbours
        w1 = {"label": "a", "shell": False, "inp": {}, "env": {"__env_overrides__": "a"}, "ovr": {}}
        w2 = {"label": "a", "shell": False, "inp": {}, "env": {}, "ovr": {"a": "__env_overrides__"}}
        gid = len(entries)
        entries.append({"kind": "inp", "cfg": w1, "what": "base", "base": gid})
        entries.append({"kind": "inp", "cfg": w2, "what": "f22_witness", "base": gid})
        for _ in range(nbase // 2):
            cfg = random_config(rng)["inp"]
            gid = len(entries)
            entries.append({"kind": "out", "cfg": cfg, "what": "base", "base": gid})
            for what, m in mutants({"label": "", "shell": False, "inp": cfg, "env": {}, "ovr": {}}, rng):
                if what in ("content", "mode", "size", "path", "drop_input", "add_input"):
                    entries.append({"kind": "out", "cfg": m["inp"], "what": what, "base": gid})
        nviol = 0
        for i, e in enumerate(entries):
            lines.append(to_line(i, e["kind"], e["cfg"], rng))
            cfg = e["cfg"]
            del recorded[:]
            if e["kind"] == "inp":
                sh = StepHash.from_inp(cfg["label"], shuffled(cfg["inp"], rng), shuffled(cfg["env"], rng), explained=False,
                                       shell=cfg["shell"], env_overrides=shuffled(cfg["ovr"], rng))
                e["digest"] = sh.inp_digest
                e["fed"] = recorded[-1]
                sh2 = StepHash.from_inp(cfg["label"], shuffled(cfg["inp"], rng), shuffled(cfg["env"], rng), explained=True,
                                        shell=cfg["shell"], env_overrides=shuffled(cfg["ovr"], rng))
                if sh2.inp_digest != sh.inp_digest:
                    report.add_violation("digest_depends_on_order_of_ingredients", repr(cfg)[:300], {"config": repr(cfg)}, tid=f"v{i}")
            else:
                sh = StepHash(b"x" * 32).with_out_hashes(shuffled(cfg, rng))
                e["digest"] = sh.out_digest
                e["fed"] = recorded[-1]
                if StepHash(b"x" * 32).with_out_hashes(shuffled(cfg, rng)).out_digest != sh.out_digest:
                    report.add_violation("digest_depends_on_order_of_ingredients", repr(cfg)[:300], {"config": repr(cfg)}, tid=f"v{i}")
        try:
            streams, vstates = tlc_streams(lines)
        except tlc.TLCFailure as exc:
            report.machinery(str(exc)[:3000])
            return report.finish()
        f22 = 0
        pairs = 0
        for i, e in enumerate(entries):
            if e["fed"] != streams[i]:
                nviol += 1
                if nviol <= 10:
                    report.add_violation("bytes_fed_to_sha256_differ_from_specification",
                                         json.dumps({"kind": e["kind"], "what": e["what"], "code": e["fed"].hex()[:120], "spec": streams[i].hex()[:120]}),
                                         {"config": repr(e["cfg"])[:2000]}, tid=f"v{i}")
            if e["what"] != "base":
                pairs += 1
                base = entries[e["base"]]
                same_stream = streams[i] == streams[e["base"]]
                same_digest = e["digest"] == base["digest"]
                if same_digest != same_stream:
                    report.add_violation("digest_equality_differs_from_stream_equality", e["what"], {"config": repr(e["cfg"])[:2000]}, tid=f"v{i}")
                elif same_digest and (e["what"] == "f22_witness" or (e["kind"] == "inp" and kw_confusion(base["cfg"], e["cfg"]))):
                    f22 += 1
                elif same_digest:
                    report.add_violation("configurations_share_a_digest", json.dumps({"differs_in": e["what"], "kind": e["kind"]}),
                                         {"a": repr(base["cfg"])[:1500], "b": repr(e["cfg"])[:1500]}, tid=f"v{i}")
        if f22 and report.coverage.get("whole_domain_collisions", 0) > 0:
            report.violations.append({"clause": "env_name_vs_override_value_keyword_collision", "subj": "witness pair shares inp_digest",
                                      "kf": "F22-env-name-override-value-keyword-collision", "line": 0, "tid": "", "case": None})
        elif report.coverage.get("whole_domain_collisions", 0) > 0:
            report.add_violation("specification_predicts_collision_not_seen_in_code", "F22 witness", {"a": repr(w1), "b": repr(w2)}, tid="f22")
        # ---- refreshed
        root = tempfile.mkdtemp(prefix="c13-", dir=os.environ.get("VERIF_SCRATCH"))
        try:
            rlines, rsamples = refresh_cases(rng, root, nrefresh)
        finally:
            shutil.rmtree(root, ignore_errors=True)
        work = tlc.scratch_dir("vrefresh-")
        tf, vf = os.path.join(work, "in.ndjson"), os.path.join(work, "out.json")
        with open(tf, "w") as fh_:
            for line in rlines:
                fh_.write(json.dumps({k: line[k] for k in ("id", "rec", "disk", "got")}, separators=(",", ":")) + "\n")
        rc, out, secs = tlc.run_tlc("Refresh.tla", "Refresh.cfg", env={"TRACE_FILE": tf, "VERDICT_FILE": vf}, workers=1, timeout=900)
        rstates = 0
        if not os.path.exists(vf) or "Error:" in out:
            report.machinery("Refresh.tla failed:\n" + out[-2500:])
        else:
            with open(vf) as fh_:
                res = json.load(fh_)
            m = re.search(r"(\d+) states generated, (\d+) distinct states found", out)
            rstates = int(m.group(2)) if m else 0
            if res["n"] != len(rlines):
                report.machinery(f"Refresh.tla consumed {res['n']} of {len(rlines)} lines")
            for bad in (res["bad"] if isinstance(res["bad"], list) else []):
                line = rlines[bad["id"]]
                report.add_violation("refreshed_" + "_".join(sorted(bad["clauses"])), line["op"], line, tid=f"r{bad['id']}")
        shutil.rmtree(work, ignore_errors=True)
        # ---- JSON round trips
        for kind, a, b_ in json_round_trips(rng, nbase)[:10]:
            report.add_violation("json_round_trip_changes_value", kind, {"before": a, "after": b_}, tid="json")
        for e in entries[:2]:
            report.sample({"kind": e["kind"], "config": repr(e["cfg"])[:400], "stream_hex": e["fed"].hex()[:160]})
        for s in rsamples[:2]:
            report.sample(s)
        report.coverage.update({
            "states": states + vstates + rstates,
            "transitions": len(lines) + len(rlines),
            "traces_validated_against_impl": len(entries) + len(rlines),
            "evaluations": len(entries) + len(rlines),
            "distinct_nontrivial": pairs + sum(1 for l in rlines if l["op"] != "none"),
            "single_ingredient_pairs": pairs,
            "refreshed_calls": len(rlines),
            "rule": "one evaluation = one configuration whose SHA-256 input is compared with the specification's stream, or one recorded refreshed() call; non-trivial = a single-ingredient mutation pair (digests must differ) or a refreshed() call after a manipulation",
        })
        if pairs < 200 or len(rlines) < 50:
            report.machinery("vacuous run")
    if True:
        # Layer B: what a dispatched job does -- validate, skip or execute (spec/Job.tla) -- model checked, and
        # the commits of the real director on a project of the model's shape matched against its actions
        with Scratch():
            from checks import job
            jb = job.run(report, args.tier, args.seed, "C13")
        report.coverage["job"] = jb
        report.coverage["states"] = report.coverage.get("states", 0) + jb.get("states", 0) + jb.get("model_states", 0)
        report.coverage["traces_validated_against_impl"] = report.coverage.get("traces_validated_against_impl", 0) + jb.get("histories", 0)
    return report.finish()


if __name__ == "__main__":
    sys.exit(main())
