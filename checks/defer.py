"""Layer G: amended inputs, deferral and wake-up (spec/Defer.tla) replayed into the real Workflow.

Defer.tla is model checked (NoLostWakeup, FailedOnlyByCap, CapRespected and, under weak fairness,
Settles; the variant whose re-check accepts BUILT inputs only is expected to violate NoLostWakeup),
and action sequences evaluated by TLC are executed on the real Workflow through the graph API
(amend_step, declare_static_files, update_file_hashes, Step.mark_completed, reset_for_rerun),
comparing the consumer (state, deferred flag, defer count, dynamic edges), the producer and the two
files after every action.

Library for the checks of C02 and C10 (`run(report, ...)`); can be run alone.
"""

from __future__ import annotations

import asyncio
import itertools
import json
import os
import random
import re
import shutil
import sys

sys.path.insert(0, os.path.dirname(os.path.dirname(os.path.abspath(__file__))))

from harness import tlc  # noqa: E402

CAP = 2
KINDS = ["startC", "amend", "declareX", "confirmX", "startP", "succeedP", "complete"]


def act(k, rng):
    if k in ("amend", "confirmX"):
        return {"a": k, "pres": rng.random() < 0.75}
    return {"a": k}


def random_case(rng):
    sc = rng.choice([["x"], ["o"], ["x", "o"]])
    n = rng.choice([8, 14, 22, 30])
    if rng.random() < 0.5:
        acts = [act(rng.choice(KINDS), rng) for _ in range(n)]
    else:
        # runs of C (start, amend, complete) with the other events dropped in between
        acts = []
        others = [act(k, rng) for k in ("declareX", "confirmX", "startP", "succeedP")]
        rng.shuffle(others)
        for _ in range(rng.choice([2, 3, 4, 5])):
            run_ = [act("startC", rng), act("amend", rng), act("complete", rng)]
            for _ in range(rng.choice([0, 1, 1, 2])):
                if others:
                    run_.insert(rng.randrange(len(run_) + 1), others.pop(0))
            acts += run_
        acts += others
    return {"sc": sc, "acts": acts}


def scripted():
    t, f = True, False
    res = []
    # the input is declared and confirmed while C is still running after a refused amendment
    res.append({"sc": ["x"], "acts": [{"a": "startC"}, {"a": "amend", "pres": t}, {"a": "declareX"}, {"a": "confirmX", "pres": t},
                                      {"a": "complete"}, {"a": "startC"}, {"a": "amend", "pres": t}, {"a": "complete"}]})
    # ... or only after C has terminated
    res.append({"sc": ["x"], "acts": [{"a": "startC"}, {"a": "amend", "pres": t}, {"a": "complete"}, {"a": "declareX"},
                                      {"a": "confirmX", "pres": t}, {"a": "startC"}, {"a": "amend", "pres": t}, {"a": "complete"}]})
    # the declared file does not exist: woken up, deferred again, until the cap
    res.append({"sc": ["x"], "acts": [{"a": "startC"}, {"a": "amend", "pres": t}, {"a": "complete"}, {"a": "declareX"},
                                      {"a": "confirmX", "pres": f}, {"a": "startC"}, {"a": "amend", "pres": f}, {"a": "complete"},
                                      {"a": "startC"}, {"a": "amend", "pres": f}, {"a": "complete"}]})
    # the producer finishes while C runs: the output is unfresh, C is rerun
    res.append({"sc": ["o"], "acts": [{"a": "startC"}, {"a": "startP"}, {"a": "succeedP"}, {"a": "amend", "pres": t}, {"a": "complete"},
                                      {"a": "startC"}, {"a": "amend", "pres": t}, {"a": "complete"}]})
    res.append({"sc": ["x", "o"], "acts": [{"a": "startC"}, {"a": "amend", "pres": t}, {"a": "startP"}, {"a": "declareX"}, {"a": "succeedP"},
                                           {"a": "confirmX", "pres": t}, {"a": "complete"}, {"a": "startC"}, {"a": "amend", "pres": t},
                                           {"a": "complete"}]})
    res.append({"sc": ["x", "o"], "acts": [{"a": "declareX"}, {"a": "startC"}, {"a": "amend", "pres": t}, {"a": "complete"}, {"a": "startP"},
                                           {"a": "succeedP"}, {"a": "startC"}, {"a": "amend", "pres": t}, {"a": "complete"}]})
    return res


async def execute(case, enabled, spec_states):
    from stepup.core.enums import HashUpdateCause, Need, StepState
    from stepup.core.hash import FileHash, StepHash
    from stepup.core.sqlite3 import DBSession
    from stepup.core.step import Step
    from stepup.core.workflow import Workflow

    counter = itertools.count(1)

    def fake():
        k = next(counter)
        return FileHash(bytes([k % 256]) * 32, 0o100644, float(k), 3, k)

    sc = sorted(case["sc"])
    with DBSession.open(":memory:") as db:
        wf = Workflow(db, dir_queue=None, defer_cap=CAP)
        await wf.initialize()
        async with db:
            wf.declare_static_files(wf.root, ["plan.py"])
            wf.define_step(wf.root, "PL", inp_paths=["plan.py"], need=Need.PLAN)
            wf.update_file_hashes({"plan.py": fake()}, cause=HashUpdateCause.CONFIRMED)
            plan = wf.find(Step, "PL")
            plan.set_state(StepState.RUNNING)
            wf.define_step(plan, "C", out_paths=["c.txt"])
            wf.define_step(plan, "P", out_paths=["o"])
            c = wf.find(Step, "C")
            p = wf.find(Step, "P")
        wants = False

        def snapshot():
            def fstate(path):
                row = db.execute("SELECT file.state FROM node JOIN file ON file.node = node.i WHERE node.kind = 'file' AND node.label = ?",
                                 (path,)).fetchone()
                if row is None:
                    return "NONE"
                from stepup.core.enums import FileState

                return FileState(row[0]).name
            row = db.execute("SELECT state, deferred, defer_count FROM step WHERE node = ?", (c.i,)).fetchone()
            dyn = {r[0] for r in db.execute(
                "SELECT n.label FROM dependency d JOIN dynamic_dep dd ON dd.i = d.i JOIN node n ON n.i = d.source WHERE d.sink = ?", (c.i,))}
            return {"x": fstate("x"), "o": fstate("o"), "p": Step(wf, p.i, "P").get_state().name, "c": StepState(row[0]).name,
                    "cdef": bool(row[1]), "cnt": row[2], "dynx": "x" in dyn, "dyno": "o" in dyn, "wants": wants}

        states = []
        for k, (a, en) in enumerate(zip(case["acts"], enabled)):
            if en:
                try:
                    async with db:
                        kind = a["a"]
                        if kind == "startC":
                            c.set_state(StepState.RUNNING)
                            c.reset_for_rerun()
                            wants = False
                        elif kind == "amend":
                            # the overlap of the producer's and the consumer's runs is an argument of the request
                            ov = bool(spec_states[k - 1]["overlap"]) if k > 0 else False
                            unav, unfresh, to_check = wf.amend_step(c, inp_paths=sc, ran_concurrently=lambda p_, c_: ov)
                            unav = set(unav)
                            for path in to_check:
                                # the promoted hash job of an UNCONFIRMED input
                                wf.update_file_hashes({path: fake() if a["pres"] else FileHash.unknown()}, cause=HashUpdateCause.CONFIRMED)
                                if not a["pres"]:
                                    unav.add(path)
                            wants = bool(unav or unfresh)
                        elif kind == "declareX":
                            wf.declare_static_files(plan, ["x"])
                        elif kind == "confirmX":
                            wf.update_file_hashes({"x": fake() if a["pres"] else FileHash.unknown()}, cause=HashUpdateCause.CONFIRMED)
                        elif kind == "startP":
                            p.set_state(StepState.RUNNING)
                            p.reset_for_rerun()
                        elif kind == "succeedP":
                            wf.update_file_hashes({"o": fake()}, cause=HashUpdateCause.SUCCEEDED)
                            p.mark_completed(StepHash(b"i" * 32, None, b"o" * 32, None), False)
                        elif kind == "complete":
                            if wants:
                                c.mark_completed(None, True)
                            else:
                                wf.update_file_hashes({"c.txt": fake()}, cause=HashUpdateCause.SUCCEEDED)
                                c.mark_completed(StepHash(b"j" * 32, None, b"k" * 32, None), False)
                except Exception as exc:  # noqa: BLE001
                    states.append({"error": f"{type(exc).__name__}: {exc}"})
                    break
            async with db:
                states.append(snapshot())
    return states


KEYS = ("x", "o", "p", "c", "cdef", "cnt", "dynx", "dyno", "wants")


def norm(e):
    st = e["st"]
    return {k: (bool(st[k]) if k in ("cdef", "dynx", "dyno", "wants") else st[k]) for k in KEYS}


def run(report, tier: str, seed: int, prop: str) -> dict:
    stats = {"states": 0, "sequences": 0, "actions": 0}
    rc, out, secs = tlc.run_tlc("Defer.tla", "DeferModel.cfg", workers=4, timeout=900)
    m = re.search(r"(\d+) states generated, (\d+) distinct states found", out)
    if "No error has been found" not in out:
        inv = re.search(r"Invariant (\w+) is violated", out)
        if inv or "Temporal properties were violated" in out:
            report.add_violation("defer_model_" + (inv.group(1) if inv else "Settles"), "spec/Defer.tla", {"tlc_tail": out[-3000:]}, tid="defer-model")
        else:
            report.machinery("Defer.tla model check did not complete:\n" + out[-2000:])
    stats["states"] += int(m.group(2)) if m else 0
    rc, out, secs = tlc.run_tlc("Defer.tla", "DeferModelMut.cfg", workers=4, timeout=900)
    stats["recheck_variant_found_by_model"] = "Invariant NoLostWakeup is violated" in out
    if not stats["recheck_variant_found_by_model"]:
        report.machinery("Defer.tla DeferModelMut.cfg: the variant was not found (the model lost its teeth):\n" + out[-1500:])
    rng = random.Random(seed * 61 + 5)
    cases = scripted()
    for _ in range({"quick": 300, "thorough": 6000}[tier]):
        cases.append(random_case(rng))
    lines = [{"id": i, "sc": c["sc"], "acts": c["acts"]} for i, c in enumerate(cases)]
    work = tlc.scratch_dir("vdf-")
    from concurrent.futures import ThreadPoolExecutor

    chunks = [lines[i::8] for i in range(8) if lines[i::8]]

    def one(ic):
        i, chunk = ic
        tf, vf = os.path.join(work, f"in{i}.ndjson"), os.path.join(work, f"out{i}.json")
        with open(tf, "w") as fh:
            for line in chunk:
                fh.write(json.dumps(line, separators=(",", ":")) + "\n")
        rc_, o, s_ = tlc.run_tlc("Defer.tla", "Defer.cfg", env={"TRACE_FILE": tf, "VERDICT_FILE": vf}, workers=1, timeout=3000)
        if not os.path.exists(vf) or "Error:" in o:
            raise tlc.TLCFailure(f"Defer replay batch {i} failed:\n{o[-3000:]}")
        with open(vf) as fh:
            res = json.load(fh)
        mm = re.search(r"(\d+) states generated, (\d+) distinct states found", o)
        return res["vectors"], int(mm.group(2)) if mm else 0

    expected = {}
    try:
        with ThreadPoolExecutor(max_workers=8) as ex:
            for vecs, st in ex.map(one, enumerate(chunks)):
                stats["states"] += st
                for v in vecs:
                    expected[v["id"]] = v["states"] if isinstance(v["states"], list) else []
    except tlc.TLCFailure as exc:
        report.machinery(str(exc)[:3000])
        return stats
    finally:
        shutil.rmtree(work, ignore_errors=True)
    nbad = 0
    kinds = {}
    for i, case in enumerate(cases):
        exp = expected[i]
        enabled = [bool(e["enabled"]) for e in exp]
        got = asyncio.run(execute(case, enabled, [e["st"] for e in exp]))
        stats["sequences"] += 1
        stats["actions"] += sum(enabled)
        for a, en in zip(case["acts"], enabled):
            if en:
                kinds[a["a"]] = kinds.get(a["a"], 0) + 1
        for k, (e, gst) in enumerate(zip(exp, got)):
            want = norm(e)
            clause = None
            if "error" in gst:
                clause = "defer_primitive_raised"
            elif gst["c"] == "PENDING" and gst["cdef"] and not ((gst["dynx"] and gst["x"] != "CONFIRMED") or (gst["dyno"] and gst["o"] != "BUILT")):
                # the property itself, evaluated on the code's own state
                clause = "step_parked_although_none_of_its_inputs_is_unavailable"
            elif gst != want:
                clause = "amend_defer_protocol_differs_from_specification"
            if clause:
                nbad += 1
                if nbad <= 8:
                    report.add_violation(
                        clause,
                        json.dumps({"action": case["acts"][k], "index": k, "script": case["sc"], "code": gst, "spec": want,
                                    "prefix": [a for a, en in zip(case["acts"][:k], enabled[:k]) if en][-10:]}, sort_keys=True)[:1500],
                        {"case": case, "enabled": enabled}, tid=f"df{i}")
                break
    stats["action_kinds"] = kinds
    return stats


if __name__ == "__main__":
    from checks.common import Report, parse_args
    from harness.runner import Scratch

    a = parse_args()
    rep = Report("C02", a.tier, a.seed)
    with Scratch():
        print(run(rep, a.tier, a.seed, "C02"))
    for v in rep.violations[:6]:
        print(v["clause"], v["subj"][:1500])
        print()
    for mm in rep.machinery_errors:
        print("MACHINERY", mm[:2000])
