"""C06 (second half): `stepup clean` never destroys what StepUp does not own.

After a history (with user edits of outputs) the project is copied and `stepup.core.clean.clean`
is called in process on a read-only connection, as `clean_tool` does, for several argument sets.
The tree before/after and the database projection go to spec/RelCheck.tla (clean_tool)."""

from __future__ import annotations

import argparse
import json
import os
import random
import sqlite3
import sys

sys.path.insert(0, os.path.dirname(os.path.dirname(os.path.abspath(__file__))))

from checks.history import disk_ev  # noqa: E402
from harness.projection import project as project_db  # noqa: E402
from harness.runner import run_history  # noqa: E402
from harness.simdirector import World  # noqa: E402


def exec_clean_case(case: dict) -> dict:
    from path import Path

    from stepup.core.clean import clean
    from stepup.core.sqlite3 import connect

    rng = random.Random(case["seed"])
    world = World()
    rels = []
    try:
        out = run_history(case["project"], case["phases"], world=world, keep_world=True)
        if rng.random() < 0.6:
            # a build in which commands fail before rewriting their outputs: the outputs of the
            # steps behind a changed source stay on disk as OUTDATED
            srcs = [p for p, v in case["project"]["sources"].items() if not p.endswith(".py") and len(v) > 1]
            if srcs:
                p = rng.choice(srcs)
                fphase = {"edits": [["set", p, rng.choice(case["project"]["sources"][p])], ["touch", p], ["env", "VV_FAIL", "1"]],
                          "how": "restart", "cfg": dict(case["phases"][-1].get("cfg", {}), keep_going=True), "seed": case["seed"]}
                out2 = run_history(case["project"], [fphase], world=world, keep_world=True)
                out["runs"].extend(out2["runs"])
        # user edits after the last build: overwrite / delete some outputs
        outs = sorted(p for p, v in out["runs"][-1]["final_state"]["nodes"].items()
                      if v["kind"] == "file" and v["fstate"] in ("BUILT", "OUTDATED", "VOLATILE"))
        for key in outs:
            r = rng.random()
            path = key[5:]
            st = out["runs"][-1]["final_state"]["nodes"][key]["fstate"]
            if r < (0.6 if st == "OUTDATED" else 0.2):
                world.write(path, "edited by the user after the build\n")
            elif r < (0.7 if st == "OUTDATED" else 0.3):
                world.delete(path)
        labels = [k[5:] for k in outs]
        dirs = sorted({os.path.dirname(p) for p in labels if "/" in p})
        argsets = []
        for _ in range(case["nargs"]):
            choice = rng.choice(["root", "dir", "files", "static"])
            if choice == "root":
                paths = ["."]
            elif choice == "dir" and dirs:
                paths = [rng.choice(dirs)]
            elif choice == "static":
                paths = [rng.choice([p for p in case["project"]["sources"]])]
            else:
                paths = sorted(rng.sample(labels, min(len(labels), rng.choice([1, 2])))) or ["."]
            argsets.append({"paths": paths, "all": rng.random() < 0.7, "unsafe": rng.random() < 0.25,
                            "commit": rng.random() < 0.85, "from_subdir": rng.random() < 0.3})
        k = 0
        for a in argsets:
            w = world.copy()
            old = os.getcwd()
            old_env = {k_: os.environ.get(k_) for k_ in ("STEPUP_ROOT", "HERE")}
            os.chdir(w.root)
            if a.get("from_subdir"):
                # the tool is run from a directory below the root (STEPUP_ROOT tells where the root is);
                # that directory holds the user's own files with the same relative names as the outputs
                sub = w.root / "elsewhere"
                sub.mkdir(exist_ok=True)
                for p_ in labels + [q for q in case["project"]["sources"] if not q.endswith(".py")]:
                    dst = sub / p_
                    dst.parent.mkdir(parents=True, exist_ok=True)
                    dst.write_text("a file of the user, never declared\n")
                os.environ["STEPUP_ROOT"] = str(w.root)
                os.environ.pop("HERE", None)
                os.chdir(sub)
            try:
                before = w.snapshot()
                con = connect(str(w.root / ".stepup" / "graph.db"), read_only=True)
                try:
                    st_before = project_db(con)
                    ns = argparse.Namespace(paths=[Path(p) for p in a["paths"]], all=a["all"], commit=a["commit"], safe=not a["unsafe"])
                    import io
                    import contextlib

                    with contextlib.redirect_stdout(io.StringIO()):
                        try:
                            clean(con, {Path(p) for p in a["paths"]}, ns)
                        except Exception as exc:  # noqa: BLE001
                            # the tool stopped with an error (e.g. an output replaced by a
                            # directory cannot be hashed); what it removed before is still judged
                            a = dict(a, tool_error=type(exc).__name__)
                    st_after = project_db(con)
                finally:
                    con.close()
                after = w.snapshot()
            finally:
                os.chdir(old)
                for k_, v_ in old_env.items():
                    if v_ is None:
                        os.environ.pop(k_, None)
                    else:
                        os.environ[k_] = v_
                w.destroy()
            k += 1
            rels.append({"tid": case["tid"], "k": k, "rel": "clean_tool",
                         "a": {"state": st_before, "disk": disk_ev(before), "rc": 0},
                         "b": {"state": st_after, "disk": disk_ev(after), "rc": 0},
                         "info": a})
    finally:
        world.destroy()
    replay = {"tid": case["tid"], "project": case["project"], "phases": case["phases"], "clean_args": argsets}
    return {"tid": case["tid"], "rels": [json.dumps(r, separators=(",", ":"), sort_keys=True) for r in rels], "replay": replay}
