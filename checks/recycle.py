"""Layer G: re-execution of a plan (spec/Recycle.tla) replayed into the real Workflow.

Seeded sequences of plan-level actions (start/reset the plan, declare the static file, define
steps with varying inputs, finish, make the plan pending again, run children, delete detached
nodes) are evaluated by TLC (Recycle.cfg) and executed on the real Workflow through the graph API
on an in-memory database.  After every action each node of the universe must exist, be detached,
be owned, be in the state, have the hash and consume the inputs the specification says.

Library for the checks of C01 and C09 (`run(report, ...)`); can be run alone.
"""

from __future__ import annotations

import asyncio
import itertools
import json
import os
import random
import re
import shutil
import sys

sys.path.insert(0, os.path.dirname(os.path.dirname(os.path.abspath(__file__))))

from harness import tlc  # noqa: E402

OUT = {"A": "oa", "B": "ob"}
INP = {"A": [[], ["x"]], "B": [[], ["x"], ["oa"], ["oa", "x"]]}


def random_actions(rng, n):
    acts = []
    for _ in range(n):
        k = rng.random()
        if k < 0.14:
            acts.append({"a": "startP"})
        elif k < 0.26:
            acts.append({"a": "static"})
        elif k < 0.48:
            s = rng.choice(["A", "B"])
            acts.append({"a": "define", "s": s, "inp": rng.choice(INP[s])})
        elif k < 0.60:
            acts.append({"a": "finishP", "ok": rng.random() < 0.8})
        elif k < 0.68:
            acts.append({"a": "pendP"})
        elif k < 0.80:
            acts.append({"a": "start", "s": rng.choice(["A", "B"])})
        elif k < 0.90:
            acts.append({"a": rng.choice(["succeed", "succeed", "fail"]), "s": rng.choice(["A", "B"])})
        else:
            acts.append({"a": "clean"})
    return acts


def structured_actions(rng):
    """Build / plan-edit cycles in a plausible order, perturbed by swaps, drops and insertions."""
    seq = []
    for _ in range(rng.choice([2, 3])):
        ia, ib = rng.choice(INP["A"] + [None]), rng.choice(INP["B"] + [None])
        cyc = [{"a": "startP"}] + ([{"a": "static"}] if rng.random() < 0.75 else [])
        if ia is not None:
            cyc.append({"a": "define", "s": "A", "inp": ia})
        if ib is not None:
            cyc.append({"a": "define", "s": "B", "inp": ib})
        cyc.append({"a": "finishP", "ok": rng.random() < 0.85})
        for s_ in ("A", "B"):
            cyc.append({"a": "start", "s": s_})
            cyc.append({"a": "succeed" if rng.random() < 0.8 else "fail", "s": s_})
        if rng.random() < 0.5:
            # a child runs while the plan is still running
            i = next(j for j, x in enumerate(cyc) if x["a"] == "finishP")
            cyc.insert(rng.randrange(i, len(cyc)), cyc.pop(i))
        if rng.random() < 0.7:
            cyc.append({"a": "clean"})
        cyc.append({"a": "pendP"})
        seq += cyc
    for _ in range(rng.choice([0, 1, 2, 3])):
        k = rng.random()
        i = rng.randrange(len(seq))
        if k < 0.4 and i + 1 < len(seq):
            seq[i], seq[i + 1] = seq[i + 1], seq[i]
        elif k < 0.7:
            seq.pop(i)
        else:
            seq.insert(i, random_actions(rng, 1)[0])
    return seq


def scripted():
    """A full build followed by typical plan edits."""
    build = [{"a": "startP"}, {"a": "static"}, {"a": "define", "s": "A", "inp": ["x"]}, {"a": "define", "s": "B", "inp": ["oa"]},
             {"a": "finishP", "ok": True}, {"a": "start", "s": "A"}, {"a": "succeed", "s": "A"}, {"a": "start", "s": "B"},
             {"a": "succeed", "s": "B"}, {"a": "clean"}]
    edits = []
    decls = [[{"a": "static"}], []]
    for st in decls:
        for ia in INP["A"] + [None]:
            for ib in INP["B"] + [None]:
                e = [{"a": "pendP"}, {"a": "startP"}] + st
                if ia is not None:
                    e.append({"a": "define", "s": "A", "inp": ia})
                if ib is not None:
                    e.append({"a": "define", "s": "B", "inp": ib})
                e += [{"a": "finishP", "ok": True}, {"a": "clean"}, {"a": "start", "s": "A"}, {"a": "succeed", "s": "A"},
                      {"a": "start", "s": "B"}, {"a": "succeed", "s": "B"}, {"a": "clean"}]
                edits.append(build + e)
    # children that failed or never ran when the plan is executed again
    base0 = [{"a": "startP"}, {"a": "static"}, {"a": "define", "s": "A", "inp": ["x"]}, {"a": "define", "s": "B", "inp": ["oa"]},
             {"a": "finishP", "ok": True}]
    for mid in ([{"a": "start", "s": "A"}, {"a": "fail", "s": "A"}],
                [{"a": "start", "s": "A"}, {"a": "succeed", "s": "A"}, {"a": "start", "s": "B"}, {"a": "fail", "s": "B"}],
                [{"a": "start", "s": "A"}],
                []):
        for redo in ([{"a": "static"}, {"a": "define", "s": "A", "inp": ["x"]}, {"a": "define", "s": "B", "inp": ["oa"]}],
                     [{"a": "define", "s": "A", "inp": ["x"]}, {"a": "define", "s": "B", "inp": ["oa"]}],
                     [{"a": "static"}, {"a": "define", "s": "B", "inp": ["oa"]}],
                     [{"a": "static"}, {"a": "define", "s": "A", "inp": []}, {"a": "define", "s": "B", "inp": ["oa", "x"]}]):
            for okp in (True, False):
                edits.append(base0 + mid + [{"a": "pendP"}, {"a": "startP"}] + redo + [{"a": "finishP", "ok": okp}, {"a": "clean"},
                             {"a": "succeed", "s": "A"}, {"a": "start", "s": "A"}, {"a": "succeed", "s": "A"}, {"a": "start", "s": "B"},
                             {"a": "succeed", "s": "B"}, {"a": "clean"}])
    # the creator re-defines a step while its job is in flight (F25)
    for newinp in ([], ["x"]):
        for tail in ([{"a": "succeed", "s": "A"}, {"a": "start", "s": "A"}, {"a": "succeed", "s": "A"}],
                     [{"a": "start", "s": "A"}, {"a": "succeed", "s": "A"}, {"a": "succeed", "s": "A"}],
                     [{"a": "finishP", "ok": True}, {"a": "succeed", "s": "A"}, {"a": "clean"}, {"a": "start", "s": "A"}, {"a": "succeed", "s": "A"}]):
            edits.append([{"a": "startP"}, {"a": "static"}, {"a": "define", "s": "A", "inp": ["x"] if not newinp else []},
                          {"a": "finishP", "ok": True}, {"a": "start", "s": "A"}, {"a": "pendP"}, {"a": "startP"}, {"a": "static"},
                          {"a": "define", "s": "A", "inp": newinp}] + tail)
    return edits


async def execute(acts, enabled):
    from stepup.core.enums import HashUpdateCause, Need, StepState
    from stepup.core.file import File
    from stepup.core.hash import FileHash, StepHash
    from stepup.core.sqlite3 import DBSession
    from stepup.core.step import Step
    from stepup.core.workflow import Workflow

    counter = itertools.count(1)

    def fake():
        k = next(counter)
        return FileHash(bytes([k % 256]) * 32, 0o100644, float(k), 3, k)

    with DBSession.open(":memory:") as db:
        wf = Workflow(db, dir_queue=None)
        await wf.initialize()
        async with db:
            wf.declare_static_files(wf.root, ["plan.py"])
            wf.define_step(wf.root, "P", inp_paths=["plan.py"], need=Need.PLAN)
            wf.update_file_hashes({"plan.py": fake()}, cause=HashUpdateCause.CONFIRMED)
            plan = wf.find(Step, "P")

        def snapshot():
            rows = {r[1]: r for r in db.execute(
                "SELECT node.i, node.label, node.kind, node.detached, c.label FROM node LEFT JOIN node AS c ON node.creator = c.i")}
            res = {}
            for k in ("A", "B", "x", "oa", "ob"):
                r = rows.get(k)
                if r is None:
                    res[k] = {"ex": False, "det": False, "cr": "NULL", "st": "NONE", "hash": False, "inp": []}
                    continue
                i, label, kind, det, cr = r
                if kind == "step":
                    step = Step(wf, i, label)
                    inp = sorted(row[0] for row in db.execute(
                        "SELECT n.label FROM dependency d JOIN node n ON n.i = d.source WHERE d.sink = ? AND n.kind = 'file'", (i,)))
                    res[k] = {"ex": True, "det": bool(det), "cr": cr or "NULL", "st": step.get_state().name,
                              "hash": step.get_hash() is not None, "inp": inp}
                else:
                    res[k] = {"ex": True, "det": bool(det), "cr": cr or "NULL", "st": File(wf, i, label).get_state().name, "hash": False, "inp": []}
            p = Step(wf, plan.i, "P")
            return {"p": {"st": p.get_state().name, "hash": p.get_hash() is not None}, "n": res}

        states = []
        for a, en in zip(acts, enabled):
            if en:
                try:
                    async with db:
                        if a["a"] == "startP":
                            plan.set_state(StepState.RUNNING)
                            plan.reset_for_rerun()
                        elif a["a"] == "static":
                            wf.declare_static_files(plan, ["x"])
                            wf.update_file_hashes({"x": fake()}, cause=HashUpdateCause.CONFIRMED)
                        elif a["a"] == "define":
                            wf.define_step(plan, a["s"], inp_paths=list(a["inp"]), out_paths=[OUT[a["s"]]])
                        elif a["a"] == "finishP":
                            plan.mark_completed(StepHash(b"p" * 32, None, b"q" * 32, None) if a["ok"] else None, False)
                        elif a["a"] == "pendP":
                            wf.mark_step_pending(plan)
                        elif a["a"] == "start":
                            step = wf.find(Step, a["s"])
                            step.set_state(StepState.RUNNING)
                            step.reset_for_rerun()
                        elif a["a"] == "succeed":
                            step = wf.find(Step, a["s"], include_detached=True) if False else None
                            row = db.execute("SELECT i FROM node WHERE kind='step' AND label=?", (a["s"],)).fetchone()
                            step = Step(wf, row[0], a["s"])
                            wf.update_file_hashes({OUT[a["s"]]: fake()}, cause=HashUpdateCause.SUCCEEDED)
                            step.mark_completed(StepHash(b"i" * 32, None, b"o" * 32, None), False)
                        elif a["a"] == "fail":
                            row = db.execute("SELECT i FROM node WHERE kind='step' AND label=?", (a["s"],)).fetchone()
                            step = Step(wf, row[0], a["s"])
                            wf.update_file_hashes({OUT[a["s"]]: FileHash.unknown()}, cause=HashUpdateCause.FAILED)
                            step.mark_completed(None, False)
                        elif a["a"] == "clean":
                            wf.delete_detached()
                except Exception as exc:  # noqa: BLE001
                    states.append({"error": f"{type(exc).__name__}: {exc}"})
                    break
            async with db:
                states.append(snapshot())
    return states


def norm(e):
    """Specification state in the shape of the snapshot."""
    n = {}
    for k, v in e["n"].items():
        n[k] = {"ex": bool(v["ex"]), "det": bool(v["det"]), "cr": v["cr"], "st": v["st"],
                "hash": bool(v["hash"]) if k in ("A", "B") else False,
                "inp": sorted(v["inp"]) if isinstance(v["inp"], list) else []}
        if not n[k]["ex"]:
            n[k] = {"ex": False, "det": False, "cr": "NULL", "st": "NONE", "hash": False, "inp": []}
    return {"p": {"st": e["p"]["st"], "hash": bool(e["p"]["hash"])}, "n": n}


def run(report, tier: str, seed: int, prop: str, verbose=False) -> dict:
    stats = {"states": 0, "sequences": 0, "actions": 0}
    # model mode: ownership, BUILT <=> SUCCEEDED, completeness of a finished build (up to F15)
    rc, out, secs = tlc.run_tlc("Recycle.tla", "RecycleModel.cfg", workers=8, timeout=1800)
    m = re.search(r"(\d+) states generated, (\d+) distinct states found", out)
    if "No error has been found" not in out:
        inv = re.search(r"Invariant (\w+) is violated", out)
        if inv:
            report.add_violation("recycle_model_" + inv.group(1), "spec/Recycle.tla", {"tlc_tail": out[-3000:]}, tid="recycle-model")
        else:
            report.machinery("Recycle.tla model check did not complete:\n" + out[-2000:])
    stats["states"] += int(m.group(2)) if m else 0
    rc, out, secs = tlc.run_tlc("Recycle.tla", "RecycleModelStrict.cfg", workers=8, timeout=1800)
    stats["strict_invariant_violated_in_model"] = "Invariant DoneMeansInputsDeclared is violated" in out
    rc, out, secs = tlc.run_tlc("Recycle.tla", "RecycleModelF25.cfg", workers=8, timeout=1800)
    stats["f25_found_by_model"] = bool(re.search(r"Invariant (OneJobPerStep|DirectorSurvives) is violated", out))
    rng = random.Random(seed * 37 + 11)
    cases = scripted() if tier == "thorough" else rng.sample(scripted(), 40)
    for _ in range({"quick": 150, "thorough": 3000}[tier]):
        cases.append(random_actions(rng, rng.choice([10, 16, 24])) if rng.random() < 0.3 else structured_actions(rng))
    lines = [{"id": i, "acts": acts} for i, acts in enumerate(cases)]
    work = tlc.scratch_dir("vrc-")
    from concurrent.futures import ThreadPoolExecutor

    chunks = [lines[i::10] for i in range(10) if lines[i::10]]

    def one(ic):
        i, chunk = ic
        tf, vf = os.path.join(work, f"in{i}.ndjson"), os.path.join(work, f"out{i}.json")
        with open(tf, "w") as fh:
            for line in chunk:
                fh.write(json.dumps(line, separators=(",", ":")) + "\n")
        rc_, o, s_ = tlc.run_tlc("Recycle.tla", "Recycle.cfg", env={"TRACE_FILE": tf, "VERDICT_FILE": vf}, workers=1, timeout=1800)
        if not os.path.exists(vf) or "Error:" in o:
            raise tlc.TLCFailure(f"Recycle replay batch {i} failed:\n{o[-3000:]}")
        with open(vf) as fh:
            res = json.load(fh)
        if res["n"] != len(chunk):
            raise tlc.TLCFailure(f"TLC consumed {res['n']} of {len(chunk)} sequences")
        mm = re.search(r"(\d+) states generated, (\d+) distinct states found", o)
        return res["vectors"], int(mm.group(2)) if mm else 0

    expected = {}
    try:
        with ThreadPoolExecutor(max_workers=10) as ex:
            for vecs, st in ex.map(one, enumerate(chunks)):
                stats["states"] += st
                for v in vecs:
                    expected[v["id"]] = v["states"] if isinstance(v["states"], list) else []
    except tlc.TLCFailure as exc:
        report.machinery(str(exc)[:3000])
        return stats
    finally:
        shutil.rmtree(work, ignore_errors=True)
    nbad = 0
    for i, acts in enumerate(cases):
        exp = expected[i]
        enabled = [bool(e["enabled"]) for e in exp]
        got = asyncio.run(execute(acts, enabled))
        stats["sequences"] += 1
        stats["actions"] += sum(enabled)
        for k, (e, gst) in enumerate(zip(exp, got)):
            want = norm(e)
            if e.get("crash"):
                # the specification says this action kills the director (second completion, F25)
                if "error" in gst and "ConsistencyError" in gst["error"]:
                    stats["crashes_agreed"] = stats.get("crashes_agreed", 0) + 1
                    break
                gst = {"error": "specification expects ConsistencyError, code went on"} if "error" not in gst else gst
            if "error" in gst or gst != want:
                nbad += 1
                diff = {"error": gst["error"]} if "error" in gst else \
                    {kk: {"code": gst["n"][kk], "spec": want["n"][kk]} for kk in want["n"] if gst["n"][kk] != want["n"][kk]}
                if "error" not in gst and gst["p"] != want["p"]:
                    diff["P"] = {"code": gst["p"], "spec": want["p"]}
                if nbad <= 8:
                    report.add_violation(
                        "plan_reexecution_differs_from_specification",
                        json.dumps({"action": acts[k], "index": k, "diff": diff, "prefix": [a for a, en in zip(acts[:k], enabled[:k]) if en][-8:]}, sort_keys=True)[:1500],
                        {"acts": acts, "enabled": enabled}, tid=f"rc{i}")
                break
    return stats


if __name__ == "__main__":
    from checks.common import Report, parse_args
    from harness.runner import Scratch

    a = parse_args()
    rep = Report("C01", a.tier, a.seed)
    with Scratch():
        print(run(rep, a.tier, a.seed, "C01"))
    for v in rep.violations[:6]:
        print(v["clause"], v["subj"][:1500])
        print()
    for mm in rep.machinery_errors:
        print("MACHINERY", mm[:2000])
