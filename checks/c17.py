"""C17: named glob matching is consistent with the file system and with itself.

1. spec/NGlobModel.tla is model checked: maintaining a recorded match set from accumulated
   added/deleted paths (Watcher.record_change + NamedGlob.will_change) equals a fresh scan after
   every flush; a repeated name stands for one string; a named wildcard accepts what `*` accepts.
2. spec/NGlob.tla (semantics in spec/NGlobSem.tla) evaluates, for every pattern of an enumerated
   and a seeded random pattern set, which paths of a universe it accepts (each path as a file and
   as a directory) and under which bindings of its names.
3. This harness replays the vectors into the real code on real directory trees:
     recorded      NamedGlob.glob() + files()             == accepted paths that exist
     matcher       regex acceptance of every existing path == recorded set
     standard      glob.glob(recursive, include_hidden) of the anonymised pattern == recorded
                   (patterns without repeated names)
     named         the pattern with `*` replaced by fresh names records the same paths
     binding       the key under which a path is recorded is one of the specification's bindings
     incremental   will_change() along random event batches == fresh scan == specification

usage: python -m checks.c17 --tier quick
"""

from __future__ import annotations

import glob as pyglob
import itertools
import json
import os
import random
import shutil
import sys
import tempfile

sys.path.insert(0, os.path.dirname(os.path.dirname(os.path.abspath(__file__))))

from checks.common import Report, parse_args  # noqa: E402
from harness import tlc  # noqa: E402
from harness.runner import Scratch, pmap  # noqa: E402

NAMES = ["a", "b", "ab", ".a", "b.a"]
UNIVERSE = [[n] for n in NAMES] + [[n, m] for n in NAMES for m in NAMES] + \
           [[n, m, k] for n in ["a", "b", ".a"] for m in ["a", "ab", ".a"] for k in NAMES]


# ---------------------------------------------------------------------------------------------
# patterns
# ---------------------------------------------------------------------------------------------

def lit(c):
    return {"t": "lit", "c": c}


STAR = {"t": "star"}
Q = {"t": "q"}


def cls(text, chars, neg=False):
    return {"t": "cls", "cs": chars, "neg": neg, "text": text}


def name(n):
    return {"t": "name", "n": n}


CLASSES = [cls("[ab]", "ab"), cls("[!a]", "a", True), cls("[a-b]", "ab"), cls("[.a]", ".a"), cls("[!.]", ".", True)]


def render_tok(t):
    return {"lit": lambda: t["c"], "star": lambda: "*", "q": lambda: "?", "cls": lambda: t["text"],
            "name": lambda: "${*%s}" % t["n"]}[t["t"]]()


def render(pat):
    comps = ["**" if c["d"] else "".join(render_tok(t) for t in c["toks"]) for c in pat["comps"]]
    return "/".join(comps) + ("/" if pat["tslash"] else "")


def render_subs(pat):
    return {n: "".join(render_tok(t) for t in toks) for n, toks in pat["subs"]}


def names_of(pat):
    return [t["n"] for c in pat["comps"] if not c["d"] for t in c["toks"] if t["t"] == "name"]


def collapse(toks):
    """Merge adjacent `*` (a component written `**` would be the recursive wildcard)."""
    res = []
    for t in toks:
        if t["t"] == "star" and res and res[-1]["t"] == "star":
            continue
        res.append(t)
    return res


def well_formed(pat):
    for c in pat["comps"]:
        if c["d"]:
            continue
        text = "".join(render_tok(t) for t in c["toks"])
        if text in (".", "..") or "**" in text:
            return False
    return True


def anonymised(pat):
    """The same pattern with every name replaced by its substitution (default `*`)."""
    subs = dict((n, toks) for n, toks in pat["subs"])
    comps = []
    for c in pat["comps"]:
        if c["d"]:
            comps.append(c)
        else:
            toks = []
            for t in c["toks"]:
                toks.extend(subs.get(t["n"], [STAR]) if t["t"] == "name" else [t])
            comps.append({"d": False, "toks": collapse(toks)})
    return {"comps": comps, "subs": [], "tslash": pat["tslash"]}


def named_variant(pat, rng):
    """Replace some anonymous `*` by fresh names (no substitution)."""
    k = 0
    comps = []
    for c in pat["comps"]:
        if c["d"]:
            comps.append(c)
            continue
        toks = []
        for t in c["toks"]:
            if t["t"] == "star" and rng.random() < 0.7:
                k += 1
                toks.append(name(f"n{k}"))
            else:
                toks.append(t)
        comps.append({"d": False, "toks": toks})
    return {"comps": comps, "subs": list(pat["subs"]), "tslash": pat["tslash"]}, k


def tls_json(pat, pid, bind):
    def tok(t):
        return {k: v for k, v in t.items() if k != "text"}
    return {"id": pid,
            "comps": [{"d": True} if c["d"] else {"d": False, "toks": [tok(t) for t in c["toks"]]} for c in pat["comps"]],
            "subs": [[n, [tok(t) for t in toks]] for n, toks in pat["subs"]],
            "tslash": pat["tslash"], "bind": bool(bind)}


def has_negcls(pat):
    toks = [t for c in pat["comps"] if not c["d"] for t in c["toks"]] + [t for _, ts in pat["subs"] for t in ts]
    return any(t["t"] == "cls" and t["neg"] for t in toks)


def enumerated_patterns():
    """Every pattern of at most 2 components with at most 2 tokens from a small token set."""
    toks = [lit("a"), lit("."), STAR, Q, name("x"), name("y")]
    comp_opts = [{"d": True}] + [{"d": False, "toks": [t]} for t in toks] + \
                [{"d": False, "toks": [t, u]} for t in toks for u in toks]
    pats = []
    for n in (1, 2):
        for comps in itertools.product(comp_opts, repeat=n):
            for ts in (False, True):
                if n == 2 and ts and not (comps[0]["d"] or comps[1]["d"]):
                    continue  # keep the enumeration small: closed patterns mainly around **
                pats.append({"comps": list(comps), "subs": [], "tslash": ts})
    return [p for p in pats if well_formed(p)]


def random_pattern(rng):
    while True:
        pat = _random_pattern(rng)
        if well_formed(pat):
            return pat


def _random_pattern(rng):
    ncomp = rng.choice([1, 2, 2, 3, 3, 4])
    pool = [lit("a"), lit("b"), lit("."), STAR, STAR, Q, name("x"), name("x"), name("y"), name("z")] + CLASSES
    comps = []
    for i in range(ncomp):
        if rng.random() < 0.18 and not (comps and comps[-1]["d"]):
            comps.append({"d": True})
        else:
            comps.append({"d": False, "toks": [rng.choice(pool) for _ in range(rng.choice([1, 1, 2, 2, 3]))]})
    used = sorted(set(t["n"] for c in comps if not c["d"] for t in c["toks"] if t["t"] == "name"))
    subs = []
    sub_pool = [[Q], [Q, STAR], [lit("a"), STAR], [STAR, lit("a")], [CLASSES[0]], [lit("."), STAR], [STAR, lit("."), STAR],
                [CLASSES[1], STAR], [lit("a")], [Q, Q], [STAR], [STAR]]
    for n in used:
        if rng.random() < 0.35:
            subs.append([n, rng.choice(sub_pool)])
    return {"comps": comps, "subs": subs, "tslash": rng.random() < 0.2}


# ---------------------------------------------------------------------------------------------
# trees
# ---------------------------------------------------------------------------------------------

def random_tree(rng):
    """A prefix-closed assignment path -> 'file' | 'dir' over (part of) the universe."""
    tree = {}
    dens = rng.choice([0.3, 0.55, 0.8])
    for p in sorted(UNIVERSE, key=len):
        if len(p) > 1 and tree.get(tuple(p[:-1])) != "dir":
            continue
        if rng.random() < dens:
            tree[tuple(p)] = "dir" if rng.random() < (0.55 if len(p) < 3 else 0.25) else "file"
    return tree


def materialise(root, tree):
    for p, kind in sorted(tree.items(), key=lambda kv: len(kv[0])):
        full = os.path.join(root, *p)
        if kind == "dir":
            os.makedirs(full, exist_ok=True)
        else:
            with open(full, "w") as fh:
                fh.write("x")


def show(p, kind):
    return "/".join(p) + ("/" if kind == "dir" else "")


UIDX = {tuple(p): i + 1 for i, p in enumerate(UNIVERSE)}


def expected_set(acc, tree):
    res = set()
    for p, kind in tree.items():
        j = UIDX[p]
        if (2 * j - (1 if kind == "file" else 0)) in acc:
            res.add(show(p, kind))
    return res


# ---------------------------------------------------------------------------------------------
# execution against the real code
# ---------------------------------------------------------------------------------------------

def scan(pattern, subs):
    from stepup.core.nglob import NamedGlob

    ng = NamedGlob(pattern, dict(subs))
    ng.glob()
    return ng


def entries(tree):
    """{shown path: index in the specification's vectors} of a tree."""
    res = {}
    for p, kind in tree.items():
        j = UIDX[p]
        res[show(p, kind)] = 2 * j - (1 if kind == "file" else 0)
    return res


def exec_case(case):
    rng = random.Random(case["seed"])
    out = {"id": case["id"], "bad": [], "n": 0, "nontrivial": 0, "f18": 0, "f19": 0, "f20": 0}
    pattern, subs = case["pattern"], case["subs"]
    acc, pre, am, etail = (set(case[k]) for k in ("acc", "pre", "am", "etail"))
    bind = {int(k): v for k, v in case.get("bind", [])}
    base = tempfile.mkdtemp(prefix="c17-", dir=os.environ.get("VERIF_SCRATCH"))
    old = os.getcwd()

    def bad(clause, subj, tree):
        out["bad"].append({"clause": clause, "subj": subj, "tree": sorted(show(p, k) for p, k in tree.items())})

    def classify(ent, recorded, where, tree):
        """Differences between the meaning of the pattern and what is recorded / accepted."""
        ideal = {s for s, i in ent.items() if i in acc}
        missing, extra = ideal - recorded, recorded - ideal
        if missing:
            if all(m.endswith("/") for m in missing) and not case["dirok"]:
                out["f18"] += 1
            else:
                bad(f"{where}_misses_paths_the_pattern_means", {"missing": sorted(missing)[:6]}, tree)
        if extra:
            if all(x.endswith("/") and ent.get(x) in etail for x in extra):
                out["f19"] += 1
            elif case["negcls"]:
                out["f20"] += 1
            else:
                bad(f"{where}_has_paths_the_pattern_does_not_mean", {"extra": sorted(extra)[:6]}, tree)

    try:
        for ti in range(case["ntrees"]):
            tree = random_tree(rng)
            root = os.path.join(base, f"t{ti}")
            os.makedirs(root)
            materialise(root, tree)
            os.chdir(root)
            ent = entries(tree)
            ideal = {s for s, i in ent.items() if i in acc}
            out["n"] += 1
            out["nontrivial"] += 1 if ideal and len(ideal) < len(tree) else 0
            try:
                ng = scan(pattern, subs)
            except Exception as exc:  # noqa: BLE001
                bad("pattern_rejected", f"{type(exc).__name__}: {exc}", tree)
                break
            got = {str(p) for p in ng.files()}
            # 1. the matcher of the implementation is the matcher of the specification (as built)
            by_regex = {s for s in ent if ng._match_values(s) is not None}
            by_spec = {s for s, i in ent.items() if i in am}
            if by_regex != by_spec:
                bad("matcher_differs_from_specification",
                    {"code_only": sorted(by_regex - by_spec)[:6], "spec_only": sorted(by_spec - by_regex)[:6]}, tree)
            # 2. the standard recursive glob of the anonymised pattern is the specification's meaning
            std = set()
            for m in pyglob.glob(case["anon"], recursive=True, include_hidden=True):
                # Python returns "x/" for `x/**` whatever x is (absent, a file): not an existing path
                if m.endswith("/") and not os.path.isdir(m):
                    continue
                m = m.rstrip("/")
                if m and os.path.lexists(m):
                    std.add(m + ("/" if os.path.isdir(m) else ""))
            pre_set = {s for s, i in ent.items() if i in pre}
            if std != pre_set:
                bad("standard_glob_differs_from_specification",
                    {"glob_only": sorted(std - pre_set)[:6], "spec_only": sorted(pre_set - std)[:6], "glob_pattern": case["anon"]}, tree)
            # 3. recorded = existing paths of the scan that the matcher accepts
            want = pre_set & by_spec
            if got != want:
                bad("recorded_set_differs_from_specification",
                    {"missing": sorted(want - got)[:6], "extra": sorted(got - want)[:6]}, tree)
            if not set(got) <= set(ent):
                bad("recorded_path_does_not_exist", {"paths": sorted(set(got) - set(ent))[:6]}, tree)
            # 4. meaning versus recorded set, and versus everything the matcher accepts
            classify(ent, got, "recorded_set", tree)
            classify(ent, by_regex | got, "matcher", tree)
            # 5. replacing `*` by names
            if case.get("named"):
                try:
                    got2 = {str(p) for p in scan(case["named"], subs).files()}
                except Exception as exc:  # noqa: BLE001
                    got2 = {f"<{type(exc).__name__}: {exc}>"}
                if got2 != got:
                    bad("named_wildcard_changes_matches",
                        {"named_pattern": case["named"], "named_only": sorted(got2 - got)[:6], "anonymous_only": sorted(got - got2)[:6]}, tree)
            # 6. bindings
            if bind:
                used = sorted(set(case["names"]))
                for values, paths in ng.results.items():
                    pairs = sorted([n, v] for n, v in zip(used, values))
                    for p in paths:
                        idx = ent.get(str(p))
                        if idx is None:
                            continue
                        allowed = [sorted(map(list, e)) for e in bind.get(idx, [])]
                        if pairs not in allowed:
                            bad("binding_not_allowed_by_specification", {"path": str(p), "binding": pairs, "allowed": allowed[:4]}, tree)
            # 7. incremental maintenance along event batches
            cur = dict(tree)
            rec = set(got)
            for _ in range(case["nbatches"]):
                added, deleted = set(), set()
                for _ in range(rng.choice([1, 2, 3, 4])):
                    if rng.random() < 0.5:
                        cands = [p for p in map(tuple, UNIVERSE) if p not in cur and (len(p) == 1 or cur.get(p[:-1]) == "dir")]
                        if not cands:
                            continue
                        p = rng.choice(cands)
                        kind = rng.choice(["file", "file", "dir"])
                        cur[p] = kind
                        full = os.path.join(root, *p)
                        if kind == "dir":
                            os.mkdir(full)
                        else:
                            open(full, "w").close()
                        added.add(show(p, kind))
                        deleted.discard(show(p, kind))
                    else:
                        cands = [p for p in cur if not any(q[: len(p)] == p and len(q) > len(p) for q in cur)]
                        if not cands:
                            continue
                        p = rng.choice(cands)
                        kind = cur.pop(p)
                        full = os.path.join(root, *p)
                        if kind == "dir":
                            os.rmdir(full)
                        else:
                            os.unlink(full)
                        deleted.add(show(p, kind))
                        added.discard(show(p, kind))
                ent2 = entries(cur)
                all_idx = {**{show(tuple(p), "file"): 2 * (i + 1) - 1 for i, p in enumerate(UNIVERSE)},
                           **{show(tuple(p), "dir"): 2 * (i + 1) for i, p in enumerate(UNIVERSE)}}
                # the specification of will_change: extend by the accepted added paths, then reduce
                rec = (rec | {a for a in added if all_idx[a] in am}) - deleted
                evolved = ng.will_change(deleted, added)
                if evolved is not None:
                    ng = evolved
                inc = {str(p) for p in ng.files()}
                if inc != rec:
                    bad("incremental_update_differs_from_specification",
                        {"added": sorted(added), "deleted": sorted(deleted), "code_only": sorted(inc - rec)[:6], "spec_only": sorted(rec - inc)[:6]}, cur)
                    break
                fresh = {str(p) for p in scan(pattern, subs).files()}
                if inc != fresh:
                    # explained only by paths that the matcher accepts and a scan never returns
                    pre2 = {s for s, i in ent2.items() if i in pre}
                    if (fresh - inc) or not all(all_idx[x] in am and x not in pre2 for x in inc - fresh):
                        bad("incremental_update_differs_from_rescan",
                            {"added": sorted(added), "deleted": sorted(deleted), "incremental_only": sorted(inc - fresh)[:6], "rescan_only": sorted(fresh - inc)[:6]}, cur)
                        break
                    classify(ent2, inc, "incremental_update", cur)
            os.chdir(old)
    finally:
        os.chdir(old)
        shutil.rmtree(base, ignore_errors=True)
    return out


async def _director_case(case, tree, root, rng, out, bad):
    """api.glob -> director.register_glob -> process_nglob_changes -> rescan_nglobs on a real Workflow."""
    from stepup.core import api
    from stepup.core.director import DirectorHandler
    from stepup.core.enums import Need
    from stepup.core.sqlite3 import DBSession
    from stepup.core.startup import rescan_nglobs
    from stepup.core.step import Step
    from stepup.core.workflow import Workflow

    pre, am = set(case["pre"]), set(case["am"])
    all_idx = {**{show(tuple(p), "file"): 2 * (i + 1) - 1 for i, p in enumerate(UNIVERSE)},
               **{show(tuple(p), "dir"): 2 * (i + 1) for i, p in enumerate(UNIVERSE)}}

    def spec_scan(tr):
        return {s for s, i in entries(tr).items() if i in pre and i in am}

    captured = []

    class _Call:
        def __getattr__(self, name):
            def f(*a, **k):
                captured.append((name, a, k))
            return f

    class _Client:
        call = _Call()

    class _Sched:
        def __init__(self, step):
            self.step = step

        def get_job_step(self, job_i):
            return self.step

    class _Self:
        pass

    async def reporter(*a, **k):
        return None

    with DBSession.open(":memory:") as db:
        wf = Workflow(db, dir_queue=None)
        await wf.initialize()
        async with db:
            wf.declare_static_files(wf.root, ["plan.py"])
            wf.define_step(wf.root, "./plan.py", inp_paths=["plan.py"], need=Need.PLAN)
            plan = wf.find(Step, "./plan.py")
        real_get = api.get_rpc_client
        api.get_rpc_client = lambda path=None: _Client()
        os.environ["STEPUP_ROOT"] = root
        os.environ["HERE"] = "."
        try:
            api.glob(case["pattern"], **case["subs"])
        except Exception as exc:  # noqa: BLE001
            bad("api_glob_failed", f"{type(exc).__name__}: {exc}", tree)
            return
        finally:
            api.get_rpc_client = real_get
        name, a, _ = captured[-1]
        me = _Self()
        me.db, me.workflow, me.scheduler = db, wf, _Sched(plan)
        try:
            await DirectorHandler.register_glob(me, *a)
        except Exception as exc:  # noqa: BLE001
            bad("register_glob_failed", f"{type(exc).__name__}: {exc}", tree)
            return

        async def recorded():
            async with db:
                regs = list(wf.nglob_registrations())
            return {str(p) for _, ng, _ in regs for p in ng.files()}

        want = spec_scan(tree)
        got = await recorded()
        if got != want:
            bad("director_records_other_matches_than_specification", {"stage": "register_glob", "missing": sorted(want - got)[:6], "extra": sorted(got - want)[:6]}, tree)
            return
        # the relevance test of the watcher
        async with db:
            rel = {s for s in all_idx if wf.matches_any_glob(s)}
        rel_spec = {s for s, i in all_idx.items() if i in am}
        if rel != rel_spec:
            bad("matches_any_glob_differs_from_specification", {"code_only": sorted(rel - rel_spec)[:6], "spec_only": sorted(rel_spec - rel)[:6]}, tree)
        # a batch of changes through the watch route, then a restart scan
        cur = dict(tree)
        rec = set(got)
        for route in ("watch", "restart", "watch", "restart"):
            added, deleted = set(), set()
            for _ in range(rng.choice([1, 2, 3])):
                if rng.random() < 0.5:
                    cands = [p for p in map(tuple, UNIVERSE) if p not in cur and (len(p) == 1 or cur.get(p[:-1]) == "dir")]
                    if not cands:
                        continue
                    p = rng.choice(cands)
                    kind = rng.choice(["file", "file", "dir"])
                    cur[p] = kind
                    full = os.path.join(root, *p)
                    os.mkdir(full) if kind == "dir" else open(full, "w").close()
                    added.add(show(p, kind)); deleted.discard(show(p, kind))
                else:
                    cands = [p for p in cur if not any(q[: len(p)] == p and len(q) > len(p) for q in cur)]
                    if not cands:
                        continue
                    p = rng.choice(cands)
                    kind = cur.pop(p)
                    full = os.path.join(root, *p)
                    os.rmdir(full) if kind == "dir" else os.unlink(full)
                    deleted.add(show(p, kind)); added.discard(show(p, kind))
            if route == "watch":
                # the watcher only forwards paths that pass the relevance test
                upd = {x for x in added if all_idx[x] in am}
                dele = {x for x in deleted if all_idx[x] in am}
                async with db:
                    wf.process_nglob_changes(dele, upd)
                rec = (rec | upd) - dele
            else:
                await rescan_nglobs(wf, reporter)
                rec = spec_scan(cur)
            got = await recorded()
            if got != rec:
                bad("director_records_other_matches_than_specification",
                    {"stage": route, "added": sorted(added), "deleted": sorted(deleted), "missing": sorted(rec - got)[:6], "extra": sorted(got - rec)[:6]}, cur)
                return
        out["director"] = out.get("director", 0) + 1


def exec_director_case(case):
    import asyncio

    rng = random.Random(case["seed"] + 77)
    out = {"id": case["id"], "bad": [], "director": 0}
    base = tempfile.mkdtemp(prefix="c17d-", dir=os.environ.get("VERIF_SCRATCH"))
    old = os.getcwd()
    old_env = dict(os.environ)

    def bad(clause, subj, tree):
        out["bad"].append({"clause": clause, "subj": subj, "tree": sorted(show(p, k) for p, k in tree.items())})

    try:
        for ti in range(2):
            tree = random_tree(rng)
            root = os.path.join(base, f"t{ti}")
            os.makedirs(root)
            materialise(root, tree)
            os.chdir(root)
            asyncio.run(_director_case(case, tree, root, rng, out, bad))
            os.chdir(old)
    finally:
        os.chdir(old)
        os.environ.clear()
        os.environ.update(old_env)
        shutil.rmtree(base, ignore_errors=True)
    return out


# ---------------------------------------------------------------------------------------------
# main
# ---------------------------------------------------------------------------------------------

def tlc_vectors(pats, parallel=14):
    """Evaluate the specification on every pattern; returns {id: (acc, bind)} and TLC statistics."""
    import re
    from concurrent.futures import ThreadPoolExecutor

    work = tlc.scratch_dir("vglob-")
    chunks = [pats[i::parallel] for i in range(parallel) if pats[i::parallel]]
    stats = {"states": 0, "tlc_s": 0.0}

    def one(ic):
        i, chunk = ic
        tf, vf = os.path.join(work, f"in{i}.ndjson"), os.path.join(work, f"out{i}.json")
        with open(tf, "w") as fh:
            fh.write(json.dumps({"universe": UNIVERSE}) + "\n")
            for line in chunk:
                fh.write(json.dumps(line, separators=(",", ":")) + "\n")
        rc, out, secs = tlc.run_tlc("NGlob.tla", "NGlob.cfg", env={"TRACE_FILE": tf, "VERDICT_FILE": vf}, workers=1, timeout=3000)
        if not os.path.exists(vf) or "Error:" in out:
            raise tlc.TLCFailure(f"NGlob vectors batch {i} failed (rc={rc}):\n{out[-3000:]}")
        with open(vf) as fh:
            res = json.load(fh)
        if res["n"] != len(chunk):
            raise tlc.TLCFailure(f"TLC evaluated {res['n']} of {len(chunk)} patterns")
        m = re.search(r"(\d+) states generated, (\d+) distinct states found", out)
        return res["vectors"], int(m.group(2)) if m else 0, secs

    try:
        with ThreadPoolExecutor(max_workers=parallel) as ex:
            results = list(ex.map(one, enumerate(chunks)))
    finally:
        shutil.rmtree(work, ignore_errors=True)
    vec = {}
    for vectors, states, secs in results:
        stats["states"] += states
        stats["tlc_s"] = max(stats["tlc_s"], secs)
        for v in vectors:
            def lst(x):
                return x if isinstance(x, list) else []
            vec[v["id"]] = {"acc": lst(v["acc"]), "bind": lst(v["bind"]), "pre": lst(v["pre"]), "am": lst(v["am"]),
                            "etail": lst(v["etail"]), "dirok": bool(v["dirok"])}
    return vec, stats


def main(argv=None):
    args = parse_args(argv)
    pid = "C17"
    nrand, ntrees, nbatches, model_cfg = {"quick": (500, 3, 3, "NGlobModelQuick.cfg"), "thorough": (6000, 6, 6, "NGlobModel.cfg")}[args.tier]
    report = Report(pid, args.tier, args.seed)
    report.assumptions.extend([
        "alphabet of names: a, b, ab, .a, b.a (hidden entries, a dot inside a name, a name that is a prefix of another); depth <= 3",
        "pattern tokens: literals a b ., *, ?, classes [ab] [!a] [a-b] [.a] [!.], ** as a whole component, names x y z with and without substitutions (substitutions stay inside one component); trailing separator",
        "no symbolic links; patterns are relative and normalised",
    ])
    with Scratch():
        # 1. the incremental model
        rc, out, secs = tlc.run_tlc("NGlobModel.tla", model_cfg, workers=14, timeout=3000)
        import re
        m = re.search(r"(\d+) states generated, (\d+) distinct states found", out)
        if "No error has been found" not in out or not m:
            if "Invariant" in out and "violated" in out:
                inv = re.search(r"Invariant (\w+) is violated", out)
                report.add_violation("model_invariant_violated", inv.group(1) if inv else "?", {"tlc_tail": out[-2500:]})
            else:
                report.machinery("NGlobModel did not complete:\n" + out[-2500:])
        model_states = int(m.group(2)) if m else 0
        # 2. patterns and vectors
        rng = random.Random(args.seed * 7919 + 17)
        pats = enumerated_patterns() if args.tier == "thorough" else rng.sample(enumerated_patterns(), 400)
        pats += [random_pattern(rng) for _ in range(nrand)]
        lines, cases = [], []
        for i, pat in enumerate(pats):
            nm = names_of(pat)
            line = tls_json(pat, i, bind=bool(nm))
            line["anon"] = tls_json(anonymised(pat), i, bind=False)
            lines.append(line)
        try:
            vec, stats = tlc_vectors(lines)
        except tlc.TLCFailure as exc:
            report.machinery(str(exc)[:3000])
            return report.finish()
        for i, pat in enumerate(pats):
            nm = names_of(pat)
            v = vec[i]
            nv, k = named_variant(pat, rng)
            cases.append({"id": i, "pattern": render(pat), "subs": render_subs(pat), **v, "negcls": has_negcls(pat),
                          "names": nm, "repeated": len(nm) != len(set(nm)), "anon": render(anonymised(pat)),
                          "named": render(nv) if k else None, "ntrees": ntrees, "nbatches": nbatches,
                          "seed": args.seed * 100003 + i})
        results = pmap(exec_case, cases)
        nbad = 0
        ntrees_total = nontrivial = f18 = f19 = f20 = 0
        for (kind, r), case in zip(results, cases):
            if kind == "err":
                report.machinery("harness crashed: " + r[:1500])
                continue
            ntrees_total += r["n"]
            nontrivial += r["nontrivial"]
            f18 += r.get("f18", 0)
            f19 += r.get("f19", 0)
            f20 += r.get("f20", 0)
            for b in r["bad"]:
                nbad += 1
                replay = {k: case[k] for k in ("pattern", "subs", "anon", "named", "seed", "ntrees", "nbatches")}
                replay["tree"] = b["tree"]
                report.add_violation(b["clause"], json.dumps({"pattern": case["pattern"], "subs": case["subs"], **(b["subj"] if isinstance(b["subj"], dict) else {"detail": b["subj"]})}, sort_keys=True)[:600],
                                     replay, tid=f"p{case['id']}")
        # the director side: api.glob -> register_glob -> process_nglob_changes / rescan_nglobs
        dcases = [c for c in cases if c["names"] or "/" in c["pattern"]]
        dcases = dcases if args.tier == "thorough" else rng.sample(dcases, min(len(dcases), 160))
        ndir = 0
        for (kind, r), case in zip(pmap(exec_director_case, dcases), dcases):
            if kind == "err":
                report.machinery("director harness crashed: " + r[:1500])
                continue
            ndir += r["director"]
            for b in r["bad"]:
                replay = {k: case[k] for k in ("pattern", "subs", "seed")}
                replay["tree"] = b["tree"]
                report.add_violation(b["clause"], json.dumps({"pattern": case["pattern"], "subs": case["subs"], **(b["subj"] if isinstance(b["subj"], dict) else {"detail": b["subj"]})}, sort_keys=True)[:600],
                                     replay, tid=f"d{case['id']}")
        report.coverage["director_level_runs"] = ndir
        if f18:
            report.violations.append({"clause": "directory_not_recorded_for_non_star_ending", "subj": f"{f18} (pattern, tree) pairs",
                                      "kf": "F18-directory-dropped-unless-pattern-ends-in-star", "line": 0, "tid": "", "case": None})
        if f19:
            report.violations.append({"clause": "matcher_accepts_directory_with_empty_last_component", "subj": f"{f19} (pattern, tree) pairs",
                                      "kf": "F19-matcher-accepts-empty-last-component", "line": 0, "tid": "", "case": None})
        if f20:
            report.violations.append({"clause": "negated_class_matches_separator", "subj": f"{f20} (pattern, tree) pairs",
                                      "kf": "F20-negated-class-matches-separator", "line": 0, "tid": "", "case": None})
        for c in cases[:2] + cases[-3:]:
            report.sample({"pattern": c["pattern"], "subs": c["subs"], "accepted_universe_entries": len(c["acc"]), "matcher_accepts": len(c["am"])})
        report.coverage.update({
            "states": model_states + stats["states"],
            "transitions": len(lines),
            "traces_validated_against_impl": ntrees_total,
            "evaluations": ntrees_total,
            "distinct_nontrivial": nontrivial,
            "patterns": len(cases),
            "patterns_with_repeated_names": sum(1 for c in cases if c["repeated"]),
            "model_states": model_states,
            "rule": "one evaluation = one (pattern, real directory tree) pair replayed into NamedGlob (scan, matcher, standard glob, named variant, bindings) followed by event batches for will_change; non-trivial = the pattern accepts some but not all entries of the tree",
        })
        if ntrees_total < 100 or nontrivial < 30:
            report.machinery("vacuous run: too few non-trivial (pattern, tree) pairs")
    return report.finish()


if __name__ == "__main__":
    sys.exit(main())
