"""C18: 'under this directory' selects exactly the paths under it.

spec/Prefix.tla defines Under(d, p) on code-point sequences; TLC enumerates a universe of
directories and stored labels (case pairs, LIKE/GLOB metacharacters, escape character, the byte
after '/', non-ASCII), evaluates the definition and emits the expected selection of every
directory.  This harness stores the labels in real workflow databases through the graph API and
executes every selection site of the implementation through the public method that contains it.

usage: python -m checks.c18 --tier quick
"""

from __future__ import annotations

import asyncio
import json
import os
import sys
import time

sys.path.insert(0, os.path.dirname(os.path.dirname(os.path.abspath(__file__))))

from checks.common import Report, parse_args  # noqa: E402
from harness import tlc  # noqa: E402
from harness.runner import Scratch  # noqa: E402


def s(cp):
    return "".join(chr(c) for c in cp)


class Rollback(Exception):
    pass


async def new_wf(**kw):
    from stepup.core.enums import Need
    from stepup.core.sqlite3 import DBSession
    from stepup.core.step import Step
    from stepup.core.workflow import Workflow

    cm = DBSession.open(":memory:")
    db = cm.__enter__()
    wf = Workflow(db, dir_queue=None, **kw)
    await wf.initialize()
    async with db:
        wf.declare_static_files(wf.root, ["plan.py"])
        wf.define_step(wf.root, "./plan.py", inp_paths=["plan.py"], need=Need.PLAN)
        plan = wf.find(Step, "./plan.py")
    return cm, db, wf, plan


async def run_sites(vectors, report, tier):
    from path import Path

    from stepup.core.clean import search_matching_paths
    from stepup.core.enums import Need
    from stepup.core.file import File
    from stepup.core.scheduler import Scheduler
    from stepup.core.static_tree import StaticTree
    from stepup.core.step import Step
    from stepup.core.workflow import Workflow

    labels = [s(x) for x in vectors["labels"]]
    dirs = [(s(v["d"]), {s(x) for x in v["under"]}) for v in vectors["dirs"]]
    nq = 0
    per_site = {}

    def judge(site, d, got, exp, universe=None):
        nonlocal nq
        nq += 1
        per_site[site] = per_site.get(site, 0) + 1
        got, exp = set(got), set(exp)
        if got != exp:
            extra = sorted(got - exp)[:3]
            missing = sorted(exp - got)[:3]
            report.add_violation(
                f"site_{site}_selects_wrong_paths",
                json.dumps({"dir": d, "selected_but_not_under": extra, "under_but_not_selected": missing}, ensure_ascii=True),
                {"site": site, "dir": [ord(c) for c in d], "extra": [[ord(c) for c in x] for x in extra],
                 "missing": [[ord(c) for c in x] for x in missing]},
                tid=f"{site}:{d!r}",
            )

    # ---- DB1: every label is a static file declared by step P (attached, UNCONFIRMED)
    cm, db, wf, plan = await new_wf()
    async with db:
        wf.define_step(plan, "P", need=Need.PLAN)
        P = wf.find(Step, "P")
        wf.declare_static_files(P, labels)
    for d, exp in dirs:
        # relevant_paths_under (reaction to a removed directory)
        async with db:
            judge("relevant_paths_under", d, list(wf.relevant_paths_under(d)), exp)
            judge("relevant_paths_under_noslash", d, list(wf.relevant_paths_under(d.rstrip("/"))), exp)
        # clean DIR
        async with db:
            got = search_matching_paths(db._con, {Path(d.rstrip("/"))})
            judge("clean_search_matching_paths", d, got - {d.rstrip("/")}, exp)
        # directory match justified by a static file below it
        async with db:
            judge("is_justified_dir_contains_static", d, ["x"] if wf._is_justified_without_node(d, []) else [],
                  ["x"] if exp else [])
        # a static tree cannot be named with glob metacharacters (api.static expands them)
        if any(c in d for c in "*?[$"):
            continue
        # static tree registration by the same creator: hands over exactly the files under it
        try:
            async with db:
                wf.register_static_tree(P, d)
                tree = wf.find(StaticTree, d)
                got = [f.label for f in tree.products()]
                judge("register_static_tree_handover", d, got, exp)
                # ownership lookup for every stored label while the tree is attached
                owned = [lab for lab in labels if wf._find_owning_static_tree(lab) is not None]
                # (a file cannot have the name of the directory itself: excluded, see assumptions)
                judge("find_owning_static_tree", d, set(owned) - {d.rstrip("/")}, exp)
                # justification of glob matches inside a tree
                just = [lab for lab in labels if wf._is_justified_without_node(lab, [d])]
                judge("is_justified_inside_tree", d, set(just) - {d.rstrip("/")}, exp)
                raise Rollback
        except Rollback:
            pass
        # a tree registered by another creator must be rejected exactly when a file lies under it
        from stepup.core.exceptions import GraphError

        try:
            async with db:
                try:
                    wf.register_static_tree(plan, d)
                    rejected = False
                except GraphError:
                    rejected = True
                judge("register_static_tree_conflict", d, ["x"] if rejected else [], ["x"] if exp else [])
                raise Rollback
        except Rollback:
            pass
    cm.__exit__(None, None, None)

    # ---- DB2: every label is a detached UNDECLARED file (input of a step, never declared)
    cm, db, wf, plan = await new_wf()
    async with db:
        wf.define_step(plan, "Q", inp_paths=labels)
        Q = wf.find(Step, "Q")
    for d, exp in dirs:
        if any(c in d for c in "*?[$"):
            continue
        try:
            async with db:
                wf.register_static_tree(plan, d)
                tree = wf.find(StaticTree, d)
                got = [f.label for f in tree.products()]
                judge("register_static_tree_adoption", d, got, exp)
                raise Rollback
        except Rollback:
            pass
    cm.__exit__(None, None, None)

    # ---- DB3: every label is the regular output of its own DEFAULT step; directory targets
    for d, exp in dirs:
        cm, db, wf, plan = await new_wf(target_dirs=[d])
        sched = Scheduler(wf, db=db)
        await sched.initialize(None)
        async with db:
            for i, lab in enumerate(labels):
                wf.define_step(plan, f"s{i}", out_paths=[lab])
            plan.set_state(__import__("stepup.core.enums", fromlist=["StepState"]).StepState.SUCCEEDED)
        async with db:
            wf.reconcile_targets()
            sched._update_meta_after()
            rows = db.execute(
                "SELECT onode.label FROM step JOIN dependency ON dependency.source = step.node "
                "JOIN node AS onode ON onode.i = dependency.sink WHERE step._implied_need = 33"
            ).fetchall()
            judge("directory_target_elevation", d, [r[0] for r in rows], exp)
            judge("has_regular_output_under", d, ["x"] if wf.has_regular_output_under(d) else [], ["x"] if exp else [])
        cm.__exit__(None, None, None)
        if tier == "quick" and nq > 100000:
            break

    # ---- single-label databases: exactness of the boolean sites
    step = 1 if tier == "thorough" else 3
    for lab in labels[::step]:
        cm, db, wf, plan = await new_wf()
        async with db:
            wf.define_step(plan, "s", out_paths=[lab])
        async with db:
            for d, exp in dirs:
                judge("has_regular_output_under_single", d, ["x"] if wf.has_regular_output_under(d) else [],
                      ["x"] if lab in exp else [])
        cm.__exit__(None, None, None)
    # the same for the justification of a directory match by a static file below it (a boolean over
    # the whole database: exactness needs databases with a single static file)
    for lab in labels:
        cm, db, wf, plan = await new_wf()
        async with db:
            wf.declare_static_files(plan, [lab])
        async with db:
            for d, exp in dirs:
                judge("is_justified_dir_contains_static_single", d, ["x"] if wf._is_justified_without_node(d, []) else [],
                      ["x"] if lab in exp else [])
        cm.__exit__(None, None, None)
    return nq, per_site, len(labels), len(dirs)


def main(argv=None):
    args = parse_args(argv)
    report = Report("C18", args.tier, args.seed)
    with Scratch() as sc:
        vf = os.path.join(sc.path, "prefix_vectors.json")
        rc, out, secs = tlc.run_tlc("Prefix.tla", "Prefix.cfg", env={"VECTOR_FILE": vf}, timeout=600)
        if not os.path.exists(vf) or "Error" in out:
            report.machinery("TLC failed on Prefix.tla: " + out[-2000:])
            return report.finish()
        with open(vf) as fh:
            vectors = json.load(fh)
        old = os.getcwd()
        os.chdir(sc.path)
        try:
            nq, per_site, nl, nd = asyncio.run(run_sites(vectors, report, args.tier))
        except Exception as exc:  # noqa: BLE001
            import traceback

            report.machinery("site harness failed: " + traceback.format_exc()[-2500:])
            nq, per_site, nl, nd = 0, {}, 0, 0
        finally:
            os.chdir(old)
    report.coverage.update({
        "states": nd, "transitions": nq, "traces_validated_against_impl": nq,
        "evaluations": nq, "distinct_nontrivial": nq,
        "queries_per_site": per_site, "labels": nl, "directories": nd, "exhaustive": True,
        "rule": "one evaluation = one selection site executed for one directory on a real database holding the whole label universe; expected result computed by TLC from Prefix!Under",
        "tlc_seconds": round(secs, 2),
    })
    report.sample({"dir": vectors["dirs"][0]["d"], "under": vectors["dirs"][0]["under"][:4]})
    report.assumptions.extend([
        "labels are stored through the graph API (declare_static_files / define_step); a file label equal to the directory name without its slash cannot coexist with the directory and is excluded",
        "alphabet: a A % _ \\ . 0 * ? [ e-acute y-diaeresis; names of length <= 2, depth <= 3",
    ])
    if nq < 500:
        report.machinery("vacuous run: too few site queries")
    return report.finish()


if __name__ == "__main__":
    sys.exit(main())
