"""Layer B/G: what a dispatched job does (spec/Job.tla) against the real director.

Job.tla is model checked (Sound, HashOnlyWhenChecked, BuiltIsRecorded, NeverRaises, FailedHasNoHash,
CapRespected and, under weak fairness, Settles; the variants "skip without comparing the outputs"
and "a refused skip keeps the hash" are expected to be refuted), and the commits of the real,
in-process director on a project of the model's shape (plan -> step S with initial input i.txt,
amended input d.txt, environment variable VV_E, output o.txt) are matched against the model's
actions: random histories of restarts and watch phases with edits of i, d, o and VV_E between and
during the builds.  Every commit that changes a stored row of S, i, d or o must be the effect of a
model action (after the job's own silent steps); the disk reads of the job's hash computations and the
end of the command are logged events of their own.

Library for the checks of C03, C04 and C13 (`run(report, ...)`); can be run alone.
"""

from __future__ import annotations

import json
import os
import random
import re
import shutil
import sys

sys.path.insert(0, os.path.dirname(os.path.dirname(os.path.abspath(__file__))))

from harness import tlc  # noqa: E402
from harness.runner import pmap, run_history  # noqa: E402
from harness.simdirector import out_content, source_text, version_of  # noqa: E402

VERS = ["a", "b", "c", "d", "e", "f"]
VIDX = {v: k + 1 for k, v in enumerate(VERS)}
ENVC = {None: 0, "x": 1, "y": 2}
ABS = {"k": "abs", "i": 0, "d": 0, "e": 0}
FILES = {"i.txt": "i", "d.txt": "d"}
CAP = 2
# clauses that are the shape of a known finding (the TLA+ side decides the shape, see Job.tla "settled")
KF_CLAUSES = {"change_made_during_the_startup_scan_was_missed": "F31-change-during-startup-scan-missed"}
# the functions whose commits are transactions of a job (everything else: hash jobs, start-up, watcher)
JOB_FNS = {"pop_next_job", "_new_run", "_finalize_failed_run", "_reset_step_to_pending", "validate_dynamic_job", "try_skip_job",
           "execute_job", "amend_step"}

PROJECT = {
    "name": "job_model",
    "sources": {"plan.py": ["v1"], "i.txt": VERS, "d.txt": VERS},
    "scripts": {
        "./plan.py": {
            "on": "plan.py",
            "versions": {"v1": [["static", ["i.txt", "d.txt"]],
                                # (STEPUP_BUILD_LOG_LEVEL: a variable that the director itself hands to the commands;
                                #  VV_F: a variable the command asks for while it runs; neither ever changes)
                                ["step", "S", {"inp": ["i.txt"], "env": ["VV_E", "STEPUP_BUILD_LOG_LEVEL"], "out": ["o.txt"]}]]},
        },
        "S": [["amend", {"inp": ["d.txt"], "env": ["VV_F"]}], ["read", "d.txt"], ["read_declared"], ["read_mode", "i.txt"],
              ["getenv_declared"], ["write_declared"]],
    },
}


def random_edits(rng, how, nuser):
    edits = []
    for _ in range(rng.choice([0, 1, 1, 1, 2, 3])):
        r = rng.random()
        if r < 0.30:
            edits.append(["set", "i.txt", rng.choice(VERS)])
        elif r < 0.36:
            edits.append(["del", "i.txt"])
        elif r < 0.62:
            edits.append(["set", "d.txt", rng.choice(VERS)])
        elif r < 0.72:
            edits.append(["del", "d.txt"])
        elif r < 0.82:
            nuser[0] += 1
            edits.append(["raw", "o.txt", f"user {nuser[0]}\n"])
        elif r < 0.90:
            edits.append(["del", "o.txt"])
        elif r < 0.93:
            edits.append(["touch", "i.txt"])
        elif r < 0.97:
            edits.append(["chmod", "i.txt", rng.choice([0o755, 0o644])])
        elif how == "restart":
            edits.append(["env", "VV_E", rng.choice([None, "x", "y"])])
    return edits


def random_history(rng, tid):
    nuser = [0]
    first = [["set", "plan.py", "v1"], ["set", "i.txt", "a"]]
    if rng.random() < 0.8:
        first.append(["set", "d.txt", rng.choice(VERS[:2])])
    env0 = rng.choice([None, "x", "y"])
    if env0:
        first.append(["env", "VV_E", env0])
    cfg = {"njob": rng.choice([1, 2]), "defer_cap": CAP, "keep_going": rng.random() < 0.3}
    phases = [{"edits": first, "how": "restart", "fresh": True, "cfg": cfg, "seed": rng.randrange(10**6)}]
    for _ in range(rng.choice([2, 3, 4, 5, 6])):
        how = rng.choice(["restart", "watch", "watch"])
        ph = {"edits": random_edits(rng, how, nuser), "how": how}
        if how == "restart":
            ph.update(cfg=cfg, seed=rng.randrange(10**6))
            if rng.random() < 0.4:
                ph["during"] = [[rng.randrange(2, 40), rng.choice([["set", "i.txt", rng.choice(VERS)], ["set", "d.txt", rng.choice(VERS)],
                                                                   ["del", "d.txt"], ["del", "i.txt"]])]
                                for _ in range(rng.choice([1, 1, 2]))]
        phases.append(ph)
    if rng.random() < 0.3:
        phases[0]["during"] = [[rng.randrange(4, 40), rng.choice([["set", "i.txt", "b"], ["set", "d.txt", "c"], ["del", "d.txt"]])]]
    return {"tid": tid, "phases": phases}


SCRIPTED = [
    # nothing changes; an input changes; changes back
    [[], [["set", "i.txt", "b"]], [["set", "i.txt", "a"]], []],
    # the user overwrites / removes the output
    [[["raw", "o.txt", "user 1\n"]], [["del", "o.txt"]], [["raw", "o.txt", "user 2\n"], ["set", "d.txt", "b"]]],
    # the amended input disappears (validate job, deferral) and comes back
    [[["del", "d.txt"]], [], [["set", "d.txt", "a"]], [["del", "d.txt"], ["set", "i.txt", "b"]], [["set", "d.txt", "c"]]],
    # the environment changes and changes back
    [[["env", "VV_E", "x"]], [["env", "VV_E", None]], [["env", "VV_E", "y"], ["set", "i.txt", "c"]]],
    # the initial input disappears
    [[["del", "i.txt"]], [["set", "i.txt", "a"]], [["del", "i.txt"], ["del", "o.txt"]], [["set", "i.txt", "d"]]],
]


def scripted_histories():
    res = []
    for k, later in enumerate(SCRIPTED):
        for mode in ("restart", "watch"):
            for njob in (1, 2):
                cfg = {"njob": njob, "defer_cap": CAP}
                phases = [{"edits": [["set", "plan.py", "v1"], ["set", "i.txt", "a"], ["set", "d.txt", "a"]], "how": "restart",
                           "fresh": True, "cfg": cfg, "seed": 11 * k + njob}]
                for j, edits in enumerate(later):
                    how = "restart" if mode == "restart" or any(e[0] == "env" for e in edits) else "watch"
                    ph = {"edits": edits, "how": how}
                    if how == "restart":
                        ph.update(cfg=cfg, seed=100 + 7 * k + j)
                    phases.append(ph)
                res.append({"tid": f"jb-s{k}-{mode}{njob}", "phases": phases})
    # (finding F31) a file changes while the director starts up, right after the start-up scan hashed it;
    # the watch-mode rebuilds that follow never learn about it, the next restart does
    for k, n in enumerate([2, 3, 4, 5, 6]):
        cfg = {"njob": 1, "defer_cap": CAP}
        res.append({"tid": f"jb-f{k}", "phases": [
            {"edits": [["set", "plan.py", "v1"], ["set", "i.txt", "a"], ["set", "d.txt", "a"]], "how": "restart", "fresh": True, "cfg": cfg, "seed": k},
            {"edits": [], "how": "restart", "cfg": cfg, "seed": k + 7, "during": [[n, ["set" if k % 2 else "del", "d.txt", "b"][:3 if k % 2 else 2]]]},
            {"edits": [], "how": "watch"}, {"edits": [], "how": "watch"},
            {"edits": [], "how": "restart", "cfg": cfg, "seed": k + 9}]})
    # only the permission bits of the input change
    for k, (mode, njob) in enumerate([("restart", 1), ("watch", 1), ("watch", 2)]):
        cfg = {"njob": njob, "defer_cap": CAP}
        later = [[["chmod", "i.txt", 0o755]], [], [["chmod", "i.txt", 0o644]], [["chmod", "i.txt", 0o755], ["set", "d.txt", "b"]], [["touch", "i.txt"]]]
        phases = [{"edits": [["set", "plan.py", "v1"], ["set", "i.txt", "a"], ["set", "d.txt", "a"]], "how": "restart", "fresh": True,
                   "cfg": cfg, "seed": 61 + k}]
        for j, edits in enumerate(later):
            ph = {"edits": edits, "how": mode}
            if mode == "restart":
                ph.update(cfg=cfg, seed=400 + j)
            phases.append(ph)
        res.append({"tid": f"jb-m{k}", "phases": phases})
    # the amended input is not there and the initial input changes while the command runs
    for k, n in enumerate(range(5, 45, 2)):
        cfg = {"njob": 1, "defer_cap": CAP, "keep_going": k % 2 == 1}
        res.append({"tid": f"jb-u{k}", "phases": [
            {"edits": [["set", "plan.py", "v1"], ["set", "i.txt", "a"], ["set", "d.txt", "a"]], "how": "restart", "fresh": True, "cfg": cfg, "seed": k},
            {"edits": [["del", "d.txt"]], "how": "restart", "cfg": cfg, "seed": k + 20, "during": [[n, ["set", "i.txt", "b"]]]},
            {"edits": [], "how": "restart", "cfg": cfg, "seed": k + 40},
            {"edits": [["set", "d.txt", "b"]], "how": "restart", "cfg": cfg, "seed": k + 60}]})
    # the output is removed (PLANNED) or overwritten and then put back as the step wrote it: skipped, recorded again
    gen = out_content("S", "o.txt", [f"d.txt={source_text('d.txt', 'a')}", f"i.txt={source_text('i.txt', 'a')}", "i.txt:x=0", "$VV_E=None",
                                     "$STEPUP_BUILD_LOG_LEVEL='WARNING'"])
    for k, (mode, njob) in enumerate([("restart", 1), ("watch", 1), ("watch", 2)]):
        cfg = {"njob": njob, "defer_cap": CAP}
        later = [[["del", "o.txt"]], [["raw", "o.txt", gen]], [["raw", "o.txt", "user 5\n"]], [["raw", "o.txt", gen], ["touch", "i.txt"]],
                 [["del", "o.txt"], ["raw", "o.txt", gen]],
                 # the step cannot run while its input is away; meanwhile the output comes back as recorded in the step hash
                 [["del", "o.txt"], ["del", "i.txt"]], [["raw", "o.txt", gen], ["set", "i.txt", "a"]],
                 [["raw", "o.txt", "user 6\n"], ["del", "i.txt"]], [["raw", "o.txt", gen]], [["set", "i.txt", "a"]]]
        phases = [{"edits": [["set", "plan.py", "v1"], ["set", "i.txt", "a"], ["set", "d.txt", "a"]], "how": "restart", "fresh": True,
                   "cfg": cfg, "seed": 31 + k}]
        for j, edits in enumerate(later):
            ph = {"edits": edits, "how": mode}
            if mode == "restart":
                ph.update(cfg=cfg, seed=300 + j)
            phases.append(ph)
        res.append({"tid": f"jb-r{k}", "phases": phases})
    # an input changes while the command runs / while the hash is checked
    for k, n in enumerate([3, 5, 7, 9, 11, 13, 16, 20, 25, 4, 6, 8, 10, 12, 14, 18, 22, 28]):
        cfg = {"njob": 1, "defer_cap": CAP, "keep_going": k >= 9}
        res.append({"tid": f"jb-d{k}", "phases": [
            {"edits": [["set", "plan.py", "v1"], ["set", "i.txt", "a"], ["set", "d.txt", "a"]], "how": "restart", "fresh": True,
             "cfg": cfg, "seed": k, "during": [[n, ["set", "i.txt", "b"]]]},
            {"edits": [], "how": "restart", "cfg": cfg, "seed": k + 50, "during": [[n, ["set", "d.txt", "b"]]]},
            {"edits": [["set", "i.txt", "c"]], "how": "restart", "cfg": cfg, "seed": k + 90, "during": [[n + 2, ["set", "i.txt", "d"]]]},
            {"edits": [], "how": "restart", "cfg": cfg, "seed": k + 95}]})
    return res


class Exporter:
    """Turn the events of one history into the event list of Job.tla's trace mode."""

    def __init__(self):
        self.disk = {"i": 0, "d": 0}
        self.odisk = dict(ABS)
        self.env = None
        self.omap: dict[str, dict] = {}
        self.evs: list[dict] = []
        self.started = False
        self.last_p = None
        self.sjobs: set[int] = set()
        self.reads: dict[int, dict] = {}
        self.problems: list[str] = []
        self.keep_going = False
        self.in_startup = False  # between the start of a director and its first build phase
        self.dirty = False  # somebody touched a file since StepUp last looked (start of the director / of the rebuild)

    def ocode(self, text):
        if text is None:
            return dict(ABS)
        m = re.fullmatch(r"user (\d+)\n", text)
        if m:
            return {"k": "usr", "i": int(m.group(1)), "d": 0, "e": 0}
        if text in self.omap:
            return self.omap[text]
        return {"k": "usr", "i": 900 + len(text) % 90, "d": 0, "e": 0}

    def vcode(self, text, x=0):
        """Content version and permission bit folded into one number (0: absent)."""
        if text is None or text == "NULL":
            return 0
        return VIDX.get(version_of(text), 77) + (50 if x else 0)

    def edit(self, ed, world_read=None):
        kind = ed[0]
        if kind == "env" and ed[1] == "VV_E":
            self.env = ed[2]
            return
        path = ed[1] if len(ed) > 1 else None
        if path in FILES:
            f = FILES[path]
            if kind == "set":
                self.disk[f] = VIDX[ed[2]]          # (a rewritten file gets the default permissions)
            elif kind == "del":
                self.disk[f] = 0
            elif kind == "touch" and self.disk[f]:
                self.disk[f] = self.disk[f] % 50
            elif kind == "chmod" and self.disk[f]:
                self.disk[f] = self.disk[f] % 50 + (50 if ed[2] & 0o100 else 0)
            else:
                return
            self.dirty = True
            if self.started:
                self.evs.append({"a": "edit", "f": f, "v": self.disk[f], "su": self.in_startup})
        elif path == "o.txt":
            if kind == "raw":
                self.odisk = self.ocode(ed[2])
            elif kind == "del":
                self.odisk = dict(ABS)
            else:
                return
            self.dirty = True
            if self.started:
                self.evs.append({"a": "edito", "c": self.odisk, "su": self.in_startup})

    def proj(self, st):
        n = st["nodes"]
        s, fi, fd, fo = n.get("step:S"), n.get("file:i.txt"), n.get("file:d.txt"), n.get("file:o.txt")
        if s is None or fi is None or fd is None or fo is None:
            return None
        if s["detached"] or fi["detached"] or fd["detached"] or fo["detached"]:
            self.problems.append("a node of the job model is detached")
            return None
        env = [e for e in s["envVars"] if e[0] == "VV_E"]
        rec = env[0][1] if env else "NULL"
        return {
            "st": s["sstate"], "def": s["deferred"], "cnt": s["deferCount"], "has": s["hasStepHash"],
            "dyn": ["file:d.txt", "step:S", True] in st["deps"],
            "ist": fi["fstate"], "ih": self.vcode(fi["fhash"], fi["fmode"] & 0o100), "dst": fd["fstate"],
            "dh": self.vcode(fd["fhash"], fd["fmode"] & 0o100),
            "ost": fo["fstate"], "oh": self.ocode(None if fo["fhash"] == "NULL" else fo["fhash"]),
            "envRec": ENVC.get(None if rec == "NULL" else rec[1:], 9),
        }

    def feed(self, events):
        last_state = None
        for e in events:
            ev = e["ev"]
            if ev == "proc_start":
                self.keep_going = bool(e["cfg"].get("keep_going"))
                self.dirty = False
                self.in_startup = True
                if self.started:
                    self.evs.append({"a": "proc", "env": ENVC[self.env]})
                self.sjobs = set()
            elif ev == "report" and e.get("tag") == "PHASE":
                self.in_startup = False
            elif ev == "ext_edit":
                self.edit(e["edit"])
            elif ev == "phase_end":
                # a build during which nobody touched anything: what is stored agrees with the tree
                if self.started:
                    self.evs.append({"a": "settled", "clean": not self.dirty})
                # with --keep-going the scheduler is drained for one reason only: an input changed under a job
                if self.started and self.keep_going:
                    self.evs.append({"a": "drain", "v": bool(e["draining"])})
            elif ev == "rebuild":
                self.dirty = False
                if self.started:
                    self.evs.append({"a": "phase"})
            elif ev == "pop":
                if e.get("step") == "S":
                    self.sjobs.add(e["job"])
                    self.reads[e["job"]] = {}
                    if self.started:
                        kind = "validate" if e.get("kind") == "ValidateDynamicJob" else ("exec" if e.get("runs") else "skip")
                        self.evs.append({"a": "kind", "k": kind})
            elif ev == "hashed":
                if self.started and e["job"] in self.sjobs:
                    self.evs.append({"a": "hash"})
            elif ev == "read" and e.get("step") == "S":
                self.reads.setdefault(e["job"], {})[e["path"]] = e["content"]
                if e["content"] != "NULL" and e["path"] in FILES:
                    f = FILES[e["path"]]
                    code = self.vcode(e["content"], self.disk[f] >= 50)
                    self.reads[e["job"]][e["path"]] = code
                    if self.started:
                        self.evs.append({"a": "read", "f": f, "v": code})
            elif ev == "write" and e.get("step") == "S" and e.get("path") == "o.txt":
                r = self.reads.get(e["job"], {})
                self.omap[e["content"]] = {"k": "gen", "i": r.get("i.txt", 0), "d": r.get("d.txt", 0), "e": ENVC[self.env]}
                self.odisk = self.omap[e["content"]]
                if self.started:
                    self.evs.append({"a": "write", "o": self.odisk})
            elif ev == "cmd_end" and e.get("step") == "S":
                if self.started:
                    self.evs.append({"a": "cmd_end", "rc": int(e["rc"])})
            elif ev == "commit":
                st = e.get("state")
                if st is None:
                    continue
                p = self.proj(st)
                if p is None:
                    continue
                if not self.started:
                    self.started = True
                    self.evs.append({"a": "init", "di": self.disk["i"], "dd": self.disk["d"], "do": self.odisk, "env": ENVC[self.env], "p": p})
                elif p != self.last_p:
                    self.evs.append({"a": "obs", "fn": e.get("fn", ""), "cls": "job" if e.get("fn") in JOB_FNS else "env", "p": p})
                self.last_p = p


def exec_case(case: dict) -> dict:
    exp = Exporter()
    events_all = []
    out = None
    from harness.runner import group_phases
    from harness.simdirector import World

    world = World()
    try:
        # one director lifetime at a time, so that the edits between two lifetimes are seen in order
        for group in group_phases(case["phases"]):
            for ed in group[0].get("edits", []):
                exp.edit(ed)
            out = run_history(PROJECT, group, world=world, keep_world=True, policy="random")
            exp.feed(out["events"])
            events_all.extend(out["events"])
            run = out["runs"][-1]
            if run["exc"] or run["hang"]:
                exp.problems.append(f"director ended abnormally: exc={run['exc']!r} hang={run['hang']}")
                break
    finally:
        world.destroy()
    return {"tid": case["tid"], "evs": exp.evs, "problems": exp.problems, "nobs": sum(1 for x in exp.evs if x["a"] == "obs"),
            "ncmd": sum(1 for x in exp.evs if x["a"] == "cmd_end"), "nhash": sum(1 for x in exp.evs if x["a"] == "hash")}


def model_check(report, tier, stats):
    big = tier == "thorough"
    work = tlc.scratch_dir("vjobm-")
    try:
        for cfg, expect in (("JobModel.cfg", None), ("JobModelNoOut.cfg", "Invariant Sound is violated"),
                            ("JobModelKeepHash.cfg", "Temporal property Settles was violated")):
            name = cfg
            if big and expect is None:
                text = open(os.path.join(tlc.SPEC_DIR, cfg)).read().replace("MaxV = 4", "MaxV = 5").replace("MaxB = 3", "MaxB = 4")
                name = os.path.join(work, "JobModelBig.cfg")
                with open(name, "w") as fh:
                    fh.write(text)
            rc, out, secs = tlc.run_tlc("Job.tla", name, workers=8, timeout=3000, env={"TRACE_FILE": "/dev/null", "VERDICT_FILE": "/dev/null"})
            m = re.search(r"(\d+) states generated, (\d+) distinct states found", out)
            if expect is None:
                stats["model_states"] = int(m.group(2)) if m else 0
                if "No error has been found" not in out:
                    inv = re.search(r"(?:Invariant|Temporal property|Action property) (\w+) (?:is|was) violated", out)
                    if inv:
                        report.add_violation("job_model_" + inv.group(1), "spec/Job.tla", {"tlc_tail": out[-3000:]}, tid="job-model")
                    else:
                        report.machinery("Job.tla model check did not complete:\n" + out[-2000:])
            else:
                stats["variant_" + cfg[8:-4] + "_refuted"] = expect in out
                if expect not in out:
                    report.machinery(f"Job.tla {cfg}: the variant was not refuted (the model lost its teeth):\n" + out[-1500:])
    finally:
        shutil.rmtree(work, ignore_errors=True)


def run(report, tier: str, seed: int, prop: str) -> dict:
    stats = {"histories": 0, "commits_matched": 0, "commands": 0, "hash_computations": 0, "states": 0}
    model_check(report, tier, stats)
    rng = random.Random(seed * 193 + 5)
    cases = scripted_histories()
    for k in range({"quick": 60, "thorough": 900}[tier]):
        cases.append(random_history(rng, f"jb{seed}-{k}"))
    results = pmap(exec_case, cases)
    lines, by_tid = [], {}
    for case, (kind, r) in zip(cases, results):
        if kind == "err":
            report.machinery("job harness crashed: " + r[:1500])
            continue
        if r["problems"]:
            stats["skipped"] = stats.get("skipped", 0) + 1
            stats.setdefault("skipped_why", r["problems"][0])
            continue
        if not r["evs"]:
            continue
        by_tid[r["tid"]] = case
        lines.append({"id": r["tid"], "evs": r["evs"]})
        stats["histories"] += 1
        stats["commits_matched"] += r["nobs"]
        stats["commands"] += r["ncmd"]
        stats["hash_computations"] += r["nhash"]
    work = tlc.scratch_dir("vjob-")
    vectors = []
    try:
        for b0 in range(0, len(lines), 100):
            tf, vf = os.path.join(work, f"in{b0}.ndjson"), os.path.join(work, f"out{b0}.json")
            with open(tf, "w") as fh:
                for line in lines[b0:b0 + 100]:
                    fh.write(json.dumps(line, separators=(",", ":")) + "\n")
            rc_, o, s_ = tlc.run_tlc("Job.tla", "Job.cfg", env={"TRACE_FILE": tf, "VERDICT_FILE": vf}, workers=1, timeout=3000)
            if not os.path.exists(vf) or "Error:" in o:
                report.machinery(f"Job replay batch {b0 // 100} failed:\n{o[-3000:]}")
                return stats
            with open(vf) as fh:
                vectors.extend(json.load(fh)["vectors"])
            mm = re.search(r"(\d+) states generated, (\d+) distinct states found", o)
            stats["states"] += int(mm.group(2)) if mm else 0
    finally:
        shutil.rmtree(work, ignore_errors=True)
    nbad = 0
    for v in vectors:
        bad = v["bad"] if isinstance(v["bad"], list) else []
        if not bad:
            continue
        # the first event that no known finding explains, else the first one
        unl = [x for x in bad if x["clause"] not in KF_CLAUSES]
        b = unl[0] if unl else bad[0]
        kf = f"{KF_CLAUSES[b['clause']]}-{prop}" if b["clause"] in KF_CLAUSES else ""
        if kf:
            report.add_violation(b["clause"], v["id"], {}, kf=kf, tid=v["id"])
            continue
        nbad += 1
        if nbad <= 8:
            case = by_tid[v["id"]]
            line = [ln for ln in lines if ln["id"] == v["id"]][0]
            k = int(b["k"])
            report.add_violation(b["clause"], json.dumps({"event": line["evs"][k - 1], "model_before": b["model"], "job": b["job"], "disk": b["disk"],
                                                          "previous_events": line["evs"][max(0, k - 6):k - 1]}, sort_keys=True)[:2500],
                                 {"phases": case["phases"], "project": PROJECT, "tid": v["id"], "job_model": True}, tid=v["id"])
    for key, low in (("commits_matched", 300), ("commands", 100), ("hash_computations", 150)):
        if stats[key] < low:
            report.machinery(f"vacuous run: job model {key}={stats[key]} < {low}")
    return stats


if __name__ == "__main__":
    from checks.common import Report, parse_args
    from harness.runner import Scratch

    a = parse_args()
    rep = Report("C04", a.tier, a.seed)
    with Scratch():
        print(run(rep, a.tier, a.seed, "C04"))
    for v in rep.violations[:6]:
        print(v["tid"], v["clause"], v["subj"][:2500])
        print()
    for mm in rep.machinery_errors:
        print("MACHINERY", mm[:2000])
