"""C05: a build killed at any point is completed correctly after restart.

A reference execution of the last phase of a history is run to completion while a snapshot
(database bytes as of the last commit + the whole tree) is taken at every crash point: after
every committed transaction, before every file-system action of a running step, after every
file removal of the cleanup.  Process kill is modelled exactly by such a snapshot.  For every
snapshot the director is restarted on a copy; spec/RelCheck.tla (crash_equiv) compares the
restarted final state with the uninterrupted one, and every restarted trace is validated
against the commit-level monitors (no internal error, interrupted steps never trusted).

usage: python -m checks.crash --tier quick
"""

from __future__ import annotations

import copy
import json
import os
import random
import shutil
import sys

sys.path.insert(0, os.path.dirname(os.path.dirname(os.path.abspath(__file__))))

from checks.common import Report, parse_args  # noqa: E402
from checks.history import disk_ev, last_rc, side, validate_rels  # noqa: E402
from harness import tlc  # noqa: E402
from harness.projects import SHAPES, Gen, initial_phase  # noqa: E402
from harness.runner import Scratch, pmap, run_history  # noqa: E402
from harness.simdirector import World  # noqa: E402


class Snapshotter:
    """Takes crash snapshots during a reference run."""

    def __init__(self, world: World, max_points: int, rng: random.Random):
        self.world = world
        self.snaps: list[dict] = []
        self.rng = rng
        self.max_points = max_points
        self.n = 0
        self.last_sig = None
        self.db = None

    def _take(self, ses, kind: str, label: str):
        db = self.db
        if db is None or db._con is None or db._held is not None:
            return
        self.n += 1
        # reservoir sampling keeps at most max_points snapshots, uniformly over all crash points
        if len(self.snaps) >= self.max_points:
            j = self.rng.randrange(self.n)
            if j >= self.max_points:
                return
            victim = self.snaps[j]
            shutil.rmtree(victim["dir"], ignore_errors=True)
            slot = j
        else:
            slot = None
        data = db._con.serialize()
        w = self.world.copy()
        with open(w.root / ".stepup" / "graph.db", "wb") as fh:
            fh.write(data)
        for extra in ("graph.db-wal", "graph.db-shm"):
            p = w.root / ".stepup" / extra
            if p.exists():
                p.unlink()
        queue = []
        h = ses.handler
        if h is not None:
            queue = sorted(str(p) for p in h.workflow.to_be_deleted if not str(p).endswith("/"))
        snap = {"dir": str(w.root), "clock": w.clock, "kind": kind, "label": label, "n": self.n,
                "lost_queue": queue, "seq": ses.seq}
        if slot is None:
            self.snaps.append(snap)
        else:
            self.snaps[slot] = snap

    def on_commit(self, ses, rec, db):
        self.db = db
        if rec.get("same"):
            return
        self._take(ses, "commit", rec.get("fn", "?"))

    def on_gate(self, ses, name):
        if name.startswith("op:") and (":write" in name or ":unlink" in name or ":read" in name or ":write_declared" in name):
            self._take(ses, "step_fs", name)

    def on_report(self, ses, tag, msg):
        if tag == "REMOVE":
            self._take(ses, "cleanup_fs", msg)


def exec_crash_case(case: dict) -> dict:
    project, phases = case["project"], case["phases"]
    rng = random.Random(case["seed"])
    world = World()
    rels, traces = [], []
    snaps = []
    try:
        if len(phases) > 1:
            out0 = run_history(project, phases[:-1], world=world, keep_world=True)
            traces.append((case["tid"] + "/pre", tlc.export_trace(case["tid"] + "/pre", out0["events"])))
        last_phase = phases[-1]
        snapper = Snapshotter(world, case["max_points"], rng)
        out = run_history(project, [last_phase], world=world, keep_world=True,
                          commit_hooks=[snapper.on_commit], gate_hooks=[snapper.on_gate],
                          report_hooks=[snapper.on_report])
        snaps = snapper.snaps
        traces.append((case["tid"] + "/ref", tlc.export_trace(case["tid"] + "/ref", out["events"])))
        ref = side(out["runs"][-1])
        replay = {"tid": case["tid"], "project": project, "phases": copy.deepcopy(phases), "crash_points": []}
        k = 0
        for snap in snaps:
            w = World.__new__(World)
            from pathlib import Path as PPath

            w.root = PPath(snap["dir"])
            w.clock = snap["clock"] + 5000
            w.env = dict(world.env)
            w.created_dirs = set()
            rphase = {"edits": [], "how": "restart", "cfg": last_phase.get("cfg", {}), "seed": rng.randrange(10**6)}
            outk = run_history(project, [rphase], world=w)
            tidk = f"{case['tid']}/crash{snap['n']}"
            traces.append((tidk, tlc.export_trace(tidk, outk["events"])))
            run = outk["runs"][-1]
            errors = []
            if run["exc"]:
                errors.append(run["exc"][:200])
            if run["hang"]:
                errors.append("hang")
            for tag, msg in run["reports"]:
                if tag == "ERROR" and ("Consistency" in msg or "Integrity" in msg or "exception" in msg.lower()):
                    errors.append(msg[:200])
            k += 1
            if run["final_state"] is None:
                # the restarted director died before it committed anything: there is no state to compare;
                # the trace of this run carries the exception (reported as restart_director_raised)
                replay["crash_points"].append({"k": k, "n": snap["n"], "kind": snap["kind"], "at": snap["label"], "died_at_start": True})
                continue
            rels.append({"tid": case["tid"], "k": k, "rel": "crash_equiv", "a": side(run), "b": ref,
                         "info": {"errors": errors, "crash_kind": snap["kind"], "crash_at": snap["label"],
                                  "crash_n": snap["n"], "lost_queue": snap["lost_queue"],
                                  "double_exec": sorted(set(run.get("double_exec", [])) | set(out["runs"][-1].get("double_exec", []))),
                                  # the director died on the second completion of one step (F25)
                                  "second_completion": any("Unexpected file hash update: cause=SUCCEEDED" in x and "state=BUILT" in x
                                                           for x in errors)}})
            replay["crash_points"].append({"k": k, "n": snap["n"], "kind": snap["kind"], "at": snap["label"]})
    finally:
        world.destroy()
        for snap in snaps:
            shutil.rmtree(snap["dir"], ignore_errors=True)
    return {
        "tid": case["tid"],
        "rels": [json.dumps(r, separators=(",", ":"), sort_keys=True) for r in rels],
        "traces": traces,
        "replay": replay,
        "npoints_total": snapper.n,
        "npoints_run": len(rels),
        "ref_rc": ref["rc"],
    }


def build_cases(seed, n, max_points):
    cases = []
    cfgs = [{"njob": 1, "resources": "gpu:2,tpu:2"}, {"njob": 2, "resources": "gpu:2,tpu:2"},
            {"njob": 3, "resources": "gpu:2,tpu:2", "keep_going": True}]
    for name, fn in SHAPES.items():
        proj = fn()
        if proj.get("schedule_dependent"):
            continue
        cfg = cfgs[1]
        phases = [initial_phase(proj, cfg=cfg, seed=seed)]
        # crash during the first build and during a rebuild after switching every versioned source
        # (the hand-written shapes are small: all their crash points, up to 40, are restarted in either tier)
        max_points_shape = max(max_points, 40)
        cases.append({"tid": f"crash-{name}-0", "project": proj, "phases": phases, "seed": seed, "max_points": max_points_shape})
        edits = [["set", p, v[1]] for p, v in proj["sources"].items() if len(v) > 1]
        if edits:
            phases2 = phases + [{"edits": edits, "how": "restart", "cfg": cfg, "seed": seed + 1}]
            cases.append({"tid": f"crash-{name}-1", "project": proj, "phases": phases2, "seed": seed + 1, "max_points": max_points_shape})
    for i in range(n):
        g = Gen(seed * 100003 + i + 500)
        g.features["fail"] = 0.0
        g.features["clobber"] = 0.0
        g.features["late_subplan"] = 0.0  # F8: outcome of such plans depends on the schedule
        proj = g.project()
        hist = g.history(proj, nphases=g.rng.choice([1, 2, 3]), watch_p=0.0, cfgs=cfgs)
        cases.append({"tid": f"c{seed}-{i}", "project": proj, "phases": hist, "seed": seed * 17 + i, "max_points": max_points})
    return cases


def main(argv=None):
    args = parse_args(argv)
    pid = "C05"
    n, max_points = {"quick": (22, 14), "thorough": (400, 60)}[args.tier]
    report = Report(pid, args.tier, args.seed, level="fault_enumeration")
    report.assumptions.extend([
        "process kill = database as of the last committed transaction + the tree at that instant (power loss with synchronous=OFF is outside the property)",
        "crash points: after every state-changing commit, before every file-system action of a running step, after every cleanup removal; sampled uniformly (reservoir) when a build has more than the per-case budget",
    ])
    with Scratch():
        cases = build_cases(args.seed, n, max_points)
        results = pmap(exec_crash_case, cases)
        rel_lines, traces, replays = [], [], {}
        total, run = 0, 0
        for kind, r in results:
            if kind == "err":
                report.machinery("harness crashed: " + r[:1500])
                continue
            rel_lines.extend(r["rels"])
            traces.extend(r["traces"])
            replays[r["tid"]] = r["replay"]
            total += r["npoints_total"]
            run += r["npoints_run"]
        for c in cases[:2]:
            report.sample({"tid": c["tid"], "history": [p["edits"] for p in c["phases"]]})
        v = validate_rels(report, rel_lines) if rel_lines else None
        if v:
            report.add_verdicts(v["bad"], replays)
            report.coverage["relations_checked"] = v["cnt"]
            report.coverage["states"] = v["states"]
            report.coverage["transitions"] = v["lines"]
        try:
            tv = tlc.validate_traces(tlc.pack_batches(traces, 6000), parallel=12)
            for b in tv["bad"]:
                # commit-level monitors on restarted runs belong to C05 when they concern the
                # restart: internal errors and untrusted interrupted steps
                if "/crash" in b["tid"] and b["prop"] == "C09" and b["clause"] in (
                        "step_move", "director_raised", "internal_error_in_step", "internal_error_on_request",
                        "succeeded_outputs_built", "detached_iff_unreachable"):
                    # the same defect seen through the restarted build has its own entry for this property
                    kf = {"F25-step-redefined-while-its-job-is-in-flight": "F25-double-execution-in-restarted-build"}.get(b.get("kf", ""), "")
                    report.add_violation("restart_" + b["clause"], b.get("subj", ""), replays.get(b["tid"].split("/")[0]), kf=kf, tid=b["tid"])
                else:
                    key = f"{b['prop']}:{b['clause']}"
                    report.other[key] = report.other.get(key, 0) + 1
            report.coverage["states"] = report.coverage.get("states", 0) + tv["states"]
            report.coverage["transitions"] = report.coverage.get("transitions", 0) + tv["lines"]
            report.coverage["traces_validated_against_impl"] = len(traces)
        except tlc.TLCFailure as exc:
            report.machinery(str(exc)[:3000])
        # Layer G: what a restart does with files that changed while no director was running is
        # update_file_hashes(cause=EXTERNAL) on whatever state the kill left behind: the External action
        # of spec/FileStep.tla, replayed into the real Workflow from every reachable file/step state
        from checks import filestep
        fs = filestep.run(report, args.tier, args.seed, "C05")
        report.coverage["filestep"] = fs
        report.coverage["states"] = report.coverage.get("states", 0) + fs.get("states", 0)
        report.coverage["crash_points_enumerated"] = total
        report.coverage["crash_points_restarted"] = run
        report.coverage["evaluations"] = run
        report.coverage["distinct_nontrivial"] = run
        report.coverage["rule"] = "one evaluation = one crash point (snapshot) restarted to completion and compared with the uninterrupted reference"
        if run < 100:
            report.machinery(f"vacuous run: only {run} crash points restarted")
    return report.finish()


if __name__ == "__main__":
    sys.exit(main())
