"""Debug aid: rerun a history replay and print the python-side diff of the two canonical forms."""
import json, sys, os
sys.path.insert(0, os.path.dirname(os.path.dirname(os.path.abspath(__file__))))
from checks.history import exec_hist_case
from harness.runner import Scratch

def canon(st):
    nodes = {}
    for k, n in st["nodes"].items():
        if n["detached"]:
            continue
        if n["kind"] == "file":
            nodes[k] = (n["creator"], n["fstate"], n["fhash"][:40], n["fmode"])
        elif n["kind"] == "step":
            nodes[k] = (n["creator"], n["sstate"], n["need"], n["impliedNeed"], n["deferred"], n["shell"],
                        sorted((e[0], e[2]) for e in n["envVars"]), n["nglobs"], n["resources"], n["overrides"])
        else:
            nodes[k] = (n["creator"],)
    edges = {tuple(d) for d in st["deps"] if d[0] in nodes and d[1] in nodes}
    return nodes, edges

def main():
    rep = json.load(open(sys.argv[1]))
    case = rep["case"]
    case = {"tid": case["tid"], "project": case["project"], "phases": case["phases"], "want": [rep["property"]], "seed": 0}
    with Scratch():
        r = exec_hist_case(case)
    for ph in case["phases"]:
        print("PHASE", ph.get("how"), ph.get("edits"), ph.get("cfg"))
    print("plan:", json.dumps(case["project"]["scripts"]["./plan.py"]["versions"])[:4000])
    for k, v in case["project"]["scripts"].items():
        if k != "./plan.py": print("  ", k, json.dumps(v)[:600])
    for line in r["rels"]:
        e = json.loads(line)
        print("== relation", e["rel"], "rc a/b:", e["a"]["rc"], e["b"]["rc"], e.get("info"))
        na, ea = canon(e["a"]["state"]); nb, eb = canon(e["b"]["state"])
        for k in sorted(set(na) | set(nb)):
            if na.get(k) != nb.get(k):
                print("   node", k, "\n      a:", na.get(k), "\n      b:", nb.get(k))
        for d in sorted(ea ^ eb):
            print("   edge", d, "in a" if d in ea else "in b")
        fa, fb = e["a"]["disk"]["files"], e["b"]["disk"]["files"]
        for p in sorted(set(fa) | set(fb)):
            if fa.get(p) != fb.get(p):
                print("   disk", p, "a:", (fa.get(p) or ["<absent>"])[0][:50].replace("\n", "|"), " b:", (fb.get(p) or ["<absent>"])[0][:50].replace("\n", "|"))
        det_a = sorted(k for k, n in e["a"]["state"]["nodes"].items() if n["detached"])
        det_b = sorted(k for k, n in e["b"]["state"]["nodes"].items() if n["detached"])
        print("   detached a:", det_a, " b:", det_b)

if __name__ == "__main__":
    main()
