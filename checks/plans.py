"""Layer G: a step that moves between two plans (spec/Plans.tla) replayed into the real Workflow.

Plans.tla is model checked (ownership stays well formed; `NoSpuriousRejection` is expected to be
violated: that is finding F17, found by the model), and seeded / scripted action sequences are
evaluated by TLC and executed on the real Workflow through the graph API, comparing the plan, the
sub-plan and the moving step after every action, including which definitions are rejected.

Library for the checks of C01 and C02 (`run(report, ...)`); can be run alone.
"""

from __future__ import annotations

import asyncio
import json
import os
import random
import re
import shutil
import sys

sys.path.insert(0, os.path.dirname(os.path.dirname(os.path.abspath(__file__))))

from harness import tlc  # noqa: E402

KINDS = ["startP", "defQ", "defA:P", "defA:Q", "finishP", "startQ", "finishQ", "edit", "clean"]


def act(k):
    if k.startswith("defA"):
        return {"a": "defA", "pl": k.split(":")[1]}
    return {"a": k}


def random_actions(rng, n):
    return [act(rng.choice(KINDS)) for _ in range(n)]


def structured_actions(rng):
    """Build/edit cycles in a plausible order, perturbed by swaps, drops and duplications."""
    owner = "Q"
    seq = []
    for _ in range(rng.choice([2, 3, 4])):
        cyc = ["startP", "defQ"] + (["defA:P"] if owner == "P" else []) + ["finishP", "startQ"] + (["defA:Q"] if owner == "Q" else []) + ["finishQ"]
        if rng.random() < 0.6:
            # Q may run while P is still running
            i = cyc.index("finishP")
            j = rng.randrange(i, len(cyc))
            cyc.insert(j, cyc.pop(i))
        if rng.random() < 0.7:
            cyc.append("clean")
        cyc.append("edit")
        owner = "P" if owner == "Q" else "Q"
        seq += cyc
    for _ in range(rng.choice([0, 1, 2, 3])):
        k = rng.random()
        i = rng.randrange(len(seq))
        if k < 0.4 and i + 1 < len(seq):
            seq[i], seq[i + 1] = seq[i + 1], seq[i]
        elif k < 0.7:
            seq.pop(i)
        else:
            seq.insert(i, rng.choice(KINDS))
    return [act(k) for k in seq]


def scripted():
    build = ["startP", "defQ", "finishP", "startQ", "defA:Q", "finishQ", "clean"]
    res = []
    # the move Q -> P with the two orders of execution, then back
    res.append(build + ["edit", "startP", "defQ", "defA:P", "finishP", "startQ", "finishQ", "clean"])
    res.append(build + ["edit", "startP", "defQ", "startQ", "finishQ", "defA:P", "finishP", "clean"])
    res.append(build + ["edit", "startP", "defQ", "defA:P", "finishP", "edit", "startP", "defQ", "finishP", "startQ", "defA:Q", "finishQ", "clean"])
    res.append(build + ["edit", "startP", "defQ", "startQ", "finishQ", "defA:P", "finishP", "clean", "edit", "startP", "defQ", "finishP",
                        "startQ", "defA:Q", "finishQ", "clean"])
    res.append(build + ["edit", "startP", "defQ", "startQ", "finishQ", "defA:P", "finishP", "clean", "edit", "startP", "defQ", "startQ",
                        "defA:Q", "finishQ", "finishP", "clean"])
    return [[act(k) for k in seq] for seq in res]


async def execute(acts, enabled):
    from stepup.core.enums import HashUpdateCause, Need, StepState
    from stepup.core.exceptions import GraphError
    from stepup.core.hash import FileHash, StepHash
    from stepup.core.sqlite3 import DBSession
    from stepup.core.step import Step
    from stepup.core.workflow import Workflow

    with DBSession.open(":memory:") as db:
        wf = Workflow(db, dir_queue=None)
        await wf.initialize()
        async with db:
            wf.declare_static_files(wf.root, ["plan.py"])
            wf.define_step(wf.root, "P", inp_paths=["plan.py"], need=Need.PLAN)
            wf.update_file_hashes({"plan.py": FileHash(b"1" * 32, 0o100644, 1.0, 3, 1)}, cause=HashUpdateCause.CONFIRMED)
            plan = wf.find(Step, "P")
        rej = {"P": False, "Q": False}

        def node(label):
            row = db.execute("SELECT node.i, node.detached, c.label FROM node LEFT JOIN node AS c ON node.creator = c.i "
                             "WHERE node.kind = 'step' AND node.label = ?", (label,)).fetchone()
            if row is None:
                return None, {"ex": False, "det": False, "cr": "NULL", "st": "NONE"}
            step = Step(wf, row[0], label)
            return step, {"ex": True, "det": bool(row[1]), "cr": row[2] or "NULL", "st": step.get_state().name}

        def snapshot():
            return {"p": Step(wf, plan.i, "P").get_state().name, "q": node("Q")[1], "a": node("A")[1]}

        states = []
        for a, en in zip(acts, enabled):
            rejected = False
            if en:
                try:
                    async with db:
                        if a["a"] == "startP":
                            plan.set_state(StepState.RUNNING)
                            plan.reset_for_rerun()
                            rej["P"] = False
                        elif a["a"] == "defQ":
                            wf.define_step(plan, "Q", need=Need.PLAN)
                        elif a["a"] == "defA":
                            creator = plan if a["pl"] == "P" else node("Q")[0]
                            try:
                                wf.define_step(creator, "A")
                            except GraphError:
                                rejected = True
                                rej[a["pl"]] = True
                                raise
                        elif a["a"] == "finishP":
                            plan.mark_completed(None if rej["P"] else StepHash(b"p" * 32, None, b"q" * 32, None), False)
                        elif a["a"] == "startQ":
                            q = node("Q")[0]
                            q.set_state(StepState.RUNNING)
                            q.reset_for_rerun()
                            rej["Q"] = False
                        elif a["a"] == "finishQ":
                            q = node("Q")[0]
                            q.mark_completed(None if rej["Q"] else StepHash(b"i" * 32, None, b"o" * 32, None), False)
                        elif a["a"] == "edit":
                            wf.mark_step_pending(plan)
                            q, info = node("Q")
                            if q is not None and info["st"] in ("SUCCEEDED", "FAILED"):
                                wf.mark_step_pending(q)
                        elif a["a"] == "clean":
                            wf.delete_detached()
                except GraphError:
                    if not rejected:
                        states.append({"error": "unexpected GraphError"})
                        break
                except Exception as exc:  # noqa: BLE001
                    states.append({"error": f"{type(exc).__name__}: {exc}"})
                    break
            async with db:
                snap = snapshot()
            snap["rejected"] = rejected
            states.append(snap)
    return states


def norm(e, prev_rej):
    st = e["st"]

    def nd(v):
        if not v["ex"]:
            return {"ex": False, "det": False, "cr": "NULL", "st": "NONE"}
        return {"ex": True, "det": bool(v["det"]), "cr": v["cr"], "st": v["st"]}

    return {"p": st["p"], "q": nd(st["q"]), "a": nd(st["a"])}


def run(report, tier: str, seed: int, prop: str) -> dict:
    stats = {"states": 0, "sequences": 0, "actions": 0}
    rc, out, secs = tlc.run_tlc("Plans.tla", "PlansModel.cfg", workers=8, timeout=1800)
    m = re.search(r"(\d+) states generated, (\d+) distinct states found", out)
    if "No error has been found" not in out:
        inv = re.search(r"Invariant (\w+) is violated", out)
        if inv:
            report.add_violation("plans_model_" + inv.group(1), "spec/Plans.tla", {"tlc_tail": out[-3000:]}, tid="plans-model")
        else:
            report.machinery("Plans.tla model check did not complete:\n" + out[-2000:])
    stats["states"] += int(m.group(2)) if m else 0
    rc, out, secs = tlc.run_tlc("Plans.tla", "PlansModelF17.cfg", workers=8, timeout=1800)
    stats["f17_found_by_model"] = "Invariant NoSpuriousRejection is violated" in out
    rng = random.Random(seed * 41 + 3)
    cases = scripted()
    for _ in range({"quick": 150, "thorough": 3000}[tier]):
        cases.append(random_actions(rng, rng.choice([10, 16, 24])) if rng.random() < 0.3 else structured_actions(rng))
    lines = [{"id": i, "acts": acts} for i, acts in enumerate(cases)]
    work = tlc.scratch_dir("vpl-")
    from concurrent.futures import ThreadPoolExecutor

    chunks = [lines[i::8] for i in range(8) if lines[i::8]]

    def one(ic):
        i, chunk = ic
        tf, vf = os.path.join(work, f"in{i}.ndjson"), os.path.join(work, f"out{i}.json")
        with open(tf, "w") as fh:
            for line in chunk:
                fh.write(json.dumps(line, separators=(",", ":")) + "\n")
        rc_, o, s_ = tlc.run_tlc("Plans.tla", "Plans.cfg", env={"TRACE_FILE": tf, "VERDICT_FILE": vf}, workers=1, timeout=1800)
        if not os.path.exists(vf) or "Error:" in o:
            raise tlc.TLCFailure(f"Plans replay batch {i} failed:\n{o[-3000:]}")
        with open(vf) as fh:
            res = json.load(fh)
        mm = re.search(r"(\d+) states generated, (\d+) distinct states found", o)
        return res["vectors"], int(mm.group(2)) if mm else 0

    expected = {}
    try:
        with ThreadPoolExecutor(max_workers=8) as ex:
            for vecs, st in ex.map(one, enumerate(chunks)):
                stats["states"] += st
                for v in vecs:
                    expected[v["id"]] = v["states"] if isinstance(v["states"], list) else []
    except tlc.TLCFailure as exc:
        report.machinery(str(exc)[:3000])
        return stats
    finally:
        shutil.rmtree(work, ignore_errors=True)
    nbad = 0
    for i, acts in enumerate(cases):
        exp = expected[i]
        enabled = [bool(e["enabled"]) for e in exp]
        got = asyncio.run(execute(acts, enabled))
        stats["sequences"] += 1
        stats["actions"] += sum(enabled)
        prev_a = {"ex": False, "det": False}
        for k, (e, gst) in enumerate(zip(exp, got)):
            want = norm(e, False)
            # a definition of A is rejected exactly when an attached A exists already
            want["rejected"] = bool(enabled[k] and acts[k]["a"] == "defA" and prev_a["ex"] and not prev_a["det"])
            prev_a = {"ex": bool(e["st"]["a"]["ex"]), "det": bool(e["st"]["a"]["det"])}
            if "error" in gst or gst != want:
                nbad += 1
                if nbad <= 8:
                    report.add_violation(
                        "plan_ownership_transfer_differs_from_specification",
                        json.dumps({"action": acts[k], "index": k, "code": gst, "spec": want,
                                    "prefix": [a for a, en in zip(acts[:k], enabled[:k]) if en][-10:]}, sort_keys=True)[:1500],
                        {"acts": acts, "enabled": enabled}, tid=f"pl{i}")
                break
    return stats


if __name__ == "__main__":
    from checks.common import Report, parse_args
    from harness.runner import Scratch

    a = parse_args()
    rep = Report("C01", a.tier, a.seed)
    with Scratch():
        print(run(rep, a.tier, a.seed, "C01"))
    for v in rep.violations[:5]:
        print(v["clause"], v["subj"][:1500])
        print()
    for mm in rep.machinery_errors:
        print("MACHINERY", mm[:2000])
