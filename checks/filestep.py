"""Layer G: the file / step state machine (spec/FileStep.tla) replayed into the real Workflow.

1. FileStep.tla is model checked (every graph of a 3-step family, every sequence of external
   updates, dispatches, successes and failures up to a depth): a SUCCEEDED step has its outputs
   BUILT and its inputs available, a BUILT output belongs to a SUCCEEDED step, and two external
   updates of one batch commute (the watcher and the startup rescan apply a batch in different
   orders).
2. Seeded action sequences on graphs of the same family are evaluated by TLC (FileStepReplay.cfg)
   and executed on the real Workflow through the graph API on an in-memory database:
   update_file_hashes(EXTERNAL / SUCCEEDED / FAILED), Step.set_state + reset_for_rerun,
   Step.mark_completed.  The file and step states after every action must be the specification's.

The module is a library for the checks of C02 and C14 (`run(report, ...)`) and can be run alone.
"""

from __future__ import annotations

import asyncio
import itertools
import json
import os
import random
import re
import shutil
import sys

sys.path.insert(0, os.path.dirname(os.path.dirname(os.path.abspath(__file__))))

from harness import tlc  # noqa: E402

STEPS = ["A", "B", "C"]
PROD = {"o": "A", "p": "B", "q": "C"}
INP_CHOICES = {"A": ["x"], "B": ["x", "o"], "C": ["x", "o", "p"]}


def graphs():
    res = []
    for ia in range(2):
        for ib in range(4):
            for ic in range(8):
                inp = {"A": [f for i, f in enumerate(INP_CHOICES["A"]) if ia >> i & 1],
                       "B": [f for i, f in enumerate(INP_CHOICES["B"]) if ib >> i & 1],
                       "C": [f for i, f in enumerate(INP_CHOICES["C"]) if ic >> i & 1]}
                res.append(inp)
    return res


def random_actions(rng, n):
    acts = []
    for _ in range(n):
        k = rng.random()
        if k < 0.3:
            acts.append({"a": "external", "f": rng.choice(["x", "o", "p", "q"]), "present": rng.random() < 0.6})
        elif k < 0.6:
            acts.append({"a": "start", "s": rng.choice(STEPS)})
        elif k < 0.85:
            acts.append({"a": "succeed", "s": rng.choice(STEPS)})
        else:
            s = rng.choice(STEPS)
            out = [f for f, p in PROD.items() if p == s]
            acts.append({"a": "fail", "s": s, "present": [f for f in out if rng.random() < 0.5]})
    return acts


def batch_pairs():
    """Every ordered pair of external updates of two files, after a full successful build."""
    build = [{"a": "start", "s": s} for s in STEPS]
    build = list(itertools.chain.from_iterable(([{"a": "start", "s": s}, {"a": "succeed", "s": s}] for s in STEPS)))
    cases = []
    ups = [{"a": "external", "f": f, "present": pr} for f in ["x", "o", "p", "q"] for pr in (True, False)]
    for u1 in ups:
        for u2 in ups:
            if u1["f"] != u2["f"]:
                cases.append(build + [u1, u2])
    return cases


def to_line(i, inp, acts):
    return {"id": i, "steps": STEPS, "statics": ["x"], "outs": ["o", "p", "q"],
            "prod": [[f, s] for f, s in PROD.items()], "inp": [[s, inp[s]] for s in STEPS], "acts": acts}


async def execute(inp, acts, enabled):
    """Run the enabled actions on a real Workflow; return the projected states after each."""
    from stepup.core.enums import HashUpdateCause, Need, StepState
    from stepup.core.file import File
    from stepup.core.hash import FileHash, StepHash
    from stepup.core.sqlite3 import DBSession
    from stepup.core.step import Step
    from stepup.core.workflow import Workflow

    counter = itertools.count(1)

    def fake(path):
        k = next(counter)
        return FileHash(bytes([k % 256]) * 32, 0o100644, float(k), 3, k)

    with DBSession.open(":memory:") as db:
        wf = Workflow(db, dir_queue=None)
        await wf.initialize()
        async with db:
            wf.declare_static_files(wf.root, ["plan.py"])
            wf.define_step(wf.root, "./plan.py", inp_paths=["plan.py"], need=Need.PLAN)
            plan = wf.find(Step, "./plan.py")
            wf.update_file_hashes({"plan.py": fake("plan.py")}, cause=HashUpdateCause.CONFIRMED)
            plan.set_state(StepState.RUNNING)
            wf.declare_static_files(plan, ["x"])
            wf.update_file_hashes({"x": fake("x")}, cause=HashUpdateCause.CONFIRMED)
            for s in STEPS:
                wf.define_step(plan, s, inp_paths=inp[s], out_paths=[f for f, p in PROD.items() if p == s])
            plan.mark_completed(StepHash(b"p" * 32, None, b"q" * 32, None), False)

        def snapshot():
            fs = {f: wf.find(File, f).get_state().name for f in ["x", "o", "p", "q"]}
            ss = {s: wf.find(Step, s).get_state().name for s in STEPS}
            return {"f": fs, "s": ss}

        states = []
        err = None
        for a, en in zip(acts, enabled):
            if en:
                try:
                    async with db:
                        if a["a"] == "external":
                            wf.update_file_hashes({a["f"]: fake(a["f"]) if a["present"] else FileHash.unknown()}, cause=HashUpdateCause.EXTERNAL)
                        elif a["a"] == "start":
                            step = wf.find(Step, a["s"])
                            step.set_state(StepState.RUNNING)
                            step.reset_for_rerun()
                        elif a["a"] == "succeed":
                            step = wf.find(Step, a["s"])
                            outs = [f for f, p in PROD.items() if p == a["s"]]
                            wf.update_file_hashes({f: fake(f) for f in outs}, cause=HashUpdateCause.SUCCEEDED)
                            step.mark_completed(StepHash(b"i" * 32, None, b"o" * 32, None), False)
                        elif a["a"] == "fail":
                            step = wf.find(Step, a["s"])
                            outs = [f for f, p in PROD.items() if p == a["s"]]
                            wf.update_file_hashes({f: fake(f) if f in a["present"] else FileHash.unknown() for f in outs}, cause=HashUpdateCause.FAILED)
                            step.mark_completed(None, False)
                except Exception as exc:  # noqa: BLE001
                    err = f"{type(exc).__name__}: {exc}"
                    states.append({"error": err})
                    break
            async with db:
                states.append(snapshot())
    return states, err


def run(report, tier: str, seed: int, prop: str) -> dict:
    """Model check FileStep.tla and replay action sequences; violations are added to `report`."""
    stats = {"states": 0, "sequences": 0, "actions": 0}
    rc, out, secs = tlc.run_tlc("FileStep.tla", "FileStep.cfg", workers=8, timeout=1800)
    m = re.search(r"(\d+) states generated, (\d+) distinct states found", out)
    if "No error has been found" not in out:
        inv = re.search(r"Invariant (\w+) is violated", out)
        if inv:
            report.add_violation("filestep_model_" + inv.group(1), "spec/FileStep.tla", {"tlc_tail": out[-3000:]}, tid="filestep-model")
        else:
            report.machinery("FileStep.tla model check did not complete:\n" + out[-2000:])
    stats["states"] += int(m.group(2)) if m else 0
    rng = random.Random(seed * 31 + 5)
    gs = graphs()
    cases = []
    for inp in gs:
        for acts in (batch_pairs() if tier == "thorough" else rng.sample(batch_pairs(), 6)):
            cases.append((inp, acts))
        for _ in range({"quick": 4, "thorough": 60}[tier]):
            cases.append((inp, random_actions(rng, rng.choice([8, 12, 16]))))
    lines = [to_line(i, inp, acts) for i, (inp, acts) in enumerate(cases)]
    work = tlc.scratch_dir("vfs-")
    from concurrent.futures import ThreadPoolExecutor

    chunks = [lines[i::10] for i in range(10) if lines[i::10]]

    def one(ic):
        i, chunk = ic
        tf, vf = os.path.join(work, f"in{i}.ndjson"), os.path.join(work, f"out{i}.json")
        with open(tf, "w") as fh:
            for line in chunk:
                fh.write(json.dumps(line, separators=(",", ":")) + "\n")
        rc_, o, s_ = tlc.run_tlc("FileStep.tla", "FileStepReplay.cfg", env={"TRACE_FILE": tf, "VERDICT_FILE": vf}, workers=1, timeout=1800)
        if not os.path.exists(vf) or "Error:" in o:
            raise tlc.TLCFailure(f"FileStep replay batch {i} failed:\n{o[-3000:]}")
        with open(vf) as fh:
            res = json.load(fh)
        if res["n"] != len(chunk):
            raise tlc.TLCFailure(f"TLC consumed {res['n']} of {len(chunk)} sequences")
        mm = re.search(r"(\d+) states generated, (\d+) distinct states found", o)
        return res["vectors"], int(mm.group(2)) if mm else 0

    expected = {}
    try:
        with ThreadPoolExecutor(max_workers=10) as ex:
            for vecs, st in ex.map(one, enumerate(chunks)):
                stats["states"] += st
                for v in vecs:
                    expected[v["id"]] = v["states"] if isinstance(v["states"], list) else []
    except tlc.TLCFailure as exc:
        report.machinery(str(exc)[:3000])
        return stats
    finally:
        shutil.rmtree(work, ignore_errors=True)
    nbad = 0
    for i, (inp, acts) in enumerate(cases):
        exp = expected[i]
        enabled = [bool(e["enabled"]) for e in exp]
        got, err = asyncio.run(execute(inp, acts, enabled))
        stats["sequences"] += 1
        stats["actions"] += sum(enabled)
        for k, (e, gst) in enumerate(zip(exp, got)):
            if "error" in gst or gst["f"] != e["f"] or gst["s"] != e["s"]:
                nbad += 1
                if nbad <= 8:
                    report.add_violation(
                        "file_step_state_machine_differs_from_specification",
                        json.dumps({"action": acts[k], "index": k, "code": gst, "spec": {"f": e["f"], "s": e["s"]}}, sort_keys=True)[:700],
                        {"inp": inp, "acts": acts, "enabled": enabled}, tid=f"fs{i}")
                break
    stats["sample"] = {"inp": cases[0][0], "acts": cases[0][1][:8]}
    return stats


if __name__ == "__main__":
    from checks.common import Report, parse_args
    from harness.runner import Scratch

    a = parse_args()
    rep = Report("C14", a.tier, a.seed)
    with Scratch():
        print(run(rep, a.tier, a.seed, "C14"))
    for v in rep.violations[:10]:
        print(v["clause"], v["subj"][:600])
    for mm in rep.machinery_errors:
        print("MACHINERY", mm[:2000])
