"""Shared machinery of the checks: verdict handling, known findings, evidence, replay files."""

from __future__ import annotations

import hashlib
import json
import os
import sys
import time

ROOT = os.path.dirname(os.path.dirname(os.path.abspath(__file__)))
EVIDENCE_DIR = os.path.join(ROOT, "evidence")
REPLAY_DIR = os.path.join(ROOT, "replays")
KNOWN_FINDINGS = os.path.join(ROOT, "known_findings.json")


def load_known_findings() -> dict[str, dict]:
    """Return {finding_id: entry} for entries with status 'known' (never modified at run time)."""
    if not os.path.exists(KNOWN_FINDINGS):
        return {}
    with open(KNOWN_FINDINGS) as fh:
        data = json.load(fh)
    return {e["id"]: e for e in data.get("findings", []) if e.get("status") == "known"}


class Report:
    """Collects what one check run explored and found, then prints verdicts and writes evidence."""

    def __init__(self, pid: str, tier: str, seed: int, level: str = "model_checking"):
        self.pid = pid
        self.tier = tier
        self.seed = seed
        self.level = level
        self.t0 = time.time()
        self.violations: list[dict] = []  # {clause, subj, kf, case}
        self.other: dict[str, int] = {}
        self.coverage: dict = {"samples": []}
        self.assumptions: list[str] = []
        self.machinery_errors: list[str] = []
        self.known = load_known_findings()
        self.notes: list[str] = []

    # -- accumulation -------------------------------------------------------------------------
    def add_verdicts(self, bad: list[dict], cases: dict[str, dict]):
        """bad: records from TLC ({tid, line, prop, clause, subj[, kf]}); cases: tid -> replay dict."""
        for b in bad:
            if b["prop"] != self.pid:
                key = f"{b['prop']}:{b['clause']}"
                self.other[key] = self.other.get(key, 0) + 1
                continue
            self.violations.append(
                {
                    "clause": b["clause"],
                    "subj": b.get("subj", ""),
                    "kf": b.get("kf", ""),
                    "line": b.get("line", 0),
                    "tid": b.get("tid", ""),
                    "case": cases.get(b.get("tid", "")),
                }
            )

    def add_violation(self, clause: str, subj: str, case: dict, kf: str = "", tid: str = ""):
        self.violations.append({"clause": clause, "subj": subj, "kf": kf, "line": 0, "tid": tid, "case": case})

    def sample(self, obj):
        if len(self.coverage["samples"]) < 5:
            self.coverage["samples"].append(obj)

    def machinery(self, msg: str):
        self.machinery_errors.append(msg)

    # -- output -------------------------------------------------------------------------------
    def _write_replay(self, v: dict) -> str:
        os.makedirs(REPLAY_DIR, exist_ok=True)
        body = {
            "property": self.pid,
            "clause": v["clause"],
            "subject": v["subj"],
            "line": v["line"],
            "tid": v["tid"],
            "case": v["case"],
        }
        text = json.dumps(body, indent=1, sort_keys=True, default=str)
        h = hashlib.sha256(text.encode()).hexdigest()[:12]
        path = os.path.join(REPLAY_DIR, f"{self.pid}-{v['clause']}-{h}.json")
        with open(path, "w") as fh:
            fh.write(text)
        return path

    def finish(self) -> int:
        wall = time.time() - self.t0
        unknown = []
        known_seen: dict[str, int] = {}
        for v in self.violations:
            kf = v.get("kf") or ""
            if kf and kf in self.known and self.known[kf]["property"] == self.pid:
                known_seen[kf] = known_seen.get(kf, 0) + 1
            else:
                unknown.append(v)
        # group unknown violations by clause: one replay file per (clause, case)
        printed = set()
        for v in unknown:
            key = (v["clause"], v["tid"])
            if key in printed:
                continue
            printed.add(key)
            if len(printed) > 20:
                break
            path = self._write_replay(v)
            print(f"VIOLATION property={self.pid} replay={path}  clause={v['clause']} subject={v['subj']}")
        for kf, n in sorted(known_seen.items()):
            print(f"KNOWN-FINDING: property={self.pid} {kf}: {self.known[kf]['what']} (re-observed {n}x)")
        for m in self.machinery_errors:
            print(f"MACHINERY-FAILURE: {m}", file=sys.stderr)
        cov = dict(self.coverage)
        cov.setdefault("states", 0)
        cov.setdefault("transitions", 0)
        cov.setdefault("traces_validated_against_impl", 0)
        cov["known_findings_reobserved"] = known_seen
        cov["violations_by_clause"] = _count(v["clause"] for v in unknown)
        cov["alarms_of_other_properties_seen"] = self.other
        cov["notes"] = self.notes
        if not cov["samples"]:
            cov["samples"] = ["(no sample recorded)"]
        evidence = {
            "property_id": self.pid,
            "tier": self.tier,
            "seed": self.seed,
            "level": self.level,
            "coverage": cov,
            "assumptions": self.assumptions,
            "wall_s": round(wall, 2),
            "violations": len(unknown),
        }
        os.makedirs(EVIDENCE_DIR, exist_ok=True)
        with open(os.path.join(EVIDENCE_DIR, f"{self.pid}.json"), "w") as fh:
            json.dump(evidence, fh, indent=1, sort_keys=True, default=str)
        if self.machinery_errors:
            return 2
        return 1 if unknown else 0


def _count(it):
    d: dict[str, int] = {}
    for x in it:
        d[x] = d.get(x, 0) + 1
    return d


def parse_args(argv=None):
    import argparse

    ap = argparse.ArgumentParser()
    ap.add_argument("--tier", default=os.environ.get("VERIF_TIER", "quick"), choices=["quick", "thorough"])
    ap.add_argument("--seed", type=int, default=int(os.environ.get("VERIF_SEED", "0") or 0))
    ap.add_argument("--replay", default=None)
    return ap.parse_args(argv)
