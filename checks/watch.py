"""C14: a watch-mode rebuild is equivalent to a restart.

The real director runs with the real Watcher on real inotify (Layer B).  Whenever it starts
watching, a snapshot (database + tree) is taken; the events of the next watch phase are applied
to the live tree (watch side) and, identically, to a copy of the snapshot that is then built by
a restarted director (restart side).  spec/RelCheck.tla (watch_eq_restart) compares return
code, active graph, declared outputs and the whole tree.

usage: python -m checks.watch --tier quick
"""

from __future__ import annotations

import copy
import json
import os
import random
import shutil
import sys
from pathlib import Path as PPath

sys.path.insert(0, os.path.dirname(os.path.dirname(os.path.abspath(__file__))))

from checks.common import Report, parse_args  # noqa: E402
from checks.history import disk_ev, last_rc, side, validate_rels  # noqa: E402
from harness import tlc  # noqa: E402
from harness.projects import SHAPES, Gen, initial_phase  # noqa: E402
from harness.runner import Scratch, pmap, run_history  # noqa: E402
from harness.simdirector import World, apply_edit  # noqa: E402


def random_events(rng: random.Random, project: dict, cur: dict, outputs: list[str]) -> list:
    """A short sequence of file-system events while StepUp is watching."""
    edits = []
    srcs = [p for p in project["sources"] if not p.endswith(".py")]
    for _ in range(rng.choice([1, 1, 2, 3])):
        kind = rng.choice(["mod", "mod", "del", "restore", "recreate", "plan", "newglob", "delout", "clobberout",
                           "rmdir", "mvdir", "newtree", "touch", "flicker", "mktree", "regrow"])
        if kind == "mod" and srcs:
            p = rng.choice(srcs)
            v = rng.choice(project["sources"][p])
            edits.append(["set", p, v])
            cur[p] = v
        elif kind == "del" and srcs:
            p = rng.choice(srcs)
            edits.append(["del", p])
            cur[p] = None
        elif kind == "restore" and srcs:
            p = rng.choice(srcs)
            if cur.get(p) is not None:
                other = [v for v in project["sources"][p] if v != cur[p]]
                if other:
                    edits.append(["set", p, other[0]])
                    edits.append(["set", p, cur[p]])
        elif kind == "recreate" and srcs:
            p = rng.choice(srcs)
            if cur.get(p) is not None:
                edits.append(["del", p])
                edits.append(["set", p, cur[p]])
        elif kind == "plan":
            v = rng.choice(project["sources"]["plan.py"])
            edits.append(["set", "plan.py", v])
            for sp in project.get("linked", []):
                edits.append(["set", sp, v])
        elif kind == "newglob" and any(p.startswith("src/") for p in project["sources"]):
            edits.append(["set", "src/g3.in", "a"])
        elif kind == "delout" and outputs:
            edits.append(["del", rng.choice(outputs)])
        elif kind == "clobberout" and outputs:
            edits.append(["raw", rng.choice(outputs), "user wrote this\n"])
        elif kind == "rmdir":
            d = rng.choice(["data", "src", "out"])
            edits.append(["rmdir", d])
            for p in list(cur):
                if p.startswith(d + "/"):
                    cur[p] = None
        elif kind == "mvdir":
            d = rng.choice(["data", "src"])
            edits.append(["mvdir", d, d + "_moved"])
            for p in list(cur):
                if p.startswith(d + "/"):
                    cur[p] = None
        elif kind == "newtree" and any(p.startswith("data/") for p in project["sources"]):
            edits.append(["set", "data/d3.txt", "a"])
        elif kind == "flicker":
            # a new path appears, disappears and appears again (or the other way round) in one phase
            cands = [p for p in ("src/g3.in", "src/lib/g3.in", "data/d3.txt", "data/deep/d3.txt")
                     if any(q.startswith(p.rsplit("/", 1)[0] + "/") for q in project["sources"])]
            if cands:
                p = rng.choice(cands)
                seq = [["set", p, "a"], ["del", p], ["set", p, "a"]]
                edits.extend(seq if rng.random() < 0.7 else seq[:2])
        elif kind == "mktree":
            # directories (re)appear one level at a time, then the files in them
            nested = sorted({p.rsplit("/", 1)[0] for p in project["sources"] if p.count("/") >= 1})
            if nested:
                d = rng.choice(nested)
                parts = d.split("/")
                for n in range(1, len(parts) + 1):
                    edits.append(["mkdir", "/".join(parts[:n])])
                for p in srcs:
                    if p.startswith(d + "/"):
                        v = project["sources"][p][0]
                        edits.append(["set", p, v])
                        cur[p] = v
        elif kind == "regrow":
            # a whole top-level directory is removed and grown again level by level
            tops = sorted({p.split("/", 1)[0] for p in srcs if "/" in p})
            if tops:
                t = rng.choice(tops)
                edits.append(["rmdir", t])
                dirs = sorted({p.rsplit("/", 1)[0] for p in srcs if p.startswith(t + "/")})
                for d in dirs:
                    parts = d.split("/")
                    for n in range(1, len(parts) + 1):
                        if ["mkdir", "/".join(parts[:n])] not in edits:
                            edits.append(["mkdir", "/".join(parts[:n])])
                for p in srcs:
                    if p.startswith(t + "/"):
                        v = project["sources"][p][0]
                        edits.append(["set", p, v])
                        cur[p] = v
        elif kind == "touch" and srcs:
            edits.append(["touch", rng.choice(srcs)])
    return edits


def exec_watch_case(case: dict) -> dict:
    project, phases = case["project"], case["phases"]
    world = World()
    snaps: list[dict] = []
    rels, traces = [], []

    def on_watch(ses, i, db):
        if db._con is None or db._held is not None:
            return
        w = world.copy()
        with open(w.root / ".stepup" / "graph.db", "wb") as fh:
            fh.write(db._con.serialize())
        for extra in ("graph.db-wal", "graph.db-shm"):
            p = w.root / ".stepup" / extra
            if p.exists():
                p.unlink()
        snaps.append({"i": i, "dir": str(w.root), "clock": w.clock})

    try:
        out = run_history(project, phases, world=world, keep_world=True, watch_hooks=[on_watch], policy="random")
        traces.append((case["tid"], tlc.export_trace(case["tid"], out["events"])))
        run = out["runs"][-1]
        wps = run["watch_points"]
        cfg = phases[0].get("cfg", {})
        off = len(phases) - run["nphases"]  # index of the phase that started the watching director
        replay = {"tid": case["tid"], "project": project, "phases": copy.deepcopy(phases)}
        replay["phases"][off]["choices"] = run["choices"]
        k = 0
        for snap in snaps:
            i = snap["i"]
            if i + 1 >= len(wps):
                break
            a = {"state": wps[i + 1]["state"], "disk": disk_ev(wps[i + 1]["disk"]), "rc": int(wps[i + 1]["rc"]),
                 "dup": run.get("dups", []), "globprod": run.get("globprod", [])}
            w = World.__new__(World)
            w.root = PPath(snap["dir"])
            w.clock = world.clock + 5000 + i
            w.env = dict(world.env)
            w.created_dirs = set()
            rphase = {"edits": phases[off + i + 1]["edits"], "how": "restart", "cfg": cfg, "seed": case["seed"] + i}
            outb = run_history(project, [rphase], world=w)
            tidb = f"{case['tid']}/restart{i}"
            traces.append((tidb, tlc.export_trace(tidb, outb["events"])))
            b = side(outb["runs"][-1])
            k += 1
            rels.append({"tid": case["tid"], "k": k, "rel": "watch_eq_restart", "a": a, "b": b,
                         "info": {"phase": off + i + 1, "events": phases[off + i + 1]["edits"], "keep_going": bool(cfg.get("keep_going"))}})
        if run["exc"] or run["hang"]:
            rels.append({"tid": case["tid"], "k": k + 1, "rel": "watch_eq_restart",
                         "a": {"state": run["final_state"], "disk": disk_ev(run["disk"]), "rc": 1},
                         "b": {"state": run["final_state"], "disk": disk_ev(run["disk"]), "rc": 0},
                         "info": {"phase": -1, "events": [str(run["exc"]), "hang" if run["hang"] else ""], "keep_going": True}})
    finally:
        world.destroy()
        for snap in snaps:
            shutil.rmtree(snap["dir"], ignore_errors=True)
    return {"tid": case["tid"], "rels": [json.dumps(r, separators=(",", ":"), sort_keys=True) for r in rels],
            "traces": traces, "replay": replay, "nrel": len(rels)}


# scripted event sequences: (shape, edits between the sessions, watch phases)
SCRIPTED = [
    ("tree_glob", [], [[["set", "src/g3.in", "a"], ["del", "src/g3.in"], ["set", "src/g3.in", "a"]]]),
    ("tree_glob", [], [[["set", "src/g3.in", "a"], ["del", "src/g3.in"]], [["set", "src/g3.in", "a"]]]),
    ("tree_glob", [], [[["del", "src/g2.in"], ["set", "src/g2.in", "a"], ["del", "src/g2.in"]]]),
    ("tree_glob", [], [[["del", "src/g2.in"], ["set", "src/g2.in", "b"]], [["set", "src/g2.in", "a"]]]),
    ("tree_glob", [], [[["set", "data/d3.txt", "a"], ["del", "data/d3.txt"], ["set", "data/d3.txt", "a"]],
                       [["del", "data/d1.txt"], ["set", "data/d1.txt", "a"]]]),
    ("tree_glob", [], [[["rmdir", "src"]], [["mkdir", "src"], ["set", "src/g1.in", "a"], ["set", "src/g3.in", "a"]]]),
    ("tree_glob", [["rmdir", "src"], ["rmdir", "data"]],
     [[["mkdir", "src"], ["set", "src/g1.in", "a"]], [["mkdir", "data"], ["set", "data/d1.txt", "a"], ["set", "data/d2.txt", "b"]]]),
    ("tree_glob", [], [[["mvdir", "src", "src2"]], [["mvdir", "src2", "src"]]]),
    ("tree_glob", [], [[["del", "out/g1.out"], ["raw", "t1.txt", "user\n"]], [["rmdir", "out"]]]),
    ("nested_dirs", [["rmdir", "a"], ["rmdir", "src"], ["rmdir", "data"]],
     [[["mkdir", "a"], ["mkdir", "a/b"], ["set", "a/b/inp.txt", "a"]],
      [["mkdir", "src"], ["mkdir", "src/lib"], ["set", "src/lib/g1.in", "a"], ["set", "src/lib/g3.in", "a"]],
      [["mkdir", "data"], ["mkdir", "data/deep"], ["set", "data/deep/d1.txt", "b"]]]),
    ("nested_dirs", [], [[["rmdir", "a"]], [["mkdir", "a"], ["mkdir", "a/b"], ["set", "a/b/inp.txt", "b"]]]),
    ("nested_dirs", [], [[["rmdir", "a"], ["mkdir", "a"], ["mkdir", "a/b"], ["set", "a/b/inp.txt", "a"]]]),
    ("nested_dirs", [], [[["mvdir", "src/lib", "src/lib2"]], [["mvdir", "src/lib2", "src/lib"], ["set", "src/lib/g3.in", "a"]]]),
    ("nested_dirs", [], [[["rmdir", "out"]], [["rmdir", "data/deep"]], [["mkdir", "data/deep"], ["set", "data/deep/d1.txt", "a"]]]),
    ("nested_dirs", [["rmdir", "out"]], [[["set", "src/lib/g3.in", "a"], ["del", "src/lib/g3.in"], ["set", "src/lib/g3.in", "a"]]]),
    ("glob_undeclared", [], [[["set", "src/g2.in", "b"]], [["del", "src/g2.in"]], [["set", "src/g3.in", "a"], ["set", "plan.py", "v2"]]]),
    ("glob_undeclared", [], [[["touch", "src/g1.in"], ["set", "s1.txt", "b"]], [["set", "plan.py", "v2"]], [["set", "src/g1.in", "b"]]]),
    ("dir_glob", [], [[["mkdir", "cases/c3"], ["set", "cases/c3/inp.txt", "a"]], [["rmdir", "cases/c1"]]]),
    ("dir_glob", [], [[["rmdir", "cases/c2"]], [["mkdir", "cases/c2"], ["set", "cases/c2/inp.txt", "b"]]]),
    ("dir_glob", [], [[["mvdir", "cases/c2", "cases/c3"]]]),
    ("chain", [], [[["raw", "o1.txt", "user\n"], ["del", "s1.txt"]], [["set", "s1.txt", "a"]]]),
    ("chain", [], [[["raw", "o1.txt", "user\n"]], [["del", "o2.txt"], ["set", "s2.txt", "b"]]]),
    ("chain", [], [[["set", "s1.txt", "b"], ["set", "s1.txt", "a"]], [["del", "s1.txt"], ["set", "s1.txt", "a"]], [["del", "s1.txt"]]]),
    # changes made while the build that precedes the watching is still running (4th element: [n-th idle point, edit])
    ("tree_glob", [], [[], [["mvdir", "src2", "src"]]], [[6, ["mvdir", "src", "src2"]]]),
    ("tree_glob", [], [[], [["set", "data/d3.txt", "a"]]], [[12, ["mvdir", "data", "data2"]]]),
    ("tree_glob", [], [[["set", "src/g3.in", "a"]]], [[8, ["del", "src/g2.in"]], [14, ["set", "data/d1.txt", "b"]]]),
    ("dir_glob", [], [[], [["mkdir", "cases/c2"], ["set", "cases/c2/inp.txt", "a"]]], [[7, ["mvdir", "cases/c2", "elsewhere"]]]),
    ("dir_glob", [], [[["rmdir", "cases/c1"]]], [[15, ["mvdir", "cases/c2", "cases/c3"]]]),
    ("nested_dirs", [], [[], [["set", "src/lib/g3.in", "a"]]], [[9, ["mvdir", "src/lib", "src/lib2"]], [20, ["mvdir", "data/deep", "data/deep2"]]]),
    ("chain", [], [[], [["set", "s2.txt", "a"]]], [[5, ["set", "s2.txt", "b"]], [11, ["del", "s1.txt"]]]),
    ("glob_nodeless", [], [[], [["mvdir", "elsewhere", "data/b1"]]], [[14, ["mvdir", "data/b1", "elsewhere"]]]),
    ("glob_nodeless", [], [[], [["set", "data/b2/w.csv", "a"]]], [[22, ["mvdir", "data/b2", "data/b3"]]]),
    ("glob_nodeless", [], [[["mvdir", "data/b1", "elsewhere"]], [["del", "data/b2/z.csv"]], [["mvdir", "elsewhere", "data/b1"]]]),
    ("glob_nodeless", [], [[["rmdir", "data/b1"], ["set", "data/b2/w.csv", "a"]], [["rmdir", "data"]]]),
    ("glob_sub_slash", [], [[["set", "src/a/m3.py", "a"]], [["del", "src/a/m1.py"]], [["mkdir", "src/b"], ["set", "src/b/m4.py", "a"]]]),
    ("glob_sub_slash", [], [[["set", "src/a/m3.py", "a"], ["del", "src/a/m3.py"]], [["set", "src/a/m3.py", "a"]]]),
    ("odd_dir_names", [], [[["mvdir", "dq?", "dq_moved"]], [["mvdir", "dq_moved", "dq?"]]]),
    ("odd_dir_names", [], [[["mvdir", "ds*", "ds_moved"], ["mvdir", "d[b]", "db_moved"]], [["set", "s1.txt", "b"]]]),
    ("odd_dir_names", [], [[["rmdir", "dq?"]], [["mkdir", "dq?"], ["set", "dq?/d1.txt", "b"]]]),
    # F30: a matching directory created together with its (watched for, absent) parent
    ("sglob_dirs", [["rmdir", "data"]], [[["set", "data/b/y.txt", "b"]], [["mkdir", "data/c"]], [["rmdir", "data/b"]]], None, {"keep_going": True}),
]


def scripted_cases(seed):
    cases = []
    for j, item in enumerate(SCRIPTED + SCRIPTED):
        shape, between, watches = item[:3]
        during = item[3] if len(item) > 3 else None
        # one hash worker: the updates of a batch arrive in queue order (sorted paths when
        # watching, table order at startup); two workers: in an order chosen by the schedule
        cfg = {"njob": 1 if j < len(SCRIPTED) else 2, "resources": "gpu:2,tpu:2"}
        if len(item) > 4:
            cfg.update(item[4])
        proj = SHAPES[shape]()
        phases = [initial_phase(proj, cfg=cfg, seed=seed + j)]
        if between:
            phases.append({"edits": between, "how": "restart", "cfg": cfg, "seed": seed + 50 + j})
        if during:
            phases[-1]["during"] = copy.deepcopy(during)
        for w in watches:
            phases.append({"edits": w, "how": "watch"})
        cases.append({"tid": f"ws{j}-{shape}", "project": proj, "phases": phases, "seed": seed * 7 + j})
    return cases


def build_cases(seed, n):
    cases = scripted_cases(seed)
    cfgs = [{"njob": 1, "resources": "gpu:2,tpu:2"}, {"njob": 2, "resources": "gpu:2,tpu:2"},
            {"njob": 3, "resources": "gpu:2,tpu:2", "keep_going": True}]
    projects = []
    for name, fn in SHAPES.items():
        proj = fn()
        if proj.get("schedule_dependent"):
            continue
        projects.append((f"w-{name}", proj))
    for i in range(n):
        g = Gen(seed * 100003 + i + 900)
        g.features["fail"] = 0.0
        g.features["clobber"] = 0.0
        g.features["late_subplan"] = 0.0  # F8: outcome of such plans depends on the schedule
        projects.append((f"w{seed}-{i}", g.project()))
    for j, (tid, proj) in enumerate(projects):
        rng = random.Random(seed * 1009 + j)
        cfg = cfgs[j % 3]
        phases = [initial_phase(proj, cfg=cfg, seed=rng.randrange(10**6))]
        cur = {p: v[0] for p, v in proj["sources"].items()}
        if j % 3 == 2:
            # the watching director is a later one: directories vanished between the sessions
            tops = sorted({p.split("/", 1)[0] for p in proj["sources"] if "/" in p})
            gone = [["rmdir", t] for t in tops if rng.random() < 0.7]
            for e in gone:
                for p in list(cur):
                    if p.startswith(e[1] + "/"):
                        cur[p] = None
            phases.append({"edits": gone, "how": "restart", "cfg": cfg, "seed": rng.randrange(10**6)})
        outputs = ["o1.txt", "o2.txt", "out/o3.txt", "out/o1.txt", "o5.txt", "b.txt", "t1.txt"]
        for _ in range(rng.choice([2, 3, 4])):
            phases.append({"edits": random_events(rng, proj, cur, outputs), "how": "watch"})
        cases.append({"tid": tid, "project": proj, "phases": phases, "seed": seed * 13 + j})
    return cases


def main(argv=None):
    args = parse_args(argv)
    pid = "C14"
    n = {"quick": 70, "thorough": 1500}[args.tier]
    report = Report(pid, args.tier, args.seed)
    report.assumptions.extend([
        "both sides start from the same snapshot (database and tree) taken when the director starts watching",
        "events: create/modify/delete/modify-then-restore/delete-then-recreate of sources, glob matches, static-tree files and outputs; directory removal and move; plan edits",
        "real inotify on the real tree; the event loop is idle-driven so every event is consumed before the rebuild is requested",
    ])
    with Scratch():
        cases = build_cases(args.seed, n)
        results = pmap(exec_watch_case, cases)
        rel_lines, traces, replays = [], [], {}
        for kind, r in results:
            if kind == "err":
                report.machinery("harness crashed: " + r[:1500])
                continue
            rel_lines.extend(r["rels"])
            traces.extend(r["traces"])
            replays[r["tid"]] = r["replay"]
        for c in cases[:3]:
            report.sample({"tid": c["tid"], "watch_phases": [p["edits"] for p in c["phases"][1:]]})
        v = validate_rels(report, rel_lines) if rel_lines else None
        if v:
            report.add_verdicts(v["bad"], replays)
            report.coverage["relations_checked"] = v["cnt"]
            report.coverage["states"] = v["states"]
            report.coverage["transitions"] = v["lines"]
        try:
            tv = tlc.validate_traces(tlc.pack_batches(traces, 6000), parallel=12)
            for b in tv["bad"]:
                key = f"{b['prop']}:{b['clause']}"
                report.other[key] = report.other.get(key, 0) + 1
            report.coverage["states"] = report.coverage.get("states", 0) + tv["states"]
            report.coverage["transitions"] = report.coverage.get("transitions", 0) + tv["lines"]
            report.coverage["traces_validated_against_impl"] = len(traces)
        except tlc.TLCFailure as exc:
            report.machinery(str(exc)[:3000])
        report.coverage["watch_sessions"] = len(cases)
        report.coverage["rule"] = "one relation = one watch phase (event sequence) whose rebuild is compared with a restart on a copy of the same pre-state"
        if not v or v["cnt"].get("watch_eq_restart", 0) < 60:
            report.machinery("vacuous run: too few watch/restart comparisons")
        # Layer G: the file/step state machine (spec/FileStep.tla) model checked and replayed
        from checks import filestep
        fs = filestep.run(report, args.tier, args.seed, "C14")
        report.coverage["filestep"] = fs
        # Layer G: the sets the watcher keeps of one phase (spec/WatchSets.tla) model checked and replayed
        from checks import watchsets
        ws = watchsets.run(report, args.tier, args.seed, "C14")
        report.coverage["watchsets"] = ws
        report.coverage["states"] = report.coverage.get("states", 0) + ws.get("states", 0)
        report.coverage["traces_validated_against_impl"] = report.coverage.get("traces_validated_against_impl", 0) + ws.get("sequences", 0)
        report.coverage["states"] = report.coverage.get("states", 0) + fs.get("states", 0)
        report.coverage["traces_validated_against_impl"] = report.coverage.get("traces_validated_against_impl", 0) + fs.get("sequences", 0)
    return report.finish()


if __name__ == "__main__":
    sys.exit(main())
