"""C20: a path means the same file to a step and to the director.

spec/PathXlate.tla defines what a path means (lexical resolution on component sequences) and the
two translations by their meaning.  This harness executes the real code on a real directory tree
for a domain of (root, HERE, working directory, path) with `.`/`..` components, affixes, absolute
paths, working directories nested in / next to / outside the root, and lets TLC validate every
recorded call:

  translate / translate_back / _keep_affixes     called directly with STEPUP_ROOT and HERE set
                                                (and with HERE unset, from the step's directory)
  api.step / api.amend / api.static / get_info   called with a capturing RPC client
  Executor._run_command                         ROOT and HERE exported to steps with working
                                                directories, recorded from real Layer B runs

Besides TLC's verdicts, os.path.realpath on the real tree is compared as a cross-check.

usage: python -m checks.c20 --tier quick
"""

from __future__ import annotations

import json
import os
import random
import re
import shutil
import sys
import tempfile

sys.path.insert(0, os.path.dirname(os.path.dirname(os.path.abspath(__file__))))

from checks.common import Report, parse_args  # noqa: E402
from harness import tlc  # noqa: E402
from harness.runner import Scratch, run_history  # noqa: E402

HERES = [".", "sub", "sub/deep", "../sib", ".."]
REL_WORKDIRS = [".", "w", "w/", "./w", "..", "../", "w/../v", "w/x/.."]
REL_PATHS = ["f.txt", "./f.txt", "d/f.txt", "d/", "./d/", "../f.txt", "../../x/f.txt", "a/../b/./c.txt", "a//b.txt",
             ".", "./", "..", "x/..", "d/e/../../g.txt", "./../h.txt", "sub/deep/i.txt", "sub/", "../sub/j.txt"]


class Capture:
    """Stands in for the RPC client: records the calls, answers get_step_info."""

    def __init__(self):
        self.calls = []
        self.step_info = None
        outer = self

        class _Call:
            def __getattr__(self, name):
                def f(*args, **kwargs):
                    outer.calls.append((name, args, kwargs))
                    if name == "get_step_info":
                        return outer.step_info
                    if name == "amend_step":
                        return True
                    return None
                return f

        self.call = _Call()


def with_env(root, here, fn, unset_here=False):
    old_env = dict(os.environ)
    old_cwd = os.getcwd()
    try:
        os.environ["STEPUP_ROOT"] = root
        if unset_here:
            os.environ.pop("HERE", None)
        else:
            os.environ["HERE"] = here
        os.chdir(os.path.normpath(os.path.join(root, here)))
        return fn()
    finally:
        os.chdir(old_cwd)
        os.environ.clear()
        os.environ.update(old_env)


def call_str(fn):
    try:
        return str(fn())
    except Exception as exc:  # noqa: BLE001
        return f"<error {type(exc).__name__}: {exc}>"


def executor_env(root_hint):
    """(workdir, ROOT, HERE) exported by the real executor for steps with working directories."""
    from harness.projects import initial_phase

    wds = ["./", "sub/", "sub/deep/", "w/x/"]
    plan = [["static", ["s.txt"]]] + [["step", f"X{i}", {"inp": [], "out": [], "workdir": wd}] for i, wd in enumerate(wds)]
    proj = {"name": "c20env", "sources": {"plan.py": ["v1"], "s.txt": ["a"]},
            "scripts": {"./plan.py": {"on": "plan.py", "versions": {"v1": plan}}, **{f"X{i}": [["nop"]] for i in range(len(wds))}}}
    out = run_history(proj, [initial_phase(proj, cfg={"njob": 2}, seed=1)], policy="fifo")
    res = []
    for e in out["events"]:
        if e["ev"] == "cmd_start" and e["step"].startswith("X"):
            res.append({"step": e["step"], "cwd": e.get("cwd", ""), "ROOT": e.get("env_root", ""), "HERE": e.get("env_here", "")})
    return res, out["runs"][-1]["rc"]


def main(argv=None):
    args = parse_args(argv)
    pid = "C20"
    report = Report(pid, args.tier, args.seed)
    report.assumptions.extend([
        "lexical resolution: no symbolic links in the directories involved",
        "paths over the components f.txt d a b x sub deep w v .. . with leading ./ and trailing /, absolute paths inside and outside the root",
        "HERE values: the root, nested, a sibling of the root, the parent of the root; working directories relative (nested, parent, with ..) and absolute (inside and outside the root)",
    ])
    rng = random.Random(args.seed + 20)
    with Scratch():
        base = tempfile.mkdtemp(prefix="c20-", dir=os.environ.get("VERIF_SCRATCH"))
        root = os.path.join(base, "outer", "proj")
        for d in ["", "sub/deep", "w/x", "v", "d/e", "a", "b", "x", "abswd", "../sib", "../outwd"]:
            os.makedirs(os.path.normpath(os.path.join(root, d)), exist_ok=True)
        for dirpath, dirnames, _ in os.walk(os.path.join(base, "outer")):
            with open(os.path.join(dirpath, "data.txt"), "w") as fh_:
                fh_.write("x")
        from stepup.core import api
        from stepup.core.path import translate, translate_back
        from stepup.core.stepinfo import StepInfo

        abs_workdirs = [os.path.join(root, "abswd"), os.path.join(root, "abswd") + "/", os.path.join(root, "..", "outwd"), root + "/w/../abswd"]
        abs_paths = [os.path.join(root, "q/r.txt"), os.path.join(root, "q/../r.txt"), "/nonexistent/zz.txt", os.path.join(root, "abswd", "in.txt"),
                     os.path.join(root, "abswd2", "in.txt"), root, root + "/"]
        workdirs = REL_WORKDIRS + abs_workdirs
        paths = REL_PATHS + abs_paths
        vectors = []
        for here in HERES:
            for wd in workdirs:
                for path in paths:
                    if args.tier == "quick" and rng.random() < 0.45 and not (wd == "." or path in REL_PATHS[:4]):
                        continue
                    vectors.append({"kind": "xlate", "root": root, "here": here, "workdir": wd, "path": path, "mode": "env"})
            # the default of HERE: the step's directory relative to the root
            for path in paths:
                vectors.append({"kind": "xlate", "root": root, "here": here, "workdir": ".", "path": path, "mode": "cwd"})
        for i, v in enumerate(vectors):
            v["id"] = i
            unset = v["mode"] == "cwd"
            v["got_t"] = with_env(root, v["here"], lambda v=v: call_str(lambda: translate(v["path"], v["workdir"])), unset)
            v["got_b"] = with_env(root, v["here"], lambda v=v: call_str(lambda: translate_back(v["path"], v["workdir"])), unset)
            v["got_keep"] = with_env(root, v["here"], lambda v=v: call_str(lambda: api._keep_affixes(v["path"], translate)), unset)
        # ---- api functions with a capturing client
        api_checks = []
        amend_seqs = []
        real_get = api.get_rpc_client
        cap = Capture()
        api.get_rpc_client = lambda path=None: cap
        try:
            file_paths = [p for p in REL_PATHS if not p.endswith("/") and p not in (".", "..", "x/..")]
            for here in HERES:
                for wd in [".", "w/", "..", "w/../v", abs_workdirs[0]]:
                    inp = rng.sample(file_paths, 3)
                    outp = rng.sample(file_paths, 2)
                    volp = [p for p in rng.sample(file_paths, 3) if p not in outp][:2]
                    del cap.calls[:]
                    err = with_env(root, here, lambda: call_str(lambda: api.step("prog", inp=inp, out=outp, vol=volp, workdir=wd)))
                    sent = [c for c in cap.calls if c[0] == "define_step"]
                    api_checks.append({"fn": "step", "here": here, "workdir": wd, "inp": inp, "out": outp, "vol": volp, "err": err,
                                       "sent": [list(map(str, sent[0][1][2])), list(map(str, sent[0][1][4])), str(sent[0][1][6])] if sent else None,
                                       "sent_vol": list(map(str, sent[0][1][5])) if sent else None})
                os.environ["STEPUP_JOB_I"] = "1"
                for p_ in rng.sample(file_paths, 4):
                    del cap.calls[:]
                    for hist in api._AMEND_HISTORY.values():
                        hist.clear()
                    err = with_env(root, here, lambda p_=p_: call_str(lambda: api.amend(inp=[p_])))
                    sent = [c for c in cap.calls if c[0] == "amend_step"]
                    api_checks.append({"fn": "amend", "here": here, "workdir": ".", "inp": [p_], "out": [], "err": err,
                                       "sent": [sorted(map(str, sent[0][1][1])), [], "."] if sent else None})
                    # amended outputs and volatile outputs
                    del cap.calls[:]
                    for hist in api._AMEND_HISTORY.values():
                        hist.clear()
                    q_ = rng.choice([x for x in file_paths if x != p_])
                    err = with_env(root, here, lambda p_=p_, q_=q_: call_str(lambda: api.amend(out=[p_], vol=[q_])))
                    sent = [c for c in cap.calls if c[0] == "amend_step"]
                    api_checks.append({"fn": "amend", "here": here, "workdir": ".", "inp": [], "out": [p_], "vol": [q_], "err": err,
                                       "sent": [[], sorted(map(str, sent[0][1][3])), "."] if sent else None,
                                       "sent_vol": sorted(map(str, sent[0][1][4])) if sent else None})
                for p_ in ["sub/deep/i.txt", "d/f.txt", "f.txt", "../sib/k.txt"]:
                    for field in ("inp", "out", "vol"):
                        cap.step_info = StepInfo("prog", [p_] if field == "inp" else [], [], [p_] if field == "out" else [],
                                                 [p_] if field == "vol" else [], here)
                        info = with_env(root, here, lambda: api.get_info())
                        api_checks.append({"fn": "get_info", "here": here, "workdir": ".", "inp": [p_], "out": [], "err": "",
                                           "sent": [sorted(map(str, getattr(info, field))), [], "."]})
                # several amend() calls of one step process: what was sent before is not sent again,
                # but every distinct file must reach the director under its root-relative name
                for _ in range(3):
                    cand = ["data.txt", "../data.txt", "sub/data.txt", "deep/data.txt", "./data.txt", "../sub/data.txt", "../../data.txt",
                            "sub/deep/data.txt", "../proj/data.txt", "proj/data.txt", "proj/sub/data.txt"]
                    hdir = os.path.normpath(os.path.join(root, here))
                    seq = [c for c in cand if os.path.exists(os.path.join(hdir, c))]
                    rng.shuffle(seq)
                    for hist in api._AMEND_HISTORY.values():
                        hist.clear()
                    del cap.calls[:]
                    for p_ in seq:
                        with_env(root, here, lambda p_=p_: call_str(lambda: api.amend(inp=[p_])))
                    sent_all = sorted({str(x) for c in cap.calls if c[0] == "amend_step" for x in c[1][1]})
                    amend_seqs.append({"here": here, "seq": seq, "sent": sent_all})
                os.environ.pop("STEPUP_JOB_I", None)
        finally:
            api.get_rpc_client = real_get
        # every api call becomes xlate vectors whose got_t is what was sent
        for chk in api_checks:
            if chk["sent"] is None:
                report.add_violation("api_call_failed", json.dumps({k: chk[k] for k in ("fn", "here", "workdir", "err")}), chk, tid="api")
                continue
            if chk["fn"] == "get_info":
                for p, got in zip(chk["inp"], chk["sent"][0]):
                    vectors.append({"kind": "xlate", "root": root, "here": chk["here"], "workdir": ".", "path": p, "mode": "get_info",
                                    "got_t": with_env(root, chk["here"], lambda p=p: call_str(lambda: translate(p))), "got_b": got,
                                    "got_keep": with_env(root, chk["here"], lambda p=p: call_str(lambda: api._keep_affixes(p, translate)))})
                continue
            sent_inp, sent_out, sent_wd = chk["sent"]
            pairs = list(zip(chk["inp"], sent_inp)) + list(zip(chk["out"], sent_out)) + list(zip(chk.get("vol", []), chk.get("sent_vol") or []))
            for p, got in pairs:
                vectors.append({"kind": "xlate", "root": root, "here": chk["here"], "workdir": chk["workdir"], "path": p, "mode": "api." + chk["fn"],
                                "got_t": got,
                                "got_b": with_env(root, chk["here"], lambda p=p, chk=chk: call_str(lambda: translate_back(p, chk["workdir"]))),
                                "got_keep": with_env(root, chk["here"], lambda p=p: call_str(lambda: api._keep_affixes(p, translate)))})
            if chk["fn"] == "step":
                vectors.append({"kind": "xlate", "root": root, "here": chk["here"], "workdir": ".", "path": chk["workdir"], "mode": "api.step.workdir",
                                "got_t": sent_wd,
                                "got_b": with_env(root, chk["here"], lambda chk=chk: call_str(lambda: translate_back(chk["workdir"]))),
                                "got_keep": with_env(root, chk["here"], lambda chk=chk: call_str(lambda: api._keep_affixes(chk["workdir"], translate)))})
        # amend sequences: one xlate vector per argument (got_t = the real translate), the union of
        # the specification's translations must be what reached the director
        seq_index = []
        for sq in amend_seqs:
            ids = []
            for p_ in sq["seq"]:
                vectors.append({"kind": "xlate", "root": root, "here": sq["here"], "workdir": ".", "path": p_, "mode": "api.amend.seq",
                                "got_t": with_env(root, sq["here"], lambda p_=p_, sq=sq: call_str(lambda: translate(p_))),
                                "got_b": with_env(root, sq["here"], lambda p_=p_, sq=sq: call_str(lambda: translate_back(p_))),
                                "got_keep": with_env(root, sq["here"], lambda p_=p_, sq=sq: call_str(lambda: api._keep_affixes(p_, translate)))})
                ids.append(len(vectors) - 1)
            seq_index.append((sq, ids))
        # ---- what the executor exports
        envs, rc = executor_env(root)
        if rc != 0 or len(envs) < 4:
            report.machinery(f"executor run did not complete (rc={rc}, {len(envs)} steps)")
        for e in envs:
            # the director's working directory is the root of that run; cwd of the step is relative to it
            vectors.append({"kind": "env", "root": "/R", "workdir": e["cwd"], "ROOT": e["ROOT"], "HERE": e["HERE"], "mode": "executor"})
        for i, v in enumerate(vectors):
            v["id"] = i
        # ---- TLC
        work = tlc.scratch_dir("vpath-")
        chunks = [vectors[i::12] for i in range(12) if vectors[i::12]]
        results = {}
        states = 0
        from concurrent.futures import ThreadPoolExecutor

        def one(ic):
            i, chunk = ic
            tf, vf = os.path.join(work, f"in{i}.ndjson"), os.path.join(work, f"out{i}.json")
            with open(tf, "w") as fh:
                for v in chunk:
                    fh.write(json.dumps({k: v[k] for k in v if k != "mode"}, separators=(",", ":")) + "\n")
            rc_, out, secs = tlc.run_tlc("PathXlate.tla", "PathXlate.cfg", env={"TRACE_FILE": tf, "VERDICT_FILE": vf}, workers=1, timeout=1800)
            if not os.path.exists(vf) or "Error:" in out:
                raise tlc.TLCFailure(f"PathXlate batch {i} failed:\n{out[-3000:]}")
            with open(vf) as fh:
                res = json.load(fh)
            if res["n"] != len(chunk):
                raise tlc.TLCFailure(f"TLC consumed {res['n']} of {len(chunk)} vectors")
            m = re.search(r"(\d+) states generated, (\d+) distinct states found", out)
            return res["vectors"], int(m.group(2)) if m else 0

        try:
            with ThreadPoolExecutor(max_workers=12) as ex:
                for vecs, st in ex.map(one, enumerate(chunks)):
                    states += st
                    for r in vecs:
                        results[r["id"]] = r
        except tlc.TLCFailure as exc:
            report.machinery(str(exc)[:3000])
            return report.finish()
        finally:
            shutil.rmtree(work, ignore_errors=True)
        for sq, ids in seq_index:
            want = sorted({results[vectors[i]["id"]]["translate"] for i in ids})
            if want != sq["sent"]:
                report.add_violation("amended_inputs_did_not_all_reach_the_director",
                                     json.dumps({"here": sq["here"], "calls": sq["seq"], "sent": sq["sent"], "want": want}).replace(root, "<root>")[:700],
                                     {"here": sq["here"], "seq": sq["seq"]}, tid="amendseq")
        nontrivial = 0
        for v in vectors:
            r = results[v["id"]]
            bad = r["bad"] if isinstance(r["bad"], list) else []
            if v["kind"] == "xlate" and (v["got_t"] != v["path"] or v["here"] != "."):
                nontrivial += 1
            for clause in bad:
                if clause == "affixes_not_preserved" and v["got_keep"].startswith("<error"):
                    # restoring `./` in front of a path that climbs out or is absolute is refused by apply_affixes
                    if r["translate"].startswith(("/", "./")):
                        continue
                subj = {k: v.get(k) for k in ("mode", "here", "workdir", "path", "got_t", "got_b", "got_keep", "ROOT", "HERE") if k in v}
                subj["want_translate"] = r.get("translate")
                subj["want_back"] = r.get("back")
                subj["root"] = "<root>"
                report.add_violation(clause, json.dumps(subj, sort_keys=True).replace(root, "<root>")[:700], {"vector": v}, tid=f"{v['mode']}:{v['id']}")
            # cross-check on the real tree
            if v["kind"] == "xlate" and not v["got_t"].startswith("<error"):
                meant = os.path.realpath(os.path.join(root, v["here"], v["workdir"], v["path"]))
                got = os.path.realpath(os.path.join(root, v["got_t"]))
                if meant != got:
                    report.add_violation("realpath_of_translated_path_differs", json.dumps({k: v[k] for k in ("mode", "here", "workdir", "path", "got_t")}).replace(root, "<root>"),
                                         {"vector": v}, tid=f"rp:{v['id']}")
        for v in vectors[:3] + [x for x in vectors if x["mode"].startswith("api")][:1] + [x for x in vectors if x["kind"] == "env"][:1]:
            report.sample({k: (val.replace(root, "<root>") if isinstance(val, str) else val) for k, val in v.items()})
        report.coverage.update({
            "states": states, "transitions": len(vectors), "traces_validated_against_impl": len(vectors),
            "evaluations": len(vectors), "distinct_nontrivial": nontrivial,
            "by_mode": {m: sum(1 for v in vectors if v["mode"] == m) for m in sorted({v["mode"] for v in vectors})},
            "rule": "one evaluation = one recorded call (translate, translate_back, _keep_affixes, api.step/amend/get_info, executor environment) validated by TLC against PathXlate.tla; non-trivial = the result differs from the argument or the caller is not in the root",
        })
        shutil.rmtree(base, ignore_errors=True)
        if len(vectors) < 300:
            report.machinery("vacuous run")
    return report.finish()


if __name__ == "__main__":
    sys.exit(main())
