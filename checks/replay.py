"""Re-execute a replay file against /repo's current tree and show the verdicts and their context.

usage: ./verif replay <file> [--context N] [--no-states]
Exit code 1 if the recorded clause is violated again, 0 otherwise.
"""

from __future__ import annotations

import argparse
import json
import os
import sys

sys.path.insert(0, os.path.dirname(os.path.dirname(os.path.abspath(__file__))))

from harness import tlc  # noqa: E402
from harness.runner import Scratch, run_history  # noqa: E402


def show_state(st, only_steps=False):
    for k, v in sorted(st["nodes"].items()):
        if v["kind"] == "step":
            print(
                "      ", k, "cr=" + v["creator"], "det" if v["detached"] else "att", v["sstate"],
                v["need"], "inr=" + v["impliedNeed"], "safe=%d/%d" % (v["safe"], v["safeNH"]),
                "chk=%d%d%d" % (v["chkSafe"], v["chkAfter"], v["chkReady"]), "hold=%d" % v["holding"],
                "hash=%d" % v["hasStepHash"], "rdy=%d" % v["ready"], "dfr=%d/%d" % (v["deferred"], v["deferCount"]),
                "res=%s" % v["resources"] if v["resources"] else "",
            )
        elif not only_steps and v["kind"] in ("file", "st"):
            print("      ", k, "cr=" + v["creator"], "det" if v["detached"] else "att", v["fstate"], v["fhash"][:30].replace("\n", " "))
    if not only_steps:
        print("       deps:", " ".join(f"{a}->{b}{'*' if d else ''}" for a, b, d in st["deps"]))


def replay_layer_g(rep, case):
    """Layer G replays: execute the stored action sequence (or configuration) on the real code again
    and print what the code does after every action; the recorded subject holds what the
    specification expected at the failing action."""
    import asyncio
    import re

    tid = rep.get("tid") or ""
    kind = re.match(r"[a-z]+", tid).group(0) if re.match(r"[a-z]+", tid) else ""
    print("recorded:", rep.get("clause"))
    print("subject :", str(rep.get("subject"))[:3000])
    with Scratch():
        if kind == "sc":
            from checks import schedcache as mod
            states = asyncio.run(mod.execute(case["acts"], case["enabled"]))
        elif kind == "pl":
            from checks import plans as mod
            states = asyncio.run(mod.execute(case["acts"], case["enabled"]))
        elif kind == "rc":
            from checks import recycle as mod
            states = asyncio.run(mod.execute(case["acts"], case["enabled"]))
        elif kind == "fs":
            from checks import filestep as mod
            states = asyncio.run(mod.execute(case["inp"], case["acts"], case["enabled"]))
        elif kind == "wsets":
            from checks import watchsets as mod
            states = asyncio.run(mod.execute(case["acts"], case["enabled"]))
        elif kind == "cl":
            from checks import cleanup as mod
            print("configuration:", json.dumps(case["config"], sort_keys=True))
            print("code result  :", json.dumps(asyncio.run(mod.execute(case["config"])), sort_keys=True)[:3000])
            return 0
        elif kind == "df":
            print("sequence:", json.dumps(case["case"], sort_keys=True)[:3000])
            print("(the consumer's view of the overlap with its producer is an argument computed by the specification;")
            print(" run `python -m checks.defer --tier quick` to evaluate the sequence again with TLC)")
            return 0
        else:
            print("unknown Layer G replay kind:", tid)
            return 2
    acts = case["acts"]
    for k, (a, en) in enumerate(zip(acts, case["enabled"])):
        print(k, json.dumps(a, sort_keys=True), "" if en else "(not enabled: skipped)")
        if k < len(states):
            print("     code:", json.dumps(states[k], sort_keys=True)[:1500])
    return 0


def replay_job(rep, case):
    """Re-run one history of checks/job.py and match it against spec/Job.tla again."""
    import shutil

    from checks import job

    with Scratch():
        r = job.exec_case({"tid": case["tid"], "phases": case["phases"]})
        work = tlc.scratch_dir("vjobr-")
        try:
            tf, vf = os.path.join(work, "in.ndjson"), os.path.join(work, "out.json")
            with open(tf, "w") as fh:
                fh.write(json.dumps({"id": r["tid"], "evs": r["evs"]}, separators=(",", ":")) + "\n")
            _rc, out, _s = tlc.run_tlc("Job.tla", "Job.cfg", env={"TRACE_FILE": tf, "VERDICT_FILE": vf}, workers=1, timeout=600)
            if not os.path.exists(vf):
                print(out[-3000:])
                return 2
            with open(vf) as fh:
                bad = json.load(fh)["vectors"][0]["bad"]
        finally:
            shutil.rmtree(work, ignore_errors=True)
    bad = bad if isinstance(bad, list) else []
    print("phases:")
    for ph in case["phases"]:
        print("   ", ph.get("how"), ph.get("edits"), ph.get("cfg"), ph.get("during"))
    first = int(bad[0]["k"]) if bad else len(r["evs"])
    for k, e in enumerate(r["evs"], start=1):
        if k > first + 2:
            break
        if k >= first - 14:
            print(k, json.dumps(e, sort_keys=True))
    hit = False
    for b in bad[:5]:
        mark = ""
        if b["clause"] == rep["clause"]:
            hit = True
            mark = "  <== recorded violation"
        print("   event", b["k"], b["clause"], "model before:", json.dumps(b["model"], sort_keys=True), "job:", json.dumps(b["job"], sort_keys=True), mark)
    print("REPRODUCED" if hit else "NOT REPRODUCED")
    return 1 if hit else 0


def main(argv=None):
    ap = argparse.ArgumentParser()
    ap.add_argument("file")
    ap.add_argument("--context", type=int, default=12)
    ap.add_argument("--no-states", action="store_true")
    ap.add_argument("--line", type=int, default=None)
    args = ap.parse_args(argv)
    with open(args.file) as fh:
        rep = json.load(fh)
    case = rep["case"]
    if case is not None and case.get("job_model"):
        return replay_job(rep, case)
    if case is not None and "project" not in case and ("acts" in case or "config" in case or "case" in case):
        return replay_layer_g(rep, case)
    if case is None or "project" not in case:
        print("replay file carries no executable case; content:")
        print(json.dumps(rep, indent=1)[:4000])
        return 2
    with Scratch():
        out = run_history(case["project"], case["phases"], policy="random")
        lines = tlc.export_trace(case["tid"], out["events"])
        verdict = tlc.validate_traces([lines])
    print("phases:")
    for ph in case["phases"]:
        print("   ", ph.get("how"), ph.get("edits"), ph.get("cfg"))
    print("plan:", json.dumps(case["project"]["scripts"]["./plan.py"], indent=None)[:3000])
    for k, v in case["project"]["scripts"].items():
        if k != "./plan.py" and isinstance(v, dict):
            print(k, json.dumps(v)[:2000])
    print("verdicts:")
    hit = False
    for b in verdict["bad"]:
        mark = ""
        if b["prop"] == rep["property"] and b["clause"] == rep["clause"]:
            hit = True
            mark = "  <== recorded violation"
        print("   ", b, mark)
    line = args.line or rep.get("line") or 0
    if line:
        lo = max(1, line - args.context)
        last = None
        for i, text in enumerate(lines, start=1):
            e = json.loads(text)
            st = e.pop("state", None)
            if st is not None:
                last = st
            if lo <= i <= line + 2:
                print(i, {k: v for k, v in e.items() if k not in ("tid", "seq", "k")})
                if st is not None and not args.no_states and i >= line - 3:
                    show_state(st)
        if last is not None and args.no_states:
            show_state(last)
    print("REPRODUCED" if hit else "NOT REPRODUCED")
    return 1 if hit else 0


if __name__ == "__main__":
    sys.exit(main())
