"""Layer G: incremental maintenance of the scheduler's cached columns (spec/SchedCache.tla) replayed
into the real Workflow + Scheduler.

SchedCache.tla is model checked (cache = definition whenever no row is flagged; the pre-F1 and the
pre-F2 variants are expected to be violated: the model finds both defects), and action sequences
evaluated by TLC are executed on the real code through the primitives the rest of the code goes
through (define_step for create / full recycle / re-create, Step.detach, Step.set_state, Step.hold /
release, Node.add_source / del_sources, Scheduler._update_meta_*).  After every action every column
is compared: creator, detached, state, _holding, need, _safe, _safe_ignoring_hold, _implied_need,
_tail_time and the two flags.

Library for the checks of C10, C11 and C12 (`run(report, ...)`); can be run alone.
"""

from __future__ import annotations

import asyncio
import json
import os
import random
import re
import shutil
import sys

sys.path.insert(0, os.path.dirname(os.path.dirname(os.path.abspath(__file__))))

from harness import tlc  # noqa: E402

N = 4
NEEDS = [1, 2, 4]
STATES = ["P", "R", "S", "F"]


def random_actions(rng, n):
    """Random sequences; a rough tracker (not authoritative: TLC decides what is enabled) steers the
    choice towards actions that are likely enabled."""
    acts = [{"a": "state", "s": 1, "x": "R"}]
    exist, det, held, edges = {1}, set(), set(), set()
    for s in rng.sample([2, 3, 4], rng.choice([2, 3, 3])):
        acts.append({"a": "create", "s": s, "c": rng.choice(sorted(exist)), "n": rng.choice(NEEDS)})
        exist.add(s)
    while len(acts) < n:
        k = rng.random()
        s = rng.choice(sorted(exist))
        c = rng.choice(sorted(exist))
        if k < 0.06 and len(exist) < N:
            s = rng.choice(sorted(set(range(1, N + 1)) - exist))
            acts.append({"a": "create", "s": s, "c": c, "n": rng.choice(NEEDS)})
            exist.add(s)
        elif k < 0.26:
            x = rng.choice(["R", "R", "S", "P", "F"])
            acts.append({"a": "state", "s": s, "x": x})
            if x != "R":
                held.discard(s)
        elif k < 0.36:
            acts.append({"a": "hold", "s": s})
            held.add(s)
        elif k < 0.46:
            s = rng.choice(sorted(held)) if held and rng.random() < 0.8 else s
            acts.append({"a": "release", "s": s})
            held.discard(s)
        elif k < 0.56:
            s = rng.choice([x for x in sorted(exist) if x != 1] or [1])
            acts.append({"a": "detach", "s": s})
            det.add(s)
        elif k < 0.68:
            s = rng.choice(sorted(det)) if det and rng.random() < 0.85 else s
            acts.append({"a": "recycle", "s": s, "c": c, "n": rng.choice(NEEDS)})
            det.discard(s)
        elif k < 0.76:
            s = rng.choice(sorted(det)) if det and rng.random() < 0.85 else s
            acts.append({"a": "recreate", "s": s, "c": c, "n": rng.choice(NEEDS)})
            det.discard(s)
            edges = {e for e in edges if e[1] != s}
        elif k < 0.86:
            acts.append({"a": "addcons", "p": s, "c": c, "dyn": rng.random() < 0.5})
            edges.add((s, c))
        elif k < 0.91:
            if edges and rng.random() < 0.85:
                s, c = rng.choice(sorted(edges))
            acts.append({"a": "delcons", "p": s, "c": c})
            edges.discard((s, c))
        else:
            acts.append({"a": "out", "p": s, "k": rng.choice(["built", "built", "outdate", "vanish"])})
        if rng.random() < 0.4:
            acts.append({"a": "update"})
    acts.append({"a": "update"})
    return acts


def scripted():
    up = {"a": "update"}
    res = []
    # F1: a chain 1 -> 2 -> 3 -> 4; 2 holds and releases while 3 is live
    res.append([{"a": "state", "s": 1, "x": "R"}, {"a": "create", "s": 2, "c": 1, "n": 4}, up, {"a": "state", "s": 2, "x": "R"},
                {"a": "create", "s": 3, "c": 2, "n": 4}, up, {"a": "state", "s": 3, "x": "R"}, {"a": "create", "s": 4, "c": 3, "n": 2}, up,
                {"a": "hold", "s": 2}, up, {"a": "release", "s": 2}, up, {"a": "hold", "s": 2}, {"a": "state", "s": 3, "x": "S"}, up,
                {"a": "release", "s": 2}, {"a": "state", "s": 2, "x": "S"}, up])
    # F2: an optional producer loses its last consumer edge
    res.append([{"a": "state", "s": 1, "x": "R"}, {"a": "create", "s": 2, "c": 1, "n": 1}, {"a": "create", "s": 3, "c": 1, "n": 2},
                {"a": "addcons", "p": 2, "c": 3, "dyn": False}, up, {"a": "delcons", "p": 2, "c": 3}, up, {"a": "addcons", "p": 2, "c": 3, "dyn": False}, up,
                {"a": "detach", "s": 3}, up, {"a": "recycle", "s": 3, "c": 1, "n": 2}, up, {"a": "detach", "s": 3}, up,
                {"a": "recreate", "s": 3, "c": 1, "n": 2}, up])
    # a consumer two creator levels below a detached plan (RECURSIVE_CHECK_AFTER_SOURCES walks the subtree)
    res.append([{"a": "state", "s": 1, "x": "R"}, {"a": "create", "s": 2, "c": 1, "n": 1}, {"a": "create", "s": 3, "c": 1, "n": 4},
                {"a": "state", "s": 3, "x": "R"}, {"a": "create", "s": 4, "c": 3, "n": 2}, {"a": "addcons", "p": 2, "c": 4, "dyn": True}, up,
                {"a": "detach", "s": 3}, up, {"a": "recycle", "s": 3, "c": 1, "n": 4}, up])
    # an edge added to an existing step raises the need of the optional producer behind it
    res.append([{"a": "state", "s": 1, "x": "R"}, {"a": "create", "s": 2, "c": 1, "n": 1}, {"a": "create", "s": 3, "c": 1, "n": 2}, up,
                {"a": "state", "s": 3, "x": "R"}, {"a": "addcons", "p": 2, "c": 3, "dyn": False}, up, {"a": "create", "s": 4, "c": 1, "n": 1},
                {"a": "addcons", "p": 4, "c": 2, "dyn": False}, up, {"a": "delcons", "p": 2, "c": 3}, up])
    # recycled subtree below a holder
    res.append([{"a": "state", "s": 1, "x": "R"}, {"a": "create", "s": 2, "c": 1, "n": 4}, {"a": "state", "s": 2, "x": "R"},
                {"a": "create", "s": 3, "c": 2, "n": 2}, {"a": "create", "s": 4, "c": 3, "n": 2}, up, {"a": "detach", "s": 3}, up,
                {"a": "hold", "s": 2}, {"a": "recycle", "s": 3, "c": 2, "n": 2}, up, {"a": "release", "s": 2}, up,
                {"a": "state", "s": 2, "x": "F"}, up, {"a": "state", "s": 2, "x": "P"}, {"a": "state", "s": 2, "x": "R"}, up])
    # readiness: initial and amended inputs, outputs built / outdated / gone, producers detached and back
    res.append([{"a": "state", "s": 1, "x": "R"}, {"a": "create", "s": 2, "c": 1, "n": 2}, {"a": "create", "s": 3, "c": 1, "n": 2},
                {"a": "create", "s": 4, "c": 1, "n": 2}, {"a": "addcons", "p": 2, "c": 3, "dyn": False}, {"a": "addcons", "p": 2, "c": 4, "dyn": True}, up,
                {"a": "out", "p": 2, "k": "built"}, up, {"a": "state", "s": 3, "x": "S"}, {"a": "out", "p": 3, "k": "built"}, up,
                {"a": "out", "p": 2, "k": "outdate"}, up, {"a": "out", "p": 2, "k": "built"}, up, {"a": "detach", "s": 2}, up,
                {"a": "recycle", "s": 2, "c": 1, "n": 2}, up, {"a": "out", "p": 2, "k": "vanish"}, up, {"a": "detach", "s": 2}, up,
                {"a": "recreate", "s": 2, "c": 1, "n": 2}, up, {"a": "delcons", "p": 2, "c": 4}, up])
    return res


async def execute(acts, enabled):
    from stepup.core.enums import FileState, HashUpdateCause, Need, StepState
    from stepup.core.hash import FileHash
    from stepup.core.file import File
    from stepup.core.scheduler import Scheduler
    from stepup.core.sqlite3 import DBSession
    from stepup.core.step import Step
    from stepup.core.workflow import Workflow

    need_of = {1: Need.OPTIONAL, 2: Need.DEFAULT, 4: Need.PLAN}
    rank_of = {Need.OPTIONAL.value: 1, Need.DEFAULT.value: 2, Need.TARGET.value: 3, Need.PLAN.value: 4}
    state_of = {"P": StepState.PENDING, "R": StepState.RUNNING, "S": StepState.SUCCEEDED, "F": StepState.FAILED}
    letter = {v.value: k for k, v in state_of.items()}
    letter[StepState.CHECKING.value] = "C"

    with DBSession.open(":memory:") as db:
        wf = Workflow(db, dir_queue=None)
        await wf.initialize()
        sched = Scheduler(wf, db=db)
        await sched.initialize(None)
        envtag = {s: 0 for s in range(1, N + 1)}

        def update():
            sched._update_meta_safe()
            sched._update_meta_after()
            sched._update_meta_ready()

        async with db:
            wf.define_step(wf.root, "S1", out_paths=["o1"], need=Need.PLAN, _safe=True)
            update()

        def step(s):
            row = db.execute("SELECT i FROM node WHERE kind = 'step' AND label = ?", (f"S{s}",)).fetchone()
            return None if row is None else Step(wf, row[0], f"S{s}")

        def ofile(s):
            row = db.execute("SELECT i FROM node WHERE kind = 'file' AND label = ?", (f"o{s}",)).fetchone()
            return File(wf, row[0], f"o{s}")

        def inputs(s):
            """Initial (not amended) inputs: what a re-declaration must repeat to recycle the step."""
            st = step(s)
            return sorted(r[0] for r in db.execute(
                "SELECT n.label FROM dependency d JOIN node n ON n.i = d.source WHERE d.sink = ? AND n.kind = 'file' "
                "AND NOT EXISTS (SELECT 1 FROM dynamic_dep dd WHERE dd.i = d.i)", (st.i,)))

        counter = [0]

        def fake():
            counter[0] += 1
            k_ = counter[0]
            return FileHash(bytes([k_ % 256]) * 32, 0o100644, float(k_), 3, k_)

        def snapshot():
            ids = {}
            for s in range(1, N + 1):
                st = step(s)
                if st is not None:
                    ids[st.i] = s
            ids[wf.root.i] = 0
            res = []
            for s in range(1, N + 1):
                st = step(s)
                if st is None:
                    res.append({"ex": False})
                    continue
                cr, det = db.execute("SELECT creator, detached FROM node WHERE i = ?", (st.i,)).fetchone()
                row = db.execute("SELECT state, _holding, need, _safe, _safe_ignoring_hold, _implied_need, _tail_time, "
                                 "_check_safe, _check_after, _ready, _check_ready FROM step WHERE node = ?", (st.i,)).fetchone()
                frow = db.execute("SELECT file.state FROM node JOIN file ON file.node = node.i WHERE node.kind = 'file' AND node.label = ?",
                                  (f"o{s}",)).fetchone()
                inp = sorted([int(r[0][1:]), bool(r[1])] for r in db.execute(
                    "SELECT n.label, EXISTS (SELECT 1 FROM dynamic_dep dd WHERE dd.i = d.i) FROM dependency d JOIN node n ON n.i = d.source "
                    "WHERE d.sink = ? AND n.kind = 'file'", (st.i,)))
                res.append({"ex": True, "cr": -1 if cr is None else ids.get(cr, -2), "det": bool(det), "st": letter[row[0]],
                            "hold": row[1], "need": rank_of[row[2]], "safe": bool(row[3]), "nh": bool(row[4]),
                            "impl": rank_of[row[5]], "tail": row[6], "ckS": bool(row[7]), "ckA": bool(row[8]),
                            "ready": bool(row[9]), "ckR": bool(row[10]), "fo": "NONE" if frow is None else FileState(frow[0]).name, "inp": inp})
            return res

        states = []
        for a, en in zip(acts, enabled):
            if en:
                try:
                    async with db:
                        k = a["a"]
                        if k == "create":
                            wf.define_step(step(a["c"]), f"S{a['s']}", out_paths=[f"o{a['s']}"], env_deps=["E0"], need=need_of[a["n"]])
                        elif k == "recycle":
                            s = a["s"]
                            wf.define_step(step(a["c"]), f"S{s}", inp_paths=inputs(s), out_paths=[f"o{s}"],
                                           env_deps=[f"E{envtag[s]}"], need=need_of[a["n"]])
                        elif k == "recreate":
                            s = a["s"]
                            envtag[s] = 1 - envtag[s]
                            wf.define_step(step(a["c"]), f"S{s}", out_paths=[f"o{s}"], env_deps=[f"E{envtag[s]}"], need=need_of[a["n"]])
                        elif k == "state":
                            step(a["s"]).set_state(state_of[a["x"]])
                        elif k == "hold":
                            step(a["s"]).hold()
                        elif k == "release":
                            step(a["s"]).release()
                        elif k == "detach":
                            step(a["s"]).detach()
                        elif k == "addcons":
                            idep = step(a["c"]).add_source(ofile(a["p"]))
                            if a["dyn"]:
                                db.execute("INSERT INTO dynamic_dep VALUES (?)", (idep,))
                        elif k == "out":
                            path = f"o{a['p']}"
                            if a["k"] == "built":
                                wf.update_file_hashes({path: fake()}, cause=HashUpdateCause.SUCCEEDED)
                            elif a["k"] == "outdate":
                                wf.mark_file_outdated(ofile(a["p"]))
                            else:
                                wf.update_file_hashes({path: FileHash.unknown()}, cause=HashUpdateCause.EXTERNAL)
                        elif k == "delcons":
                            step(a["c"]).del_sources([ofile(a["p"])])
                        elif k == "update":
                            update()
                except Exception as exc:  # noqa: BLE001
                    states.append({"error": f"{type(exc).__name__}: {exc}"})
                    break
            async with db:
                states.append(snapshot())
    return states


def norm(e):
    st = e["st"]
    res = []
    for i in range(N):
        if not st["ex"][i]:
            res.append({"ex": False})
            continue
        res.append({"ex": True, "cr": st["cr"][i], "det": bool(st["det"][i]), "st": st["st"][i], "hold": st["hold"][i],
                    "need": st["need"][i], "safe": bool(st["safe"][i]), "nh": bool(st["nh"][i]), "impl": st["impl"][i],
"tail": st["tail"][i], "ckS": bool(st["ckS"][i]), "ckA": bool(st["ckA"][i]),
                    "ready": bool(st["ready"][i]), "ckR": bool(st["ckR"][i]), "fo": st["fo"][i],
                    "inp": sorted([int(e[0]), bool(e[1])] for e in st["inp"][i])})
    return res


STRUCT = ("ex", "cr", "det", "st", "hold", "need", "fo", "inp")
# (_tail_time is a priority heuristic, not part of any dispatch condition: compared for information only)
CACHED = (("safe", "dsafe"), ("nh", "dnh"), ("impl", "dimpl"))
STRICT = os.environ.get("VERIF_SCHEDCACHE_STRICT") == "1"


def compare(gst, want, spec_st, stats):
    """What is demanded of the code: (1) every graph modification changes creator / detached / state /
    holds / need as the specification says; (2) whenever no row is flagged, the cached columns of every
    attached row equal the definitions.  The flags themselves are the code's business (flagging more is
    harmless, flagging less is a defect exactly when (2) fails): they are only counted."""
    if isinstance(gst, dict):
        return "scheduler_primitive_raised", gst
    diff = [{"step": j + 1, "code": {k: g_.get(k) for k in STRUCT}, "spec": {k: w_.get(k) for k in STRUCT}}
            for j, (g_, w_) in enumerate(zip(gst, want)) if {k: g_.get(k) for k in STRUCT} != {k: w_.get(k) for k in STRUCT}]
    if diff:
        return "graph_modification_differs_from_specification", diff
    for g_, w_ in zip(gst, want):
        if g_["ex"]:
            for f in ("ckS", "ckA", "ckR"):
                if w_[f] and not g_[f]:
                    stats["flag_missing_vs_spec"] = stats.get("flag_missing_vs_spec", 0) + 1
                if g_[f] and not w_[f]:
                    stats["flag_extra_vs_spec"] = stats.get("flag_extra_vs_spec", 0) + 1
    if STRICT and gst != want:
        return "strict_comparison_differs", [{"step": j + 1, "code": g_, "spec": w_} for j, (g_, w_) in enumerate(zip(gst, want)) if g_ != w_]
    if any(g_["ex"] and (g_["ckS"] or g_["ckA"] or g_["ckR"]) for g_ in gst):
        return None
    stats["clean_states_compared"] = stats.get("clean_states_compared", 0) + 1
    diff = []
    for j, g_ in enumerate(gst):
        if g_["ex"] and not g_["det"]:
            for col, dcol in CACHED:
                d = spec_st[dcol][j]
                d = bool(d) if col in ("safe", "nh") else d
                if g_[col] != d:
                    diff.append({"step": j + 1, "column": col, "code": g_[col], "definition": d})
    for j, g_ in enumerate(gst):
        if g_["ex"] and not g_["det"] and g_["tail"] != spec_st["dtail"][j]:
            stats["tail_time_differs_from_model"] = stats.get("tail_time_differs_from_model", 0) + 1
    for j, g_ in enumerate(gst):
        # _ready is recomputed for detached rows as well
        if g_["ex"] and g_["ready"] != bool(spec_st["dready"][j]):
            diff.append({"step": j + 1, "column": "ready", "code": g_["ready"], "definition": bool(spec_st["dready"][j])})
    if diff:
        return "cached_column_differs_from_definition_when_nothing_is_flagged", diff
    return None


MODELS = {
    "quick": [("SchedCacheSafe.cfg", 600), ("SchedCacheAfter.cfg", 600)],
    "thorough": [("SchedCacheSafe4.cfg", 1800), ("SchedCacheAfter.cfg", 900), ("SchedCacheReady.cfg", 2400)],
}


def run(report, tier: str, seed: int, prop: str) -> dict:
    stats = {"states": 0, "sequences": 0, "actions": 0}
    for cfg, tmo in MODELS[tier]:
        if cfg == "SchedCacheReady.cfg" and prop != "C10":
            continue  # the 13-million-state configuration is explored once, by the check of C10
        rc, out, secs = tlc.run_tlc("SchedCache.tla", cfg, workers=8, timeout=tmo)
        m = re.search(r"(\d+) states generated, (\d+) distinct states found", out)
        if "No error has been found" not in out:
            inv = re.search(r"Invariant (\w+) is violated", out)
            if inv:
                report.add_violation("schedcache_model_" + inv.group(1), "spec/SchedCache.tla " + cfg, {"tlc_tail": out[-3000:]}, tid="schedcache-model")
            else:
                report.machinery(f"SchedCache.tla {cfg} did not complete:\n" + out[-2000:])
        stats["states"] += int(m.group(2)) if m else 0
    # the model finds the two repaired defects when their pre-fix variants are selected
    for cfg, inv_name, key in (("SchedCacheSafeF1.cfg", "CacheExactSafe", "f1_found_by_model"),
                               ("SchedCacheAfterF2.cfg", "CacheExactAfter", "f2_found_by_model")):
        rc, out, secs = tlc.run_tlc("SchedCache.tla", cfg, workers=4, timeout=600)
        stats[key] = f"Invariant {inv_name} is violated" in out
        if not stats[key]:
            report.machinery(f"SchedCache.tla {cfg}: the pre-fix variant was not found (the model lost its teeth):\n" + out[-1500:])
    rng = random.Random(seed * 53 + 11)
    cases = scripted()
    for _ in range({"quick": 200, "thorough": 2000}[tier]):
        cases.append(random_actions(rng, rng.choice([20, 40, 60])))
    lines = [{"id": i, "acts": acts} for i, acts in enumerate(cases)]
    work = tlc.scratch_dir("vsc-")
    from concurrent.futures import ThreadPoolExecutor

    chunks = [lines[i::8] for i in range(8) if lines[i::8]]

    def one(ic):
        i, chunk = ic
        tf, vf = os.path.join(work, f"in{i}.ndjson"), os.path.join(work, f"out{i}.json")
        with open(tf, "w") as fh:
            for line in chunk:
                fh.write(json.dumps(line, separators=(",", ":")) + "\n")
        rc_, o, s_ = tlc.run_tlc("SchedCache.tla", "SchedCache.cfg", env={"TRACE_FILE": tf, "VERDICT_FILE": vf}, workers=1, timeout=3000)
        if not os.path.exists(vf) or "Error:" in o:
            raise tlc.TLCFailure(f"SchedCache replay batch {i} failed:\n{o[-3000:]}")
        with open(vf) as fh:
            res = json.load(fh)
        mm = re.search(r"(\d+) states generated, (\d+) distinct states found", o)
        return res["vectors"], int(mm.group(2)) if mm else 0

    expected = {}
    try:
        with ThreadPoolExecutor(max_workers=8) as ex:
            for vecs, st in ex.map(one, enumerate(chunks)):
                stats["states"] += st
                for v in vecs:
                    expected[v["id"]] = v["states"] if isinstance(v["states"], list) else []
    except tlc.TLCFailure as exc:
        report.machinery(str(exc)[:3000])
        return stats
    finally:
        shutil.rmtree(work, ignore_errors=True)
    nbad = 0
    kinds = {}
    for i, acts in enumerate(cases):
        exp = expected[i]
        enabled = [bool(e["enabled"]) for e in exp]
        got = asyncio.run(execute(acts, enabled))
        stats["sequences"] += 1
        stats["actions"] += sum(enabled)
        for a, en in zip(acts, enabled):
            if en:
                kinds[a["a"]] = kinds.get(a["a"], 0) + 1
        for k, (e, gst) in enumerate(zip(exp, got)):
            want = norm(e)
            # the specification's own verdict on its state (cache = definition when nothing is flagged)
            if not e["st"]["exact"]:
                nbad += 1
                if nbad <= 8:
                    report.add_violation("cached_columns_differ_from_definition_in_specification",
                                         json.dumps({"action": acts[k], "index": k, "spec": want}, sort_keys=True)[:1500],
                                         {"acts": acts, "enabled": enabled}, tid=f"sc{i}")
                break
            verdict = compare(gst, want, e["st"], stats)
            if verdict is not None:
                nbad += 1
                if nbad <= 8:
                    report.add_violation(
                        verdict[0],
                        json.dumps({"action": acts[k], "index": k, "diff": verdict[1],
                                    "prefix": [a for a, en in zip(acts[:k], enabled[:k]) if en][-12:]}, sort_keys=True)[:1800],
                        {"acts": acts, "enabled": enabled}, tid=f"sc{i}")
                break
    stats["action_kinds"] = kinds
    return stats


if __name__ == "__main__":
    from checks.common import Report, parse_args
    from harness.runner import Scratch

    a = parse_args()
    rep = Report("C10", a.tier, a.seed)
    with Scratch():
        print(run(rep, a.tier, a.seed, "C10"))
    for v in rep.violations[:6]:
        print(v["clause"], v["subj"][:1800])
        print()
    for mm in rep.machinery_errors:
        print("MACHINERY", mm[:2000])
