"""Ordered pairs of declarations (C08 'rejected in either order', C02 'same error text').

For every ordered pair (a, b) from a pool of declarations, made by one creator or by two
different creators, the real director executes `a; b` and `b; a` (the second order of the
two-creator variant is forced by a delay-rank schedule).  spec/RelCheck.tla (pair_orders) requires
that a rejection does not depend on the order and that the text of the rejection is the same.
Every recorded trace is also validated against the commit-level ownership monitors.
"""

from __future__ import annotations

import copy
import json
import os
import sys

sys.path.insert(0, os.path.dirname(os.path.dirname(os.path.abspath(__file__))))

from harness import tlc  # noqa: E402
from harness.projects import initial_phase  # noqa: E402
from harness.runner import run_history  # noqa: E402

POOL = {
    "static_a": ["static", ["a.txt"]],
    "static_dx": ["static", ["d/x.txt"]],
    "static_c": ["static", ["c.txt"]],
    "static_ez": ["static", ["e/z.txt"]],
    "tree_d": ["tree", ["d/"]],
    "tree_D": ["tree", ["D/"]],
    "tree_e": ["tree", ["e/"]],
    "glob_txt": ["glob", "*.txt"],
    "glob_dtxt": ["glob", "d/*.txt"],
    "glob_named": ["glob", "${*n}.txt"],
    # a named wildcard whose substitution spans a separator: only the full regular expression, with
    # the substitutions, matches r/1/2/out.txt
    "glob_sub": ["glob", "r/${*d}/out.txt", {"d": "[0-9]/[0-9]"}],
    "step7_out_r": ["step", "X7", {"out": ["r/1/2/out.txt"]}],
    "step1_out_a": ["step", "X1", {"out": ["a.txt"]}],
    "step2_out_a": ["step", "X2", {"out": ["a.txt"]}],
    "step1_out_b": ["step", "X1", {"out": ["b.txt"]}],
    "step3_out_dx": ["step", "X3", {"out": ["d/x.txt"]}],
    "step3_out_dnew": ["step", "X3", {"out": ["d/new.txt"]}],
    "step4_vol_dy": ["step", "X4", {"vol": ["d/y.txt"]}],
    "step2_inp_a_out_c": ["step", "X2", {"inp": ["a.txt"], "out": ["c.txt"]}],
    "step5_inp_c_out_a": ["step", "X5", {"inp": ["c.txt"], "out": ["a.txt"]}],
    "step6_out_b": ["step", "X6", {"out": ["b.txt"]}],
    "step6_vol_b": ["step", "X6b", {"vol": ["b.txt"]}],
    "amend_out_a": ["amend", {"out": ["a.txt"]}],
    "amend_out_b": ["amend", {"out": ["b.txt"]}],
    "amend_vol_dy": ["amend", {"vol": ["d/y.txt"]}],
    "amend_vol_dnew": ["amend", {"vol": ["d/new.txt"]}],
    "amend_inp_b": ["amend", {"inp": ["b.txt"]}],
}
ON_DISK = ["a.txt", "d/x.txt", "d/y.txt", "e/z.txt", "D/x.txt", "r/1/2/out.txt"]


def project_for(a: str, b: str, two: bool) -> dict:
    scripts = {}
    sources = {"plan.py": ["v1"]}
    for p in ON_DISK:
        sources[p] = ["a"]
    if two:
        plan = [["static", ["sub1.py", "sub2.py"]],
                ["step", "./sub1.py", {"inp": ["sub1.py"], "need": "PLAN"}],
                ["step", "./sub2.py", {"inp": ["sub2.py"], "need": "PLAN"}]]
        scripts["./sub1.py"] = [["try", POOL[a]], ["nop"]]
        scripts["./sub2.py"] = [["try", POOL[b]], ["nop"]]
        sources["sub1.py"] = ["v1"]
        sources["sub2.py"] = ["v1"]
    else:
        plan = [["static", ["sub1.py"]], ["step", "./sub1.py", {"inp": ["sub1.py"], "need": "PLAN"}]]
        scripts["./sub1.py"] = [["try", POOL[a]], ["try", POOL[b]]]
        sources["sub1.py"] = ["v1"]
    scripts["./plan.py"] = {"on": "plan.py", "versions": {"v1": plan}}
    for x in ("X1", "X2", "X3", "X4", "X5", "X6", "X6b", "X7"):
        scripts[x] = [["nop"]]
    return {"name": f"pair-{a}-{b}", "sources": sources, "scripts": scripts}


def outcomes(events, creators):
    """For each creator (sub-plan label) the outcome class and message of its declaration requests."""
    res = {}
    for e in events:
        if e["ev"] == "rpc_end" and e["step"] in creators and e["name"] in ("declare_static", "register_glob", "define_step", "amend_step"):
            res.setdefault(e["step"], []).append([e["outcome"], e.get("msg", "") if e["outcome"] != "ok" else ""])
    return res


def exec_pair(case: dict) -> dict:
    a, b, two = case["a"], case["b"], case["two"]
    cfg = {"njob": 3, "keep_going": True, "defer_cap": 2}
    runs = {}
    traces = []
    for order in ("ab", "ba"):
        if two:
            proj = project_for(a, b, True)
            # the creator that must come second is released only when nothing else can move
            slow = "./sub2.py" if order == "ab" else "./sub1.py"
            ph = dict(initial_phase(proj, cfg=cfg, seed=1), policy="fifo", delay=[f"op:{slow}:", f"hash:"])
            ph["delay"] = [f"op:{slow}:"]
        else:
            proj = project_for(a, b, False) if order == "ab" else project_for(b, a, False)
            ph = dict(initial_phase(proj, cfg=cfg, seed=1), policy="fifo")
        out = run_history(proj, [ph])
        tid = f"{case['tid']}/{order}"
        traces.append((tid, tlc.export_trace(tid, out["events"])))
        oc = outcomes(out["events"], {"./sub1.py", "./sub2.py"})
        if two:
            ra = (oc.get("./sub1.py") or [["none", ""]])[0]
            rb = (oc.get("./sub2.py") or [["none", ""]])[0]
        else:
            seq = oc.get("./sub1.py") or []
            first = seq[0] if len(seq) > 0 else ["none", ""]
            second = seq[1] if len(seq) > 1 else ["none", ""]
            ra, rb = (first, second) if order == "ab" else (second, first)
        runs[order] = {"a": ra, "b": rb, "exc": [r["exc"] for r in out["runs"] if r["exc"]]}
    rel = {"tid": case["tid"], "k": 1, "rel": "pair_orders",
           "info": {"a": a, "b": b, "two": two, "decl_a": json.dumps(POOL[a]), "decl_b": json.dumps(POOL[b])},
           "ab": runs["ab"], "ba": runs["ba"]}
    replay = {"tid": case["tid"], "pair": [POOL[a], POOL[b]], "two_creators": two, "project": project_for(a, b, two),
              "phases": [initial_phase(project_for(a, b, two), cfg=cfg, seed=1)]}
    return {"tid": case["tid"], "rels": [json.dumps(rel, separators=(",", ":"), sort_keys=True)],
            "traces": traces, "replay": replay}


def pair_cases(tier: str, seed: int):
    names = sorted(POOL)
    cases = []
    for i, a in enumerate(names):
        for j, b in enumerate(names):
            if j <= i:
                continue  # each unordered pair once: both orders are executed inside the case
            for two in (False, True):
                if two and (a.startswith("amend") or b.startswith("amend")):
                    continue  # amend concerns the calling step itself
                cases.append({"tid": f"p-{a}-{b}-{'2' if two else '1'}", "a": a, "b": b, "two": two})
    return cases


def exec_rerun(case: dict) -> dict:
    """The creator first makes declaration b alone; it is then rerun making a and b (b is recycled)."""
    a, b = case["a"], case["b"]
    proj = project_for(a, b, False)
    proj["sources"]["sub1.py"] = ["v1", "v2"]
    proj["scripts"]["./sub1.py"] = {"on": "sub1.py", "versions": {
        "v1": [["try", POOL[b]]], "v2": [["try", POOL[a]], ["try", POOL[b]]]}}
    # the declared outputs exist after the first build
    for x in ("X1", "X2", "X3", "X4", "X5", "X6", "X6b", "X7"):
        proj["scripts"][x] = [["read_declared"], ["write_declared"]]
    cfg = {"njob": 2, "keep_going": True, "defer_cap": 2}
    phases = [initial_phase(proj, cfg=cfg, seed=1), {"edits": [["set", "sub1.py", "v2"]], "how": "restart", "cfg": cfg, "seed": 2}]
    out = run_history(proj, phases)
    tid = case["tid"]
    return {"tid": tid, "rels": [], "traces": [(tid, tlc.export_trace(tid, out["events"]))],
            "replay": {"tid": tid, "project": proj, "phases": phases}}


REDECLARE = [
    # (first declaration of R1, its second declaration, the other step R2): R1 gains a path that R2 claims
    ({"out": ["a.txt"]}, {"out": ["a.txt"], "vol": ["log.txt"]}, {"vol": ["log.txt"]}),
    ({"out": ["a.txt"]}, {"out": ["a.txt"], "vol": ["log.txt"]}, {"out": ["log.txt"]}),
    ({"out": ["a.txt"], "vol": ["v.txt"]}, {"out": ["a.txt"], "vol": ["v.txt", "log.txt"]}, {"vol": ["log.txt"]}),
    ({"out": ["a.txt"]}, {"out": ["a.txt", "log.txt"]}, {"vol": ["log.txt"]}),
    ({"inp": ["e/z.txt"], "out": ["a.txt"]}, {"inp": ["e/z.txt"], "out": ["a.txt"], "vol": ["d/y.txt"]}, {"vol": ["d/y.txt"]}),
]


def exec_redeclare(case: dict) -> dict:
    """A creator defines R1 and R2; it is rerun and declares R1 with an additional path that R2 claims
    (in both orders of the two definitions).  Whatever is accepted must own what it declares."""
    d1, d2, other = REDECLARE[case["k"]]
    proj = project_for("static_a", "static_c", False)
    proj["sources"]["sub1.py"] = ["v1", "v2"]
    first = [["static", ["e/z.txt"]], ["try", ["step", "R1", d1]], ["try", ["step", "R2", other]]]
    second = [["static", ["e/z.txt"]]] + ([["try", ["step", "R1", d2]], ["try", ["step", "R2", other]]] if case["r1_first"]
                                          else [["try", ["step", "R2", other]], ["try", ["step", "R1", d2]]])
    proj["scripts"]["./sub1.py"] = {"on": "sub1.py", "versions": {"v1": first, "v2": second}}
    for x in ("R1", "R2"):
        proj["scripts"][x] = [["read_declared"], ["write_declared"]]
    cfg = {"njob": 2, "keep_going": True, "defer_cap": 2}
    phases = [initial_phase(proj, cfg=cfg, seed=1), {"edits": [["set", "sub1.py", "v2"]], "how": "restart", "cfg": cfg, "seed": 2}]
    out = run_history(proj, phases)
    tid = case["tid"]
    return {"tid": tid, "rels": [], "traces": [(tid, tlc.export_trace(tid, out["events"]))],
            "replay": {"tid": tid, "project": proj, "phases": phases}}


def redeclare_cases():
    return [{"tid": f"rd-{k}-{int(f)}", "k": k, "r1_first": f} for k in range(len(REDECLARE)) for f in (True, False)]


def rerun_cases():
    names = sorted(POOL)
    return [{"tid": f"rr-{a}-{b}", "a": a, "b": b} for a in names for b in names
            if a != b and b.startswith("step") and not a.startswith("amend")]
