"""Layer G: the end-of-build clean-up (spec/Cleanup.tla) replayed into the real Workflow on a real directory.

Cleanup.tla is model checked over its whole family of configurations (only deleted nodes lose their
file, modified files are kept, attached nodes are kept, a detached node survives exactly when something
attached holds it -- or a creator/dependency cycle of detached nodes does, which is finding F9: the
strict form is expected to fail), and sampled configurations are built in a real Workflow (real files,
real hashes), cleaned with Trellis.delete_detached + finalize.remove_deletable_files, and compared:
surviving nodes, step hashes of creators that lost a product, files on disk.

Library for the checks of C06 and C07 (`run(report, ...)`); can be run alone.
"""

from __future__ import annotations

import asyncio
import itertools
import json
import os
import random
import re
import shutil
import sys
import tempfile

sys.path.insert(0, os.path.dirname(os.path.dirname(os.path.abspath(__file__))))

from harness import tlc  # noqa: E402

FSTATES = ["PLANNED", "BUILT", "OUTDATED", "VOLATILE"]
DISK = ["absent", "same", "modified"]


def well_formed(c):
    if c["crB"] == "A" and c["det"]["A"] != c["det"]["B"]:
        return False
    if c["crB"] == "P" and c["det"]["B"]:
        return False
    if c["crB"] == "NULL" and not c["det"]["B"]:
        return False
    if "B" in c["cons"]["a"] and "A" in c["cons"]["b"]:
        return False
    if any(c["fst"][f] == "VOLATILE" and c["cons"][f] for f in ("a", "b")):
        return False
    return True


def random_config(rng):
    while True:
        c = {"crB": rng.choice(["P", "A", "A", "NULL"]),
             "det": {"A": rng.random() < 0.6, "B": rng.random() < 0.6},
             "orph": {"a": rng.random() < 0.3, "b": rng.random() < 0.3},
             "cons": {"a": sorted(x for x in ("B", "C") if rng.random() < 0.35), "b": sorted(x for x in ("A", "C") if rng.random() < 0.35)},
             "fst": {"a": rng.choice(FSTATES), "b": rng.choice(FSTATES)},
             "disk": {"a": rng.choice(DISK), "b": rng.choice(DISK)}}
        if well_formed(c):
            return c


def scripted():
    base = {"crB": "P", "det": {"A": True, "B": False}, "orph": {"a": False, "b": False}, "cons": {"a": [], "b": []},
            "fst": {"a": "BUILT", "b": "BUILT"}, "disk": {"a": "same", "b": "same"}}
    res = [base]
    res.append(dict(base, disk={"a": "modified", "b": "same"}))
    res.append(dict(base, cons={"a": ["C"], "b": []}))
    res.append(dict(base, cons={"a": ["B"], "b": []}))
    res.append(dict(base, crB="A", det={"A": True, "B": True}, cons={"a": [], "b": ["A"]}))   # F9: cycle A -> B -> b -> A
    res.append(dict(base, crB="A", det={"A": True, "B": True}, cons={"a": [], "b": ["C"]}))   # A survives, loses a
    res.append(dict(base, det={"A": False, "B": False}, orph={"a": True, "b": False}, fst={"a": "OUTDATED", "b": "PLANNED"}))
    res.append(dict(base, fst={"a": "VOLATILE", "b": "BUILT"}, disk={"a": "modified", "b": "absent"}))
    return res


async def execute(c):
    from path import Path

    from stepup.core.enums import HashUpdateCause, Need, StepState
    from stepup.core.file import File
    from stepup.core.finalize import remove_deletable_files
    from stepup.core.hash import FileHash, StepHash
    from stepup.core.sqlite3 import DBSession
    from stepup.core.step import Step
    from stepup.core.workflow import Workflow

    async def reporter(*a, **k):
        return None

    root = tempfile.mkdtemp(prefix="vcl-", dir=os.environ.get("VERIF_SCRATCH"))
    old = os.getcwd()
    os.chdir(root)
    try:
        with DBSession.open(":memory:") as db:
            wf = Workflow(db, dir_queue=None)
            await wf.initialize()
            async with db:
                wf.declare_static_files(wf.root, ["plan.py"])
                wf.define_step(wf.root, "P", inp_paths=["plan.py"], need=Need.PLAN)
                wf.update_file_hashes({"plan.py": FileHash(b"p" * 32, 0o100644, 1.0, 3, 1)}, cause=HashUpdateCause.CONFIRMED)
                plan = wf.find(Step, "P")
                plan.set_state(StepState.RUNNING)

                def outs(f):
                    return {"vol_paths": [f]} if c["fst"][f] == "VOLATILE" else {"out_paths": [f]}

                wf.define_step(plan, "A", **outs("a"))
                step_a = wf.find(Step, "A")
                step_a.set_state(StepState.RUNNING)
                creator_b = step_a if c["crB"] == "A" else plan
                wf.define_step(creator_b, "B", inp_paths=["a"] if "B" in c["cons"]["a"] else [], **outs("b"))
                step_b = wf.find(Step, "B")
                inp_c = [f for f in ("a", "b") if "C" in c["cons"][f]]
                wf.define_step(plan, "C", inp_paths=inp_c, out_paths=["c.out"])
                if "A" in c["cons"]["b"]:
                    wf.amend_step(step_a, inp_paths=["b"], ran_concurrently=lambda p_, c_: False)
                # what the steps produced, and what StepUp recorded of it
                for f, st in (("a", step_a), ("b", step_b)):
                    fst = c["fst"][f]
                    if fst in ("BUILT", "OUTDATED"):
                        Path(f).write_text(f"recorded content of {f}\n")
                        wf.update_file_hashes({f: FileHash.unknown().refreshed(Path(f))}, cause=HashUpdateCause.SUCCEEDED)
                        if fst == "OUTDATED":
                            wf.mark_file_outdated(wf.find(File, f))
                    elif fst == "VOLATILE" or c["disk"][f] != "absent":
                        Path(f).write_text(f"recorded content of {f}\n")
                for st in (step_a, step_b):
                    st.set_state(StepState.SUCCEEDED)
                    st.set_hash(StepHash(b"i" * 32, None, b"o" * 32, None))
                # the tree afterwards
                for f in ("a", "b"):
                    if c["disk"][f] == "absent" and Path(f).exists():
                        Path(f).remove()
                    elif c["disk"][f] == "modified" and Path(f).exists():
                        Path(f).write_text(f"the user rewrote {f} with something longer\n")
                # dropped outputs, detached steps
                for f in ("a", "b"):
                    if c["orph"][f]:
                        row = db.execute("SELECT i FROM node WHERE kind = 'file' AND label = ?", (f,)).fetchone()
                        File(wf, row[0], f).detach()
                if c["det"]["A"]:
                    step_a.detach()
                if c["det"]["B"] and c["crB"] != "A":
                    step_b.detach()
                plan.set_state(StepState.SUCCEEDED)
            async with db:
                wf.delete_detached()
            await remove_deletable_files(wf, reporter)
            async with db:
                labels = {r[0] for r in db.execute("SELECT label FROM node WHERE kind IN ('step', 'file')")}

                def has_hash(label):
                    row = db.execute("SELECT i FROM node WHERE kind = 'step' AND label = ?", (label,)).fetchone()
                    return None if row is None else Step(wf, row[0], label).get_hash() is not None
                res = {"deleted": {n: n not in labels for n in ("A", "B", "a", "b")},
                       "on_disk": {f: os.path.exists(f) for f in ("a", "b")},
                       "hash": {s: has_hash(s) for s in ("A", "B")}}
        return res
    except Exception as exc:  # noqa: BLE001
        import traceback

        return {"error": f"{type(exc).__name__}: {exc}", "tb": traceback.format_exc()[-600:]}
    finally:
        os.chdir(old)
        shutil.rmtree(root, ignore_errors=True)


def run(report, tier: str, seed: int, prop: str) -> dict:
    stats = {"states": 0, "configurations": 0}
    rc, out, secs = tlc.run_tlc("Cleanup.tla", "CleanupModel.cfg", workers=6, timeout=1200)
    m = re.search(r"(\d+) states generated, (\d+) distinct states found", out)
    if "No error has been found" not in out:
        inv = re.search(r"Invariant (\w+) is violated", out)
        if inv:
            report.add_violation("cleanup_model_" + inv.group(1), "spec/Cleanup.tla", {"tlc_tail": out[-3000:]}, tid="cleanup-model")
        else:
            report.machinery("Cleanup.tla model check did not complete:\n" + out[-2000:])
    stats["states"] += int(m.group(2)) if m else 0
    rc, out, secs = tlc.run_tlc("Cleanup.tla", "CleanupModelStrict.cfg", workers=4, timeout=900)
    stats["f9_found_by_model"] = "Invariant SurvivorsAreHeldStrict is violated" in out
    rng = random.Random(seed * 71 + 13)
    cases = scripted()
    for _ in range({"quick": 250, "thorough": 5000}[tier]):
        cases.append(random_config(rng))
    lines = [dict(c, id=i) for i, c in enumerate(cases)]
    work = tlc.scratch_dir("vcl-")
    tf, vf = os.path.join(work, "in.ndjson"), os.path.join(work, "out.json")
    try:
        with open(tf, "w") as fh:
            for line in lines:
                fh.write(json.dumps(line, separators=(",", ":")) + "\n")
        rc_, o, s_ = tlc.run_tlc("Cleanup.tla", "Cleanup.cfg", env={"TRACE_FILE": tf, "VERDICT_FILE": vf}, workers=1, timeout=3000)
        if not os.path.exists(vf) or "Error:" in o:
            report.machinery(f"Cleanup replay failed:\n{o[-3000:]}")
            return stats
        with open(vf) as fh:
            res = json.load(fh)
        mm = re.search(r"(\d+) states generated, (\d+) distinct states found", o)
        stats["states"] += int(mm.group(2)) if mm else 0
    finally:
        shutil.rmtree(work, ignore_errors=True)
    expected = {v["id"]: v for v in res["vectors"]}
    nbad = 0
    ncycle = 0
    for i, c in enumerate(cases):
        e = expected[i]
        got = asyncio.run(execute(c))
        stats["configurations"] += 1
        ncycle += int(bool(e["cycle"]))
        clause = None
        detail = {}
        if "error" in got:
            clause, detail = "cleanup_raised", got
        else:
            want_del = {n: bool(e["deleted"][n]) for n in ("A", "B", "a", "b")}
            # on disk afterwards: what was there and was not removed
            present_before = {f: c["disk"][f] != "absent" and (c["fst"][f] != "PLANNED" or True) for f in ("a", "b")}
            want_disk = {f: present_before[f] and not bool(e["removed"][f]) for f in ("a", "b")}
            # the properties themselves, on the code's result
            for f in ("a", "b"):
                if present_before[f] and not got["on_disk"][f] and not got["deleted"][f]:
                    clause = "removed_file_of_a_node_that_was_kept"
                elif c["disk"][f] == "modified" and c["fst"][f] != "VOLATILE" and not got["on_disk"][f]:
                    clause = "removed_file_that_no_longer_holds_the_recorded_content"
            if clause is None and got["deleted"] != want_del:
                clause = "deleted_nodes_differ_from_specification"
            if clause is None and got["on_disk"] != want_disk:
                clause = "files_left_on_disk_differ_from_specification"
            if clause is None:
                for s_ in ("A", "B"):
                    if not got["deleted"][s_] and bool(e["lost"][s_]) and got["hash"][s_]:
                        clause = "creator_that_lost_a_product_keeps_its_step_hash"
                    if not got["deleted"][s_] and not bool(e["lost"][s_]) and got["hash"][s_] is False:
                        clause = "step_hash_dropped_without_a_lost_product"
            detail = {"code": got, "spec": {"deleted": want_del, "on_disk": want_disk, "lost": e["lost"]}}
        if clause:
            nbad += 1
            if nbad <= 8:
                report.add_violation(clause, json.dumps({"config": c, **detail}, sort_keys=True)[:1500], {"config": c}, tid=f"cl{i}")
    stats["configurations_with_a_detached_cycle"] = ncycle
    return stats


if __name__ == "__main__":
    from checks.common import Report, parse_args
    from harness.runner import Scratch

    a = parse_args()
    rep = Report("C07", a.tier, a.seed)
    with Scratch():
        print(run(rep, a.tier, a.seed, "C07"))
    for v in rep.violations[:6]:
        print(v["clause"], v["subj"][:1500])
        print()
    for mm in rep.machinery_errors:
        print("MACHINERY", mm[:2000])
