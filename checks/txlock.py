"""Layer G: the transaction lock of the director's SQLite connection (spec/TxLock.tla) against the real DBSession.

TxLock.tla is model checked (every interleaving of three tasks: one holder, uncommitted writes belong to the
holder, the committed store changes only by the holder's commit, rollback and refused calls change nothing,
FIFO hand-over, the lock is never lost).  Then seeded scripts of calls -- enter a transaction or the
autocommit context, write, nested enter, write from outside, commit, leave with an exception, cancel a waiter,
and `commit/rollback immediately followed by the cancellation of the waiter that was just woken` -- are run by
three real asyncio tasks on a real DBSession over a database file.  After every call the tasks record what an
independent connection sees as committed, the task in `db._held` and `db._lock.locked()`; TLC checks that each
recorded sequence is a behaviour of the same actions (spec/TxLock.cfg, one TLC step per recorded event).

Library for the check of C15 (`run(report, ...)`); can be run alone.
"""

from __future__ import annotations

import asyncio
import json
import os
import random
import re
import shutil
import sqlite3
import sys
import tempfile

sys.path.insert(0, os.path.dirname(os.path.dirname(os.path.abspath(__file__))))

from harness import tlc  # noqa: E402

TASKS = ["t1", "t2", "t3"]
KEYS = [1, 2, 3, 4]


class Boom(Exception):
    pass


class HarnessError(Exception):
    pass


def gen_script(rng, nops):
    """A script of enabled calls, chosen with the specification's own bookkeeping (pc, holder, queue)."""
    pc = dict.fromkeys(TASKS, "idle")
    holder, queue, script = None, [], []

    def release():
        nonlocal holder
        holder = None

    def grant():
        nonlocal holder
        if holder is None and queue:
            t, m = queue.pop(0)
            pc[t], holder = m, t

    for _ in range(nops):
        t = rng.choice(TASKS)
        st = pc[t]
        if st == "idle":
            r = rng.random()
            if r < 0.12:
                script.append(("write", t, rng.choice(KEYS)))
                continue
            mode = "auto" if r < 0.3 else "txn"
            script.append(("enter", t, mode))
            if holder is None and not queue:
                pc[t], holder = mode, t
            else:
                pc[t] = "waiting"
                queue.append((t, mode))
        elif st == "waiting":
            if rng.random() < 0.5:
                script.append(("cancel", t))
                queue[:] = [q for q in queue if q[0] != t]
                pc[t] = "idle"
        elif st == "txn":
            r = rng.random()
            if r < 0.4:
                script.append(("write", t, rng.choice(KEYS)))
            elif r < 0.5:
                script.append(("nested", t, rng.choice(["txn", "auto"])))
            else:
                op = "commit" if r < 0.8 else "rollback"
                if queue and rng.random() < 0.3:
                    # the waiter that release() wakes is cancelled before it runs
                    w = queue.pop(0)[0]
                    script.append((op + "+cancel", t, w))
                    pc[w] = "idle"
                else:
                    script.append((op, t))
                pc[t] = "idle"
                release()
                grant()
        elif st == "auto":
            r = rng.random()
            if r < 0.25:
                script.append(("write", t, rng.choice(KEYS)))
            elif r < 0.4:
                script.append(("nested", t, rng.choice(["txn", "auto"])))
            else:
                script.append(("exit_auto", t))
                pc[t] = "idle"
                release()
                grant()
    return script


SCRIPTED = [
    [("enter", "t1", "txn"), ("write", "t1", 1), ("enter", "t2", "txn"), ("enter", "t3", "txn"), ("commit", "t1"),
     ("write", "t2", 2), ("rollback", "t2"), ("write", "t3", 3), ("commit", "t3")],
    [("enter", "t1", "txn"), ("write", "t1", 1), ("enter", "t2", "txn"), ("enter", "t3", "txn"), ("rollback+cancel", "t1", "t2"),
     ("write", "t3", 2), ("nested", "t3", "txn"), ("write", "t1", 4), ("commit", "t3")],
    [("enter", "t1", "auto"), ("write", "t1", 1), ("enter", "t2", "txn"), ("cancel", "t2"), ("nested", "t1", "auto"),
     ("exit_auto", "t1"), ("enter", "t2", "txn"), ("write", "t2", 2), ("commit", "t2")],
    [("enter", "t1", "txn"), ("enter", "t2", "auto"), ("enter", "t3", "txn"), ("write", "t1", 1), ("commit+cancel", "t1", "t2"),
     ("write", "t3", 2), ("rollback", "t3"), ("enter", "t2", "txn"), ("write", "t2", 3), ("commit", "t2")],
]


async def execute(script, dbpath):
    from stepup.core.sqlite3 import DBSession

    events = []
    with DBSession.open(dbpath) as db:
        async with db:
            db.execute("CREATE TABLE IF NOT EXISTS kv (k INTEGER PRIMARY KEY)")
            db.execute("DELETE FROM kv")
        reader = sqlite3.connect(dbpath, isolation_level=None, timeout=0.0)
        names = {}
        stopping = []

        def obs():
            held = db._held
            return {"com": sorted(r[0] for r in reader.execute("SELECT k FROM kv")),
                    "held": "none" if held is None else names.get(held.task, "stranger"),
                    "locked": db._lock.locked()}

        def log(op, t, **kw):
            events.append({"op": op, "t": t, "k": 0, "mode": "", "res": "ok", **kw, **obs()})

        async def worker(t, inbox):
            ctx = None
            while True:
                cmd = await inbox.get()
                op = cmd[0]
                if op == "stop":
                    return
                try:
                    if op in ("enter", "nested"):
                        mode = cmd[2]
                        try:
                            if mode == "txn":
                                await db.__aenter__()
                                new = "txn"
                            else:
                                cm = db._autocommit_con()
                                await cm.__aenter__()
                                new = cm
                        except RuntimeError:
                            log(op, t, mode=mode, res="raised")
                        except asyncio.CancelledError:
                            if stopping:
                                raise
                            asyncio.current_task().uncancel()
                            log("cancel", t)
                        else:
                            if op == "nested":
                                log(op, t, mode=mode, res="entered")
                            else:
                                ctx = new
                                log("entered", t, mode=mode)
                    elif op == "write":
                        try:
                            db.execute("INSERT OR IGNORE INTO kv VALUES (?)", (cmd[2],))
                        except RuntimeError:
                            log(op, t, k=cmd[2], res="raised")
                        else:
                            log(op, t, k=cmd[2])
                    elif op == "commit":
                        await db.__aexit__(None, None, None)
                        ctx = None
                        log(op, t)
                    elif op == "rollback":
                        try:
                            raise Boom("the request is refused")
                        except Boom as exc:
                            await db.__aexit__(Boom, exc, exc.__traceback__)
                        ctx = None
                        log(op, t)
                    elif op == "exit_auto":
                        await ctx.__aexit__(None, None, None)
                        ctx = None
                        log(op, t)
                except Exception as exc:  # noqa: BLE001
                    log(op, t, res=f"error:{type(exc).__name__}:{exc}"[:200])

        inboxes = {t: asyncio.Queue() for t in TASKS}
        tasks = {t: asyncio.create_task(worker(t, inboxes[t]), name=t) for t in TASKS}
        names.update({task: t for t, task in tasks.items()})

        async def settle(rounds=12):
            for _ in range(rounds):
                await asyncio.sleep(0)

        await settle()
        for cmd in script:
            op, t = cmd[0], cmd[1]
            mark = len(events)
            if op == "cancel":
                tasks[t].cancel()
            elif op.endswith("+cancel"):
                inboxes[t].put_nowait((op.split("+")[0], t))
                await asyncio.sleep(0)   # the holder has left and woken the first waiter, which has not run yet
                if len(events) == mark:
                    raise HarnessError("the holder did not leave within one loop iteration")
                tasks[cmd[2]].cancel()
            else:
                inboxes[t].put_nowait(cmd)
            await settle()
            if op == "enter":
                mine = [e for e in events[mark:] if e["t"] == t]
                if mine and mine[0]["op"] == "entered":
                    mine[0]["op"], mine[0]["res"] = "enter", "granted"
                elif not mine:
                    events.insert(mark, {"op": "enter", "t": t, "k": 0, "mode": cmd[2], "res": "queued", **obs()})
        for e in events:
            if e["op"] == "entered":
                e["op"] = "grant"
        # let everybody out so that the session can be closed
        stopping.append(True)
        for t in TASKS:
            tasks[t].cancel()
        await asyncio.gather(*tasks.values(), return_exceptions=True)
        if db._held is not None:
            h = db._held
            if h.opened_transaction:
                h.con.rollback()
            db._release()
        reader.close()
    return events


def run(report, tier: str, seed: int, prop: str) -> dict:
    stats = {"states": 0, "sequences": 0, "events": 0}
    for cfg, key in (("TxLockModel.cfg", "model"), ("TxLockLive.cfg", "liveness")):
        rc, out, secs = tlc.run_tlc("TxLock.tla", cfg, workers=6, timeout=1200)
        m = re.search(r"(\d+) states generated, (\d+) distinct states found", out)
        if "No error has been found" not in out:
            inv = re.search(r"(?:Invariant|property|Temporal property) (\w+) (?:is|was) violated", out)
            if inv:
                report.add_violation("txlock_model_" + inv.group(1), "spec/TxLock.tla " + cfg, {"tlc_tail": out[-3000:]}, tid="txlock-" + key)
            else:
                report.machinery(f"TxLock.tla {cfg} did not complete:\n" + out[-2000:])
        stats["states"] += int(m.group(2)) if m else 0
    rng = random.Random(seed * 977 + 5)
    scripts = [list(s) for s in SCRIPTED]
    for _ in range({"quick": 400, "thorough": 6000}[tier]):
        scripts.append(gen_script(rng, rng.randint(6, 30)))
    work = tlc.scratch_dir("vtx-")
    try:
        dbpath = os.path.join(work, "lock.db")
        lines, owner = [], []
        kinds = {}
        for i, s in enumerate(scripts):
            try:
                evs = asyncio.run(execute(s, dbpath))
            except HarnessError as exc:
                report.machinery(f"txlock harness: {exc}; script {s}")
                continue
            except Exception as exc:  # noqa: BLE001
                import traceback

                report.add_violation("txlock_session_raised", f"{type(exc).__name__}: {exc}", {"txlock_script": s, "tb": traceback.format_exc()[-800:]}, tid=f"tx{i}")
                continue
            lines.append({"op": "reset", "t": "", "k": 0, "mode": "", "res": "", "com": [], "held": "none", "locked": False})
            owner.append(i)
            for e in evs:
                kinds[e["op"] + ":" + e["res"][:7]] = kinds.get(e["op"] + ":" + e["res"][:7], 0) + 1
                lines.append(e)
                owner.append(i)
            stats["sequences"] += 1
            stats["events"] += len(evs)
        stats["event_kinds"] = kinds
        for need in ("enter:granted", "enter:queued", "grant:ok", "cancel:ok", "write:raised", "nested:raised", "rollback:ok", "commit:ok", "exit_auto:ok"):
            if kinds.get(need, 0) < 5:
                report.machinery(f"vacuous txlock run: too few events of kind {need}: {kinds}")
        tf = os.path.join(work, "in.ndjson")
        with open(tf, "w") as fh:
            for line in lines:
                fh.write(json.dumps(line, separators=(",", ":")) + "\n")
        rc, out, secs = tlc.run_tlc("TxLock.tla", "TxLock.cfg", env={"TRACE_FILE": tf}, workers=1, timeout=3000)
        m = re.search(r"(\d+) states generated, (\d+) distinct states found", out)
        stats["states"] += int(m.group(2)) if m else 0
        if "No error has been found" not in out:
            reached = re.search(r'"REACHED", (\d+)', out)
            inv = re.search(r"(?:Invariant|property|Action property) (\w+) (?:is|was) violated", out)
            if inv:
                lm = re.findall(r"/\\ l = (\d+)", out)
                at = int(lm[-1]) - 1 if lm else 0
                i = owner[min(max(at - 1, 0), len(owner) - 1)]
                report.add_violation("txlock_" + inv.group(1), json.dumps(lines[max(at - 1, 0)])[:600], {"txlock_script": scripts[i]}, tid=f"tx{i}")
            elif reached:
                at = int(reached.group(1))      # last line consumed; the next one is not a step of the specification
                i = owner[min(at, len(owner) - 1)]
                bad = lines[min(at, len(lines) - 1)]
                report.add_violation("txlock_event_is_not_a_step_of_the_specification", json.dumps(bad, sort_keys=True)[:600],
                                     {"txlock_script": scripts[i], "line": at + 1, "previous": lines[max(at - 1, 0)]}, tid=f"tx{i}")
            else:
                report.machinery("TxLock trace validation failed:\n" + out[-2500:])
    finally:
        shutil.rmtree(work, ignore_errors=True)
    return stats


if __name__ == "__main__":
    from checks.common import Report, parse_args
    from harness.runner import Scratch

    a = parse_args()
    rep = Report("C15", a.tier, a.seed)
    with Scratch():
        print(run(rep, a.tier, a.seed, "C15"))
    for v in rep.violations[:6]:
        print(v["clause"], v["subj"][:1500])
        print(json.dumps(v.get("replay", ""))[:1500])
        print()
    for mm in rep.machinery_errors:
        print("MACHINERY", mm[:2000])
