"""C02: the result of a build does not depend on scheduling.

Each project is built from scratch under several schedules (job counts, resource limits,
fifo/lifo/random release of scheduling points, "this step is slow" delay-rank schedules) and,
after the first one, resumed with nothing changed.  spec/RelCheck.tla (same_final) requires the
full rendering of the graph (detached nodes and hash presence included) and the outputs of
successful builds to be identical, and the success/failed/pending class to be identical always.

usage: python -m checks.schedules --tier quick
"""

from __future__ import annotations

import copy
import json
import os
import random
import sys

sys.path.insert(0, os.path.dirname(os.path.dirname(os.path.abspath(__file__))))

from checks import engine_b  # noqa: E402
from checks.common import Report, parse_args  # noqa: E402
from checks.history import side, validate_rels  # noqa: E402
from harness import tlc  # noqa: E402
from harness.projects import SHAPES, Gen, initial_phase  # noqa: E402
from harness.runner import Scratch, pmap, run_history  # noqa: E402


def schedules_for(project, rng, k):
    labels = list(project["scripts"])
    scheds = [
        {"cfg": {"njob": 1, "resources": "gpu:2,tpu:2"}, "policy": "fifo", "delay": []},
        {"cfg": {"njob": 4, "resources": "gpu:2,tpu:2"}, "policy": "lifo", "delay": []},
        {"cfg": {"njob": 3, "resources": "gpu:2,tpu:2"}, "policy": "fifo", "delay": []},
        {"cfg": {"njob": 2, "resources": "gpu:2,tpu:2"}, "policy": "random", "delay": []},
        {"cfg": {"njob": 3, "resources": "gpu:4,tpu:2"}, "policy": "random", "delay": []},
    ]
    for _ in range(max(0, k - len(scheds))):
        lab = rng.choice(labels)
        scheds.append({"cfg": {"njob": rng.choice([2, 3, 4]), "resources": rng.choice(["gpu:2,tpu:2", "gpu:3,tpu:2", "gpu:4,tpu:3"])},
                       "policy": "random", "delay": [f"op:{lab}:", f"exit:{lab}"]})
    return scheds[:k]


def exec_sched_case(case: dict) -> dict:
    project = case["project"]
    rng = random.Random(case["seed"])
    rels, traces = [], []
    sides = []
    scheds = schedules_for(project, rng, case["k"])
    for j, sc in enumerate(scheds):
        ph = dict(initial_phase(project, cfg=dict(sc["cfg"], **case.get("cfg_extra", {})), seed=rng.randrange(10**6)),
                  policy=sc["policy"], delay=sc["delay"])
        phases = [ph]
        if j == 0:
            phases.append({"edits": [], "how": "restart", "cfg": ph["cfg"], "seed": rng.randrange(10**6)})
        out = run_history(project, phases)
        tid = f"{case['tid']}/s{j}"
        traces.append((tid, tlc.export_trace(tid, out["events"])))
        sides.append(side(out["runs"][0]))
        if j == 0:
            resumed = side(out["runs"][1])
    k = 0
    for j in range(1, len(sides)):
        k += 1
        rels.append({"tid": case["tid"], "k": k, "rel": "same_final", "a": sides[j], "b": sides[0],
                     "info": {"a": scheds[j], "b": scheds[0]}})
    k += 1
    rels.append({"tid": case["tid"], "k": k, "rel": "same_final", "a": resumed, "b": sides[0],
                 "info": {"a": "resumed, nothing changed", "b": scheds[0]}})
    replay = {"tid": case["tid"], "project": project, "phases": [initial_phase(project)], "schedules": scheds}
    return {"tid": case["tid"], "rels": [json.dumps(r, separators=(",", ":"), sort_keys=True) for r in rels],
            "traces": traces, "replay": replay, "rcs": [s["rc"] for s in sides]}


def exec_hist_sched_case(case: dict) -> dict:
    """The same edit history under different schedules: the final builds must agree."""
    project, base = case["project"], case["phases"]
    rng = random.Random(case["seed"])
    variants = [
        {"njob": 1, "policy": "fifo"}, {"njob": 2, "policy": "lifo"}, {"njob": 3, "policy": "random"},
        {"njob": 2, "policy": "random"},
    ][: case["k"]]
    sides, traces = [], []
    for j, var in enumerate(variants):
        phases = []
        for ph in base:
            ph2 = dict(ph, cfg=dict(ph.get("cfg", {}), njob=var["njob"], resources="gpu:2,tpu:2"), policy=var["policy"],
                       seed=rng.randrange(10**6))
            phases.append(ph2)
        out = run_history(project, phases)
        tid = f"{case['tid']}/h{j}"
        traces.append((tid, tlc.export_trace(tid, out["events"])))
        sides.append(side(out["runs"][-1]))
    rels = []
    for j in range(1, len(sides)):
        rels.append({"tid": case["tid"], "k": j, "rel": "same_final", "a": sides[j], "b": sides[0],
                     "info": {"a": variants[j], "b": variants[0]}})
    replay = {"tid": case["tid"], "project": project, "phases": base, "schedule_variants": variants}
    return {"tid": case["tid"], "rels": [json.dumps(r, separators=(",", ":"), sort_keys=True) for r in rels],
            "traces": traces, "replay": replay, "rcs": [s["rc"] for s in sides]}


def hard_conflict_projects(seed, n):
    """Plans whose sub-plans make conflicting declarations and do not catch the rejection."""
    cases = engine_b.conflict_cases(seed, n, prefix="x")
    for c in cases:
        for cmd, ops in c["project"]["scripts"].items():
            if isinstance(ops, list):
                c["project"]["scripts"][cmd] = [op[1] if op[0] == "try" else op for op in ops]
    return cases


def main(argv=None):
    args = parse_args(argv)
    pid = "C02"
    n, k = {"quick": (45, 6), "thorough": (800, 12)}[args.tier]
    report = Report(pid, args.tier, args.seed)
    report.assumptions.extend([
        "only successful builds are compared graph-for-graph; failing projects are compared on the return-code class",
        "simulated steps are deterministic functions of what they read; projects whose scripts inspect the file system (schedule_dependent) are excluded",
        "the order-independence of conflict error texts is checked by the graph-layer pair check (C08), not here",
    ])
    with Scratch():
        cases = []
        for name, fn in SHAPES.items():
            proj = fn()
            if proj.get("schedule_dependent"):
                continue
            cases.append({"tid": f"sch-{name}", "project": proj, "seed": args.seed, "k": k})
        for i in range(n):
            g = Gen(args.seed * 100003 + i + 300)
            g.features["clobber"] = 0.0
            cases.append({"tid": f"sch{args.seed}-{i}", "project": g.project(), "seed": args.seed * 7 + i, "k": k})
        for c in hard_conflict_projects(args.seed, n // 2):
            cases.append({"tid": "sch-" + c["tid"], "project": c["project"], "seed": args.seed, "k": 4,
                          "cfg_extra": {"keep_going": True, "defer_cap": 3}})
        # resumed builds: the same edit history under different schedules
        hcases = []
        for name, fn in SHAPES.items():
            proj = fn()
            if proj.get("schedule_dependent"):
                continue
            both = [["set", p, v[1]] for p, v in proj["sources"].items() if len(v) > 1 and not p.endswith(".py")]
            if both:
                hcases.append({"tid": f"hs-{name}", "project": proj, "seed": args.seed, "k": 4,
                               "phases": [initial_phase(proj, seed=1), {"edits": both + proj.get("env_edits", []), "how": "restart", "cfg": {}}]})
        for i in range(n // 2):
            g = Gen(args.seed * 100003 + i + 7000)
            g.features["fail"] = 0.0
            g.features["clobber"] = 0.0
            g.features["late_subplan"] = 0.0
            proj = g.project()
            hcases.append({"tid": f"hs{args.seed}-{i}", "project": proj, "seed": args.seed * 3 + i, "k": 3,
                           "phases": g.history(proj, nphases=3, watch_p=0.0, cfgs=[{"njob": 2, "resources": "gpu:2,tpu:2"}])})
        results = pmap(exec_sched_case, cases) + pmap(exec_hist_sched_case, hcases)
        rel_lines, traces, replays = [], [], {}
        classes = {}
        for kind, r in results:
            if kind == "err":
                report.machinery("harness crashed: " + r[:1500])
                continue
            rel_lines.extend(r["rels"])
            traces.extend(r["traces"])
            replays[r["tid"]] = r["replay"]
            for rc in r["rcs"]:
                classes[str(rc)] = classes.get(str(rc), 0) + 1
        for c in cases[:2]:
            report.sample({"tid": c["tid"], "plan": c["project"]["scripts"]["./plan.py"]["versions"]})
        v = validate_rels(report, rel_lines) if rel_lines else None
        if v:
            report.add_verdicts(v["bad"], replays)
            report.coverage["relations_checked"] = v["cnt"]
            report.coverage["states"] = v["states"]
            report.coverage["transitions"] = v["lines"]
        try:
            tv = tlc.validate_traces(tlc.pack_batches(traces, 6000), parallel=12)
            for b in tv["bad"]:
                key = f"{b['prop']}:{b['clause']}"
                report.other[key] = report.other.get(key, 0) + 1
            report.coverage["states"] = report.coverage.get("states", 0) + tv["states"]
            report.coverage["transitions"] = report.coverage.get("transitions", 0) + tv["lines"]
            report.coverage["traces_validated_against_impl"] = len(traces)
        except tlc.TLCFailure as exc:
            report.machinery(str(exc)[:3000])
        report.coverage["projects"] = len(cases)
        report.coverage["return_codes_seen"] = classes
        report.coverage["rule"] = "one relation = one pair (schedule j, schedule 0) of from-scratch builds of one project, or (resumed, fresh)"
        if not v or v["cnt"].get("same_final", 0) < 100:
            report.machinery("vacuous run: too few schedule pairs compared")
        # Layer G: the file/step state machine (spec/FileStep.tla) model checked and replayed
        from checks import filestep
        fs = filestep.run(report, args.tier, args.seed, "C02")
        report.coverage["filestep"] = fs
        # Layer G: a step whose amended input turns up while it runs must not be parked for good
        # (spec/Defer.tla): whether a build succeeds must not depend on that interleaving
        from checks import defer
        df = defer.run(report, args.tier, args.seed, "C02")
        report.coverage["defer"] = df
        report.coverage["states"] = report.coverage.get("states", 0) + df.get("states", 0)
        report.coverage["traces_validated_against_impl"] = report.coverage.get("traces_validated_against_impl", 0) + df.get("sequences", 0)
        report.coverage["states"] = report.coverage.get("states", 0) + fs.get("states", 0)
        report.coverage["traces_validated_against_impl"] = report.coverage.get("traces_validated_against_impl", 0) + fs.get("sequences", 0)
    return report.finish()


if __name__ == "__main__":
    sys.exit(main())
