"""History-level relational checks decided by spec/RelCheck.tla (+ TraceCheck.tla on every trace):

C01  incremental build == build from scratch
C04  no-op rebuild does nothing; edits rerun only their cone

usage: python -m checks.history C01 --tier quick
"""

from __future__ import annotations

import copy
import json
import os
import random
import sys

sys.path.insert(0, os.path.dirname(os.path.dirname(os.path.abspath(__file__))))

from checks import engine_b  # noqa: E402
from checks.common import Report, parse_args  # noqa: E402
from harness import tlc  # noqa: E402
from harness.projects import SHAPES, Gen, final_sources, initial_phase  # noqa: E402
from harness.runner import Scratch, group_phases, pmap, run_history  # noqa: E402
from harness.simdirector import World, apply_edit  # noqa: E402


def disk_ev(disk):
    return {"files": {k: [v[0], v[1]] for k, v in disk["files"].items()}, "dirs": disk["dirs"]}


def last_rc(run) -> int:
    if run["exc"] or run["hang"] or not run["phase_rcs"]:
        return 1  # INTERNAL
    return int(run["phase_rcs"][-1])


def side(run):
    return {"state": run["final_state"], "disk": disk_ev(run["disk"]), "rc": last_rc(run), "dup": run.get("dups", []),
            "globprod": run.get("globprod", [])}


def executed_steps(events):
    return sorted({e["step"] for e in events if e["ev"] == "cmd_start"})


def validated_steps(events):
    """Steps whose dynamic dependencies were validated (hash check of a step that amended something)."""
    return sorted({e["step"] for e in events if e["ev"] == "pop" and e.get("kind") == "ValidateDynamicJob"})


def exec_hist_case(case: dict) -> dict:
    project, phases = case["project"], case["phases"]
    rels = []
    traces = []
    world = World()
    try:
        out = run_history(project, phases, world=world, keep_world=True)
        traces.append((case["tid"], tlc.export_trace(case["tid"], out["events"])))
        last = out["runs"][-1]
        a = side(last)
        replay = {"tid": case["tid"], "project": project, "phases": copy.deepcopy(phases)}
        for group, run in zip(group_phases(replay["phases"]), out["runs"]):
            group[0]["choices"] = run["choices"]
        cfg = phases[-1].get("cfg", {})
        # --- scratch build of the final sources
        fin = final_sources(project, phases)
        edits = [["set", p, v] for p, v in fin["files"].items() if v is not None]
        edits += [["env", k, v] for k, v in fin["env"].items() if v is not None]
        sphase = {"edits": edits, "how": "restart", "cfg": cfg, "seed": case.get("seed", 0) + 7, "fresh": True}
        out2 = run_history(project, [sphase])
        tid2 = case["tid"] + "/scratch"
        traces.append((tid2, tlc.export_trace(tid2, out2["events"])))
        b = side(out2["runs"][-1])
        k = 0
        if "C01" in case["want"]:
            k += 1
            rels.append({"tid": case["tid"], "k": k, "rel": "incr_eq_scratch", "a": a, "b": b})
        if "C04" in case["want"]:
            # every phase of the history that only edits source files, after a successful build
            per_run, cur = [], None
            for ev in out["events"]:
                if ev["ev"] == "proc_start":
                    cur = []
                    per_run.append(cur)
                if cur is not None:
                    cur.append(ev)
            groups = group_phases(phases)
            for i in range(1, min(len(groups), len(out["runs"]), len(per_run))):
                edits_i = groups[i][0].get("edits", [])
                if len(groups[i]) != 1 or not edits_i:
                    continue
                if not all(e[0] == "set" and not e[1].endswith(".py") for e in edits_i):
                    continue
                if last_rc(out["runs"][i - 1]) not in (0, 8) or groups[i][0].get("during"):
                    continue
                k += 1
                rels.append({"tid": case["tid"], "k": k, "rel": "cone", "a": side(out["runs"][i - 1]), "b": side(out["runs"][i]),
                             "info": {"edited": sorted({e[1] for e in edits_i}), "executed": executed_steps(per_run[i]),
                                      "validated": validated_steps(per_run[i]), "phase": i}})
        if "C04" in case["want"] and a["rc"] in (0, 8) and last_rc(out["runs"][-1]) in (0, 8):
            # --- no-op rebuild (restart)
            rng = random.Random(case.get("seed", 0))
            nphase = {"edits": [], "how": "restart", "cfg": cfg, "seed": rng.randrange(10**6)}
            pre_disk = world.snapshot()
            out3 = run_history(project, [nphase], world=world)
            tid3 = case["tid"] + "/noop"
            traces.append((tid3, tlc.export_trace(tid3, out3["events"])))
            post = side(out3["runs"][-1])
            post_disk = out3["runs"][-1]["disk"]
            ex = executed_steps(out3["events"])
            rewritten = sorted(
                p for p, v in post_disk["files"].items()
                if p in pre_disk["files"] and pre_disk["files"][p][2] != v[2]
            )
            k += 1
            rels.append({"tid": case["tid"], "k": k, "rel": "noop_rebuild", "a": a, "b": post,
                         "info": {"ncmd": len(ex), "executed": ex, "rewritten": rewritten}})
            # --- edited rebuild: a subset of (non-script) sources gets new content
            cands = [p for p, v in fin["files"].items() if v is not None and not p.endswith(".py")
                     and len(project["sources"].get(p, [])) > 1]
            twin = (fin["files"].get("plan.py") or "") + "b"
            has_twin = twin in project["scripts"]["./plan.py"]["versions"]
            if (cands or has_twin) and post["rc"] in (0, 8):
                nx = rng.choice([1, 1, 2, 3])
                X = sorted(rng.sample(cands, min(nx, len(cands)))) if cands else []
                edits = []
                for p in X:
                    others = [v for v in project["sources"][p] if v != fin["files"][p]]
                    edits.append(["set", p, rng.choice(others)])
                # steps of sub-plans that carry satellites (overrides, resources, env) are the ones
                # whose skip after a mere re-declaration of their static inputs is at stake
                sat = any(v["kind"] == "step" and (v["overrides"] or v["envVars"]) and v["creator"].startswith("step:./sub")
                          for v in post["state"]["nodes"].values())
                if has_twin and (not X or sat or rng.random() < 0.5):
                    # the plan script is edited without changing what it declares
                    if sat or rng.random() < 0.5:
                        X, edits = [], []
                    edits.append(["set", "plan.py", twin])
                    X = sorted(set(X) | {"plan.py"})
                ephase = {"edits": edits, "how": "restart", "cfg": cfg, "seed": rng.randrange(10**6)}
                out4 = run_history(project, [ephase], world=world)
                tid4 = case["tid"] + "/edit"
                traces.append((tid4, tlc.export_trace(tid4, out4["events"])))
                post2 = side(out4["runs"][-1])
                k += 1
                rels.append({"tid": case["tid"], "k": k, "rel": "cone", "a": post, "b": post2,
                             "info": {"edited": X, "executed": executed_steps(out4["events"]), "validated": validated_steps(out4["events"])}})
                replay["cone_edits"] = edits
    finally:
        world.destroy()
    return {
        "tid": case["tid"],
        "rels": [json.dumps(r, separators=(",", ":"), sort_keys=True) for r in rels],
        "traces": traces,
        "replay": replay,
        "rcs": [a["rc"], b["rc"]],
    }


def build_cases(seed, n, want, nphases=4):
    cases = []
    for name, fn in SHAPES.items():
        proj = fn()
        if proj.get("schedule_dependent"):
            continue
        phases = [initial_phase(proj, cfg={"njob": 2, "resources": "gpu:2,tpu:1"}, seed=seed)]
        for path, vers in proj["sources"].items():
            if len(vers) > 1:
                phases.append({"edits": [["set", path, vers[1]]], "how": "restart", "cfg": {"njob": 2, "resources": "gpu:2,tpu:1"}, "seed": seed + 1})
        # and back to the first versions (drop -> re-add patterns)
        for path, vers in proj["sources"].items():
            if len(vers) > 1 and path.endswith(".py"):
                phases.append({"edits": [["set", path, vers[0]]], "how": "restart", "cfg": {"njob": 2, "resources": "gpu:2,tpu:1"}, "seed": seed + 2})
        cases.append({"tid": f"shape-{name}", "project": proj, "phases": phases, "want": want, "seed": seed})
        # all versioned non-script sources switched in one phase, under several schedules
        both = [["set", p, v[1]] for p, v in proj["sources"].items() if len(v) > 1 and not p.endswith(".py")]
        if len(both) > 0:
            for k in range(4):
                cfgk = {"njob": 1 + k % 3, "resources": "gpu:2,tpu:1"}
                ph = [initial_phase(proj, cfg=cfgk, seed=seed * 10 + k),
                      {"edits": both, "how": "restart", "cfg": cfgk, "seed": seed * 10 + k + 100, "policy": ["random", "lifo", "fifo", "random"][k]}]
                cases.append({"tid": f"shape-{name}-all{k}", "project": proj, "phases": ph, "want": want, "seed": seed + k})
        for k, hist in enumerate(proj.get("extra_histories", [])):
            for nj in (1, 2):
                cfgk = {"njob": nj, "resources": "gpu:2,tpu:1"}
                ph0 = initial_phase(proj, cfg=cfgk, seed=seed + k)
                if any(isinstance(e, dict) for e in hist):
                    continue   # histories that change the invocation (targets) are for the trace checks
                ph0["edits"] = list(ph0["edits"]) + list(hist[0])
                ph = [ph0] + [{"edits": e, "how": "restart", "cfg": cfgk, "seed": seed * 7 + k * 10 + j} for j, e in enumerate(hist[1:])]
                cases.append({"tid": f"shape-{name}-x{k}j{nj}", "project": proj, "phases": ph, "want": want, "seed": seed + k})
    for i in range(n):
        g = Gen(seed * 100003 + i)
        # C01/C04 need successful final builds to say anything: ample resources, no failing steps,
        # no step that overwrites its own inputs
        g.features["fail"] = 0.0
        g.features["clobber"] = 0.0
        g.features["late_subplan"] = 0.0  # F8: outcome of such plans depends on the schedule
        proj = g.project()
        hist = g.history(proj, nphases=nphases, watch_p=0.0,
                         cfgs=[{"njob": 1, "resources": "gpu:2,tpu:2"}, {"njob": 2, "resources": "gpu:2,tpu:2"},
                               {"njob": 3, "resources": "gpu:4,tpu:2", "keep_going": True}])
        cases.append({"tid": f"h{seed}-{i}", "project": proj, "phases": hist, "want": want, "seed": seed * 31 + i})
    return cases


def validate_rels(report, rel_lines):
    try:
        v = tlc.validate_traces(tlc.pack_batches([("r", rel_lines)], 400) if len(rel_lines) < 400 else
                                [rel_lines[i:i + 300] for i in range(0, len(rel_lines), 300)],
                                module="RelCheck.tla", cfg="RelCheck.cfg", parallel=12)
    except tlc.TLCFailure as exc:
        report.machinery(str(exc)[:3000])
        return None
    return v


def main(argv=None):
    argv = list(sys.argv[1:] if argv is None else argv)
    pid = argv.pop(0)
    args = parse_args(argv)
    n = {"quick": 110, "thorough": 1500}[args.tier]
    report = Report(pid, args.tier, args.seed)
    report.assumptions.extend([
        "the from-scratch oracle is a real build of the final sources by the same code in an empty project directory",
        "simulated steps are deterministic functions of what they read (content tokens)",
        "only histories whose scratch build succeeds are compared graph-for-graph; otherwise only the return-code class",
    ])
    with Scratch():
        cases = build_cases(args.seed, n, want=[pid])
        for fn_gen_feature in ():
            pass
        results = pmap(exec_hist_case, cases)
        rel_lines, traces, replays = [], [], {}
        nsucc = 0
        for kind, r in results:
            if kind == "err":
                report.machinery("harness crashed: " + r[:1500])
                continue
            rel_lines.extend(r["rels"])
            traces.extend(r["traces"])
            replays[r["tid"]] = r["replay"]
            nsucc += int(r["rcs"][1] in (0, 8))
        for c in cases[:3]:
            report.sample({"tid": c["tid"], "history": [p["edits"] for p in c["phases"]],
                           "plan_versions": c["project"]["scripts"]["./plan.py"]["versions"]})
        v = validate_rels(report, rel_lines) if rel_lines else None
        if v:
            report.add_verdicts(v["bad"], replays)
            report.coverage["relations_checked"] = v["cnt"]
            report.coverage["states"] = v["states"]
            report.coverage["transitions"] = v["lines"]
        # every recorded execution is also validated against the commit-level monitors
        try:
            tv = tlc.validate_traces(tlc.pack_batches(traces, 6000), parallel=12)
            other = {}
            for b in tv["bad"]:
                key = f"{b['prop']}:{b['clause']}"
                other[key] = other.get(key, 0) + 1
            report.other.update(other)
            report.coverage["states"] = report.coverage.get("states", 0) + tv["states"]
            report.coverage["transitions"] = report.coverage.get("transitions", 0) + tv["lines"]
            report.coverage["traces_validated_against_impl"] = len(traces)
        except tlc.TLCFailure as exc:
            report.machinery(str(exc)[:3000])
        report.coverage["histories"] = len(cases)
        report.coverage["histories_with_successful_scratch_build"] = nsucc
        report.coverage["rule"] = "hand-written shapes (drop/re-add of every versioned source) + seeded generated projects with 4-phase edit histories; nontrivial = scratch build succeeded so graphs were compared"
        if pid == "C01" and (not v or v["cnt"].get("incr_eq_scratch", 0) < 20 or nsucc < 10):
            report.machinery("vacuous run: too few incremental/scratch comparisons")
        if pid == "C04" and (not v or v["cnt"].get("noop_rebuild", 0) < 10 or v["cnt"].get("cone", 0) < 5):
            report.machinery("vacuous run: too few no-op / cone comparisons")
        if pid == "C01":
            # Layer G: re-execution of a plan (spec/Recycle.tla) model checked and replayed
            from checks import recycle
            rs = recycle.run(report, args.tier, args.seed, pid)
            report.coverage["recycle"] = rs
            report.coverage["states"] = report.coverage.get("states", 0) + rs.get("states", 0)
            report.coverage["traces_validated_against_impl"] = report.coverage.get("traces_validated_against_impl", 0) + rs.get("sequences", 0)
            from checks import plans
            ps = plans.run(report, args.tier, args.seed, pid)
            report.coverage["plans"] = ps
            report.coverage["states"] = report.coverage.get("states", 0) + ps.get("states", 0)
            report.coverage["traces_validated_against_impl"] = report.coverage.get("traces_validated_against_impl", 0) + ps.get("sequences", 0)
            if ps.get("f17_found_by_model"):
                report.notes.append("Plans.tla: NoSpuriousRejection fails in the model (this is finding F17)")
            if rs.get("strict_invariant_violated_in_model"):
                report.notes.append("Recycle.tla: the strict invariant DoneMeansInputsDeclared fails in the model (this is finding F15)")
    if pid == "C04":
        # Layer B: what a dispatched job does -- validate, skip or execute (spec/Job.tla) -- model checked, and
        # the commits of the real director on a project of the model's shape matched against its actions
        with Scratch():
            from checks import job
            jb = job.run(report, args.tier, args.seed, pid)
        report.coverage["job"] = jb
        report.coverage["states"] = report.coverage.get("states", 0) + jb.get("states", 0) + jb.get("model_states", 0)
        report.coverage["traces_validated_against_impl"] = report.coverage.get("traces_validated_against_impl", 0) + jb.get("histories", 0)
    return report.finish()


if __name__ == "__main__":
    sys.exit(main())
