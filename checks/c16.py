"""C16: remote calls are answered exactly once and correctly paired.

1. spec/Rpc.tla is model checked exhaustively (3 calls, every kind of call and fault, every
   fragmentation of the stream into header/body units, every completion order).
2. The real `stepup.core.rpc.RPCServerConnection` is driven over a hand-fed StreamReader and a
   recording writer on the idle-hook loop, along seeded scenarios from the same space (byte-level
   cuts, completion orders, EOF/garbage/oversize/close at any point); every recorded execution is
   validated by TLC against spec/TraceRpc.tla (is it a behaviour of Rpc.tla?) with all invariants
   evaluated at every step.  The client-side classification of each reply uses the real
   `_decode_response`.

usage: python -m checks.c16 --tier quick
"""

from __future__ import annotations

import asyncio
import json
import os
import pickle
import random
import re
import sys

sys.path.insert(0, os.path.dirname(os.path.dirname(os.path.abspath(__file__))))

from checks.common import Report, parse_args  # noqa: E402
from harness import tlc  # noqa: E402
from harness.loop import Controller, IdleLoop  # noqa: E402
from harness.runner import Scratch, pmap  # noqa: E402

KINDS = ["ok", "usage", "internal", "intcancel", "unknown", "hidden", "badargs", "garbage", "oversize", "close"]
NCALLS = 3


class Writer:
    def __init__(self):
        self.buf = bytearray()
        self.closed = False
        self.broken = False

    def write(self, data):
        if self.broken:
            raise ConnectionResetError("peer gone")
        self.buf.extend(data)

    async def drain(self):
        if self.broken:
            raise ConnectionResetError("peer gone")

    def close(self):
        self.closed = True

    async def wait_closed(self):
        return None

    def is_closing(self):
        return self.closed

    def get_extra_info(self, *a, **k):
        return None


def run_scenario(sc: dict) -> list[dict]:
    """Drive one scenario on the real server connection; return the recorded trace lines."""
    from stepup.core import rpc
    from stepup.core.exceptions import GraphError, UsageError

    rng = random.Random(sc["seed"])
    kinds, units = sc["kinds"], sc["units"]
    trace = [{"ev": "start", "kinds": kinds, "units": units}]
    events: dict[int, asyncio.Event] = {}

    def make_handler(tr, evs):
        class Handler:
            @rpc.allow_rpc
            async def ok(self, c):
                tr.append({"ev": "entered", "c": c})
                await evs[c].wait()
                return ("value", c)

            @rpc.allow_rpc
            async def usage(self, c):
                tr.append({"ev": "entered", "c": c})
                await evs[c].wait()
                raise GraphError(f"usage error of call {c}")

            @rpc.allow_rpc
            async def internal(self, c):
                tr.append({"ev": "entered", "c": c})
                await evs[c].wait()
                raise RuntimeError(f"internal error of call {c}")

            @rpc.allow_rpc
            async def intcancel(self, c):
                tr.append({"ev": "entered", "c": c})
                await evs[c].wait()
                raise asyncio.CancelledError(f"cancelled inside the director, call {c}")

            async def hidden(self, c):
                tr.append({"ev": "entered", "c": c})
                return "must never run"

        return Handler()

    # a second connection of the same server with one slow call in flight during the whole scenario
    trace2 = [{"ev": "start", "kinds": ["ok", "ok", "ok"], "units": [3, 3, 3]}]
    events2 = {1: asyncio.Event()}

    # wire bytes of every message, cut into units
    pieces: list[bytes] = []
    for c in range(1, NCALLS + 1):
        k = kinds[c - 1]
        if k == "close":
            msg = rpc._encode_message(c, None)
        elif k == "oversize":
            msg = c.to_bytes(8, "big") + (2**33).to_bytes(8, "big")
        else:
            if k == "garbage":
                body = pickle.dumps(["not", "a", "call"])
            elif k == "badargs":
                body = rpc._encode_body(rpc.RPCCall("ok", (1, 2, 3)))
            elif k == "unknown":
                body = rpc._encode_body(rpc.RPCCall("no_such_procedure", (c,)))
            else:
                body = rpc._encode_body(rpc.RPCCall(k, (c,)))
            msg = rpc._encode_message(c, body)
        head, body = msg[:16], msg[16:]
        parts = [head[:8], head[8:]]
        nb = units[c - 1] - 2
        if nb == 1:
            parts.append(body)
        elif nb == 2:
            cut = rng.randrange(1, max(2, len(body)))
            parts += [body[:cut], body[cut:]]
        pieces.extend(parts)
    total = len(pieces)

    loop = IdleLoop()
    ctl = Controller(seed=sc["seed"], policy="fifo")
    loop.on_idle = ctl.on_idle
    asyncio.set_event_loop(loop)

    async def main():
        reader = asyncio.StreamReader()
        writer = Writer()
        for c in range(1, NCALLS + 1):
            events[c] = asyncio.Event()
        conn = rpc.RPCServerConnection(make_handler(trace, events), reader, writer)
        serve = asyncio.ensure_future(conn.serve())
        reader2 = asyncio.StreamReader()
        writer2 = Writer()
        conn2 = rpc.RPCServerConnection(make_handler(trace2, events2), reader2, writer2)
        serve2 = asyncio.ensure_future(conn2.serve())
        msg2 = rpc._encode_message(1, rpc._encode_body(rpc.RPCCall("ok", (1,))))
        reader2.feed_data(msg2)
        trace2.extend([{"ev": "write", "n": 3}, {"ev": "deliver", "n": 3}])
        off2 = [0]

        def collect2():
            buf = bytes(writer2.buf)
            while len(buf) - off2[0] >= 16:
                cid = int.from_bytes(buf[off2[0]:off2[0] + 8], "big")
                size = int.from_bytes(buf[off2[0] + 8:off2[0] + 16], "big")
                if len(buf) - off2[0] - 16 < size:
                    break
                body = buf[off2[0] + 16:off2[0] + 16 + size] if size else None
                off2[0] += 16 + size
                try:
                    rpc._decode_response(body, rpc.RPCCall("x"), server_log_description=None)
                    what = "result"
                except UsageError:
                    what = "usage_error"
                except rpc.RPCError:
                    what = "remote_error" if body is not None else "no_reply"
                except Exception as exc:  # noqa: BLE001
                    what = "other:" + type(exc).__name__
                trace2.append({"ev": "reply", "c": cid, "what": what})
        serve_exc = []
        written = delivered = 0
        eof = False
        parsed_off = 0
        finished: set[int] = set()

        def collect():
            nonlocal parsed_off
            buf = bytes(writer.buf)
            while len(buf) - parsed_off >= 16:
                cid = int.from_bytes(buf[parsed_off:parsed_off + 8], "big")
                size = int.from_bytes(buf[parsed_off + 8:parsed_off + 16], "big")
                if len(buf) - parsed_off - 16 < size:
                    break
                body = buf[parsed_off + 16:parsed_off + 16 + size] if size else None
                parsed_off += 16 + size
                try:
                    rpc._decode_response(body, rpc.RPCCall("x"), server_log_description=None)
                    what = "result"
                except UsageError:
                    what = "usage_error"
                except rpc.RPCError:
                    what = "remote_error" if body is not None else "no_reply"
                except Exception as exc:  # noqa: BLE001
                    what = "other:" + type(exc).__name__
                trace.append({"ev": "reply", "c": cid, "what": what})

        async def settle():
            for _ in range(3):
                await ctl.gate("idle:settle")
            collect()
            collect2()
            if serve.done() and not serve.cancelled() and not any(t["ev"] == "closed" for t in trace):
                if serve.exception() is not None:
                    serve_exc.append(repr(serve.exception())[:200])
                trace.append({"ev": "closed"})

        await settle()
        for _ in range(60):
            if serve.done():
                break
            moves = []
            if written < total and not eof:
                moves.append("write")
            if delivered < written:
                moves += ["deliver", "deliver"]
            running = [t["c"] for t in trace if t["ev"] == "entered" and t["c"] not in finished]
            if running:
                moves += ["finish", "finish"]
            if not eof and rng.random() < sc["p_eof"]:
                moves.append("eof")
            if not moves:
                if not eof and sc.get("eof_at_end"):
                    moves = ["eof"]
                else:
                    break
            mv = rng.choice(moves)
            if mv == "write":
                n = rng.randrange(1, total - written + 1)
                written += n
                trace.append({"ev": "write", "n": n})
            elif mv == "deliver":
                n = rng.randrange(1, written - delivered + 1)
                for p in pieces[delivered:delivered + n]:
                    reader.feed_data(p)
                delivered += n
                trace.append({"ev": "deliver", "n": n})
            elif mv == "finish":
                c = rng.choice(running)
                finished.add(c)
                trace.append({"ev": "finish", "c": c})
                events[c].set()
            elif mv == "eof":
                eof = True
                # everything written is still delivered before the stream ends
                if delivered < written:
                    for p in pieces[delivered:written]:
                        reader.feed_data(p)
                    trace.append({"ev": "deliver", "n": written - delivered})
                    delivered = written
                trace.append({"ev": "eof"})
                reader.feed_eof()
            await settle()
        # let remaining handlers finish so that the connection can close
        for c in [t["c"] for t in trace if t["ev"] == "entered" and t["c"] not in finished]:
            if serve.done():
                break
            finished.add(c)
            trace.append({"ev": "finish", "c": c})
            events[c].set()
            await settle()
        if not serve.done():
            serve.cancel()
            try:
                await serve
            except BaseException:  # noqa: BLE001
                pass
        # the bystander: its call completes now, is answered, then its peer leaves
        if not serve2.done():
            trace2.append({"ev": "finish", "c": 1})
            events2[1].set()
            await settle()
            trace2.append({"ev": "eof"})
            reader2.feed_eof()
            await settle()
        if serve2.done():
            trace2.append({"ev": "closed"})
        else:
            serve2.cancel()
            try:
                await serve2
            except BaseException:  # noqa: BLE001
                pass
        return serve_exc

    try:
        serve_exc = loop.run_until_complete(main())
    finally:
        loop.on_idle = None
        for t in asyncio.all_tasks(loop):
            t.cancel()
        try:
            loop.run_until_complete(asyncio.sleep(0))
        except BaseException:  # noqa: BLE001
            pass
        asyncio.set_event_loop(None)
        loop.close()
    return trace, trace2


def exec_scenario(sc):
    import logging

    logging.disable(logging.CRITICAL)
    t1, t2 = run_scenario(sc)
    return [{"sc": sc, "trace": t1}, {"sc": dict(sc, id=sc["id"] + "/bystander"), "trace": t2}]


E2E_KINDS = ["ok", "ok", "usage", "internal", "unknown", "intcancel"]


def exec_e2e(sc):
    """Real SocketRPCServer + real async and sync clients over a Unix socket: what the callers get."""
    import logging
    import shutil
    import tempfile
    import threading

    logging.disable(logging.CRITICAL)
    from stepup.core import rpc
    from stepup.core.exceptions import GraphError

    rng = random.Random(sc["seed"])
    trace = [{"ev": "start", "tid": sc["id"]}]
    lock = threading.Lock()

    def emit(**kw):
        with lock:
            trace.append(dict(kw, tid=sc["id"]))

    async def main():
        gates: dict[tuple[str, int], asyncio.Event] = {}

        class Handler:
            async def _gate(self, conn, k):
                await gates.setdefault((conn, k), asyncio.Event()).wait()

            @rpc.allow_rpc
            async def ok(self, conn, k, arg):
                await self._gate(conn, k)
                return ["value", arg]

            @rpc.allow_rpc
            async def usage(self, conn, k, arg):
                await self._gate(conn, k)
                raise GraphError(f"usage error for {arg}")

            @rpc.allow_rpc
            async def internal(self, conn, k, arg):
                await self._gate(conn, k)
                raise RuntimeError(f"internal error for {arg}")

            @rpc.allow_rpc
            async def intcancel(self, conn, k, arg):
                # something the handler waits for is cancelled by another component of the director
                await self._gate(conn, k)
                raise asyncio.CancelledError(f"cancelled inside the director: error for {arg}")

        sockdir = tempfile.mkdtemp(prefix="vr-", dir=os.environ.get("VERIF_SCRATCH"))
        path = os.path.join(sockdir, "s")
        stop = asyncio.Event()
        server = rpc.SocketRPCServer(Handler(), path)
        serve = asyncio.create_task(server.serve(stop))
        for _ in range(2000):
            if os.path.exists(path) or serve.done():
                break
            await asyncio.sleep(0.001)
        loop = asyncio.get_running_loop()
        # whatever asyncio would log as an unhandled exception of a task or callback of the server
        loop.set_exception_handler(lambda lp, ctx: emit(ev="server_error", what=(str(ctx.get("message")) + " " + repr(ctx.get("exception")))[:200]))

        def outcome(conn, k, fn):
            try:
                res = fn()
                return ("ok", res[1] if isinstance(res, list) and len(res) == 2 and res[0] == "value" else f"?{res!r}"[:40])
            except GraphError as exc:
                return ("GraphError", str(exc).rsplit(" ", 1)[-1])
            except rpc.RPCError as exc:
                m = re.search(r"error for (c\d+-k\d+)", str(exc))  # what the server raised for the call it ran
                return ("RPCError", m.group(1) if m else "")
            except ConnectionResetError:
                return ("ConnectionResetError", "")
            except BaseException as exc:  # noqa: BLE001
                return (type(exc).__name__, str(exc)[:60])

        async def one_async(client, conn, k, kind):
            arg = f"{conn}-k{k}"
            emit(ev="call", conn=conn, k=k, kind=kind, arg=arg)
            try:
                res = await asyncio.wait_for(client(kind if kind != "unknown" else "no_such_procedure", conn, k, arg), 20)
                cls, val = ("ok", res[1]) if isinstance(res, list) and len(res) == 2 and res[0] == "value" else ("ok", f"?{res!r}"[:40])
            except GraphError as exc:
                cls, val = "GraphError", str(exc).rsplit(" ", 1)[-1]
            except rpc.RPCError as exc:
                m = re.search(r"error for (c\d+-k\d+)", str(exc))  # what the server raised for the call it ran
                cls, val = "RPCError", (m.group(1) if m else arg)
            except ConnectionResetError:
                cls, val = "ConnectionResetError", ""
            except asyncio.TimeoutError:
                cls, val = "TimeoutError", ""
            except BaseException as exc:  # noqa: BLE001
                cls, val = type(exc).__name__, str(exc)[:60]
            emit(ev="ret", conn=conn, k=k, cls=cls, val=val)

        def sync_calls(conn, kinds):
            client = rpc.SocketSyncRPCClient(path)
            try:
                for k, kind in enumerate(kinds, start=1):
                    arg = f"{conn}-k{k}"
                    emit(ev="call", conn=conn, k=k, kind=kind, arg=arg)
                    try:
                        res = client(kind if kind != "unknown" else "no_such_procedure", conn, k, arg, _rpc_timeout=20)
                        cls, val = ("ok", res[1]) if isinstance(res, list) and len(res) == 2 and res[0] == "value" else ("ok", f"?{res!r}"[:40])
                    except GraphError as exc:
                        cls, val = "GraphError", str(exc).rsplit(" ", 1)[-1]
                    except rpc.RPCError as exc:
                        m = re.search(r"error for (c\d+-k\d+)", str(exc))  # what the server raised for the call it ran
                        cls, val = "RPCError", (m.group(1) if m else arg)
                    except BaseException as exc:  # noqa: BLE001
                        cls, val = type(exc).__name__, str(exc)[:60]
                    emit(ev="ret", conn=conn, k=k, cls=cls, val=val)
            finally:
                try:
                    client.close()
                except BaseException:  # noqa: BLE001
                    pass

        nconn = sc["nconn"]
        clients = {f"c{i}": rpc.SocketAsyncRPCClient(path) for i in range(1, nconn + 1)}
        tasks = []
        plan = []
        for conn, client in clients.items():
            for k in range(1, sc["ncalls"] + 1):
                kind = rng.choice(E2E_KINDS)
                plan.append((conn, k))
                tasks.append(asyncio.create_task(one_async(client, conn, k, kind)))
        sync_kinds = [rng.choice(E2E_KINDS) for _ in range(sc["nsync"])]
        sync_fut = loop.run_in_executor(None, sync_calls, "c9", sync_kinds) if sync_kinds else None
        # completion order chosen by the driver; the gates of the synchronous client's calls open as they come
        order = list(plan)
        rng.shuffle(order)
        drop = sc.get("drop")

        def rogue_peer(how):
            """A peer that is not an RPC client: raw bytes on a connection of its own, then gone."""
            import socket as socket_mod

            sk = socket_mod.socket(socket_mod.AF_UNIX, socket_mod.SOCK_STREAM)
            try:
                sk.settimeout(2)
                sk.connect(path)
                good = rpc._encode_message(1, rpc._encode_body(rpc.RPCCall("ok", ("cR", 1, "cR-k1"))))
                if how == "garbage":
                    body = pickle.dumps(["not", "a", "call"])
                    sk.sendall((7).to_bytes(8, "big") + len(body).to_bytes(8, "big") + body)
                elif how == "oversize":
                    sk.sendall((7).to_bytes(8, "big") + (2**40).to_bytes(8, "big"))
                elif how == "cut_body":
                    sk.sendall(good + good[:16 + max(1, (len(good) - 16) // 2)])
                elif how == "cut_header":
                    sk.sendall(good + good[:7])
                else:
                    sk.sendall(b"\x00" * 5)
            except OSError:
                pass
            finally:
                sk.close()

        for i, key in enumerate(order):
            await asyncio.sleep(0)
            if sc.get("rogue") and i == sc["rogue_at"]:
                await loop.run_in_executor(None, rogue_peer, sc["rogue"])
                await asyncio.sleep(0.002)
            if drop and i == sc["drop_at"] and drop in clients:
                # the peer vanishes: transport torn down without a close message
                cl = clients[drop]
                await cl._ensure_connected()
                emit(ev="drop", conn=drop)
                cl._writer.transport.abort()
            for kk in [key] + [x for x in list(gates) if x[0] == "c9"]:
                gates.setdefault(kk, asyncio.Event()).set()
            await asyncio.sleep(0.001)
        # open whatever is still waiting (calls of the synchronous client arrive one by one)
        for _ in range(4000):
            for ev in list(gates.values()):
                ev.set()
            if all(t.done() for t in tasks) and (sync_fut is None or sync_fut.done()):
                break
            await asyncio.sleep(0.002)
        await asyncio.gather(*tasks, return_exceptions=True)
        if sync_fut is not None:
            await asyncio.wait_for(sync_fut, 30)
        for cl in clients.values():
            try:
                await asyncio.wait_for(cl.close(), 10)
            except BaseException:  # noqa: BLE001
                pass
        stop.set()
        try:
            await asyncio.wait_for(serve, 10)
        except BaseException as exc:  # noqa: BLE001
            emit(ev="server_error", what=type(exc).__name__)
        shutil.rmtree(sockdir, ignore_errors=True)

    try:
        asyncio.run(main())
    except BaseException as exc:  # noqa: BLE001
        trace.append({"ev": "harness_error", "tid": sc["id"], "what": f"{type(exc).__name__}: {exc}"[:200]})
    return {"sc": sc, "trace": trace}


def make_e2e_scenarios(seed: int, n: int):
    rng = random.Random(seed * 31 + 7)
    out = []
    for i in range(n):
        nconn = rng.choice([1, 2, 3])
        ncalls = rng.choice([2, 3, 4])
        drop = f"c{rng.randint(1, nconn)}" if rng.random() < 0.3 else None
        rogue = rng.choice(["garbage", "oversize", "cut_body", "cut_header", "short"]) if rng.random() < 0.5 else None
        out.append({"id": f"e{seed}-{i}", "seed": seed * 7919 + i, "nconn": nconn, "ncalls": ncalls, "nsync": rng.choice([0, 2, 3]),
                    "drop": drop, "drop_at": rng.randrange(nconn * ncalls), "rogue": rogue, "rogue_at": rng.randrange(nconn * ncalls)})
    return out


def validate_e2e(report, results):
    lines = []
    for r in results:
        lines.extend(json.dumps(x, separators=(",", ":")) for x in r["trace"] if x["ev"] in ("start", "call", "ret", "drop"))
    lines.append(json.dumps({"ev": "start", "tid": "end"}))
    work = tlc.scratch_dir("vrp-")
    tf, vf = os.path.join(work, "t.ndjson"), os.path.join(work, "v.json")
    import shutil

    try:
        with open(tf, "w") as fh:
            fh.write("\n".join(lines) + "\n")
        rc, out, secs = tlc.run_tlc("RpcPair.tla", "RpcPair.cfg", env={"TRACE_FILE": tf, "VERDICT_FILE": vf}, workers=1, timeout=1800)
        if not os.path.exists(vf) or "Error:" in out:
            report.machinery("TLC failed on RpcPair: " + out[-2500:])
            return 0
        with open(vf) as fh:
            res = json.load(fh)
    finally:
        shutil.rmtree(work, ignore_errors=True)
    by_tid = {r["sc"]["id"]: r for r in results}
    bad = res["bad"] if isinstance(res["bad"], list) else []
    for b in bad[:12]:
        r = by_tid.get(b["tid"], {})
        report.add_violation("client_" + b["clause"], b["subj"], {"scenario": r.get("sc"), "trace": r.get("trace")}, tid=b["tid"])
    for r in results:
        for t in r["trace"]:
            # a frame that is not RPC at all ends its own connection with an error, which asyncio logs:
            # that is how the code reacts by design (the unit-level stage accepts it as well); a peer that
            # merely vanishes, at whatever byte, must not cause any
            if t["ev"] == "server_error" and r["sc"].get("rogue") in ("garbage", "oversize"):
                continue
            if t["ev"] in ("server_error", "harness_error"):
                report.add_violation("unhandled_exception_in_the_server_after_a_peer_vanished" if t["ev"] == "server_error" else "end_to_end_harness_failed",
                                     t["what"], {"scenario": r["sc"], "trace": r["trace"]}, tid=r["sc"]["id"])
    ms = re.search(r"(\d+) distinct states found", out)
    return int(ms.group(1)) if ms else 0


def make_scenarios(seed: int, n: int):
    rng = random.Random(seed)
    out = []
    for i in range(n):
        kinds = [rng.choice(KINDS[:7]) if rng.random() < 0.8 else rng.choice(KINDS) for _ in range(NCALLS)]
        units = [2 if k in ("close", "oversize") else rng.choice([3, 4]) for k in kinds]
        out.append({"id": f"s{seed}-{i}", "kinds": kinds, "units": units, "seed": seed * 100003 + i,
                    "p_eof": rng.choice([0.0, 0.0, 0.05, 0.15]), "eof_at_end": rng.random() < 0.5})
    return out


def validate(report, results):
    """Validate recorded traces with TLC; a rejected trace is split off and reported."""
    pending = list(results)
    nstates = 0
    accepted = 0
    while pending:
        lines, index = [], []
        for r in pending:
            index.append((len(lines), r))
            lines.extend(json.dumps(x, separators=(",", ":")) for x in r["trace"])
        work = tlc.scratch_dir("vrpc-")
        tf = os.path.join(work, "trace.ndjson")
        with open(tf, "w") as fh:
            fh.write("\n".join(lines) + "\n")
        rc, out, secs = tlc.run_tlc("TraceRpc.tla", "TraceRpc.cfg", env={"TRACE_FILE": tf}, workers=1, timeout=900)
        import shutil

        shutil.rmtree(work, ignore_errors=True)
        m = re.search(r'"TRACE_PROGRESS", (\d+), (\d+)', out)
        ms = re.search(r"(\d+) distinct states found", out)
        nstates += int(ms.group(1)) if ms else 0
        inv = re.search(r"Invariant (\w+) is violated", out)
        if not m and not inv:
            report.machinery("TLC failed on TraceRpc: " + out[-2500:])
            return nstates, accepted
        reached = int(m.group(1)) if m else 0
        if inv:
            # find the trace in which the invariant failed through the printed value of l
            ml = re.findall(r"/\\ l = (\d+)", out)
            reached = int(ml[-1]) if ml else reached
        if reached >= len(lines) and not inv:
            accepted += len(pending)
            break
        # the trace containing line `reached` (0-based next line) is the offending one
        bad_i = max(i for i, (start, _) in enumerate(index) if start <= reached)
        start, bad = index[bad_i]
        accepted += bad_i
        off = reached - start
        line = bad["trace"][off] if off < len(bad["trace"]) else {"ev": "end"}
        clause = ("invariant_" + inv.group(1)) if inv else "execution_is_not_a_behaviour_of_the_specification"
        if not inv and line.get("ev") == "reply":
            ids = [t["c"] for t in bad["trace"][:off] if t["ev"] == "reply"]
            if line["c"] in ids:
                clause = "call_answered_twice"
            elif line["what"] not in ("result", "usage_error", "remote_error"):
                clause = "reply_of_unknown_shape"
            else:
                clause = "reply_with_wrong_id_or_error_class"
        elif not inv and line.get("ev") == "entered":
            clause = "procedure_entered_that_must_not_run"
        elif not inv and line.get("ev") == "closed":
            clause = "connection_closed_with_handlers_unfinished"
        elif not inv and line.get("ev") == "end":
            clause = "connection_did_not_close"
        report.add_violation(clause, json.dumps(line), {"scenario": bad["sc"], "trace": bad["trace"], "rejected_at": off},
                             tid=bad["sc"]["id"])
        pending = pending[bad_i + 1:]
    return nstates, accepted


def main(argv=None):
    args = parse_args(argv)
    report = Report("C16", args.tier, args.seed)
    n = {"quick": 1500, "thorough": 30000}[args.tier]
    with Scratch():
        rc, out, secs = tlc.run_tlc("Rpc.tla", "Rpc.cfg", workers=16, timeout=1800)
        m = re.search(r"(\d+) states generated, (\d+) distinct states found", out)
        if "Error" in out or not m or "violated" in out:
            report.machinery("Rpc.tla model check failed: " + out[-2500:])
            return report.finish()
        model_states = int(m.group(2))
        scenarios = make_scenarios(args.seed, n)
        results = []
        for kind, r in pmap(exec_scenario, scenarios):
            if kind == "err":
                report.machinery("rpc harness crashed: " + r[:1500])
            else:
                results.extend(r)
        chunks = [results[i:i + 400] for i in range(0, len(results), 400)]
        nstates = accepted = 0
        from concurrent.futures import ThreadPoolExecutor

        with ThreadPoolExecutor(max_workers=8) as ex:
            for s, a in ex.map(lambda ch: validate(report, ch), chunks):
                nstates += s
                accepted += a
        # end to end: the real server with real asynchronous and synchronous clients over a Unix socket
        e2e = []
        for kind, r in pmap(exec_e2e, make_e2e_scenarios(args.seed, {"quick": 150, "thorough": 3000}[args.tier])):
            if kind == "err":
                report.machinery("rpc end-to-end harness crashed: " + r[:1500])
            else:
                e2e.append(r)
        e2e_states = validate_e2e(report, e2e) if e2e else 0
        e2e_rets = sum(1 for r in e2e for t in r["trace"] if t["ev"] == "ret")
    nreplies = sum(1 for r in results for t in r["trace"] if t["ev"] == "reply")
    faults = sum(1 for r in results if any(t["ev"] == "eof" for t in r["trace"]) or
                 any(k in ("garbage", "oversize", "close") for k in r["sc"]["kinds"]))
    report.coverage.update({
        "states": model_states + nstates, "transitions": sum(len(r["trace"]) for r in results),
        "traces_validated_against_impl": len(results), "traces_accepted": accepted,
        "model_states_exhaustive": model_states, "model_seconds": round(secs, 1),
        "replies_observed": nreplies, "scenarios_with_faults": faults,
        "end_to_end_scenarios": len(e2e), "end_to_end_outcomes_checked": e2e_rets, "end_to_end_states": e2e_states,
        "rule": "model: all behaviours of 3 calls x 9 kinds x unit fragmentations x completion orders x EOF points; implementation: seeded scenarios of the same space executed on the real RPCServerConnection",
    })
    report.sample(results[0]["trace"] if results else "none")
    report.assumptions.extend([
        "the transport is a hand-fed asyncio.StreamReader and a recording writer; kernel-level fragmentation is replaced by controlled cuts at header/body boundaries and inside the body",
        "a call whose connection ends before the reply counts as unanswered (the client raises ConnectionResetError); exactly-one-reply is required of calls whose connection stays alive",
    ])
    if len(e2e) < 50 or e2e_rets < 200:
        report.machinery("vacuous run: too few end-to-end rpc outcomes")
    if len(results) < 200 or nreplies < 200:
        report.machinery("vacuous run: too few rpc executions")
    return report.finish()


if __name__ == "__main__":
    sys.exit(main())
