"""C16: remote calls are answered exactly once and correctly paired.

1. spec/Rpc.tla is model checked exhaustively (3 calls, every kind of call and fault, every
   fragmentation of the stream into header/body units, every completion order).
2. The real `stepup.core.rpc.RPCServerConnection` is driven over a hand-fed StreamReader and a
   recording writer on the idle-hook loop, along seeded scenarios from the same space (byte-level
   cuts, completion orders, EOF/garbage/oversize/close at any point); every recorded execution is
   validated by TLC against spec/TraceRpc.tla (is it a behaviour of Rpc.tla?) with all invariants
   evaluated at every step.  The client-side classification of each reply uses the real
   `_decode_response`.

usage: python -m checks.c16 --tier quick
"""

from __future__ import annotations

import asyncio
import json
import os
import pickle
import random
import re
import sys

sys.path.insert(0, os.path.dirname(os.path.dirname(os.path.abspath(__file__))))

from checks.common import Report, parse_args  # noqa: E402
from harness import tlc  # noqa: E402
from harness.loop import Controller, IdleLoop  # noqa: E402
from harness.runner import Scratch, pmap  # noqa: E402

KINDS = ["ok", "usage", "internal", "intcancel", "unknown", "hidden", "badargs", "garbage", "oversize", "close"]
NCALLS = 3


class Writer:
    def __init__(self):
        self.buf = bytearray()
        self.closed = False
        self.broken = False

    def write(self, data):
        if self.broken:
            raise ConnectionResetError("peer gone")
        self.buf.extend(data)

    async def drain(self):
        if self.broken:
            raise ConnectionResetError("peer gone")

    def close(self):
        self.closed = True

    async def wait_closed(self):
        return None

    def is_closing(self):
        return self.closed

    def get_extra_info(self, *a, **k):
        return None


def run_scenario(sc: dict) -> list[dict]:
    """Drive one scenario on the real server connection; return the recorded trace lines."""
    from stepup.core import rpc
    from stepup.core.exceptions import GraphError, UsageError

    rng = random.Random(sc["seed"])
    kinds, units = sc["kinds"], sc["units"]
    trace = [{"ev": "start", "kinds": kinds, "units": units}]
    events: dict[int, asyncio.Event] = {}

    def make_handler(tr, evs):
        class Handler:
            @rpc.allow_rpc
            async def ok(self, c):
                tr.append({"ev": "entered", "c": c})
                await evs[c].wait()
                return ("value", c)

            @rpc.allow_rpc
            async def usage(self, c):
                tr.append({"ev": "entered", "c": c})
                await evs[c].wait()
                raise GraphError(f"usage error of call {c}")

            @rpc.allow_rpc
            async def internal(self, c):
                tr.append({"ev": "entered", "c": c})
                await evs[c].wait()
                raise RuntimeError(f"internal error of call {c}")

            @rpc.allow_rpc
            async def intcancel(self, c):
                tr.append({"ev": "entered", "c": c})
                await evs[c].wait()
                raise asyncio.CancelledError(f"cancelled inside the director, call {c}")

            async def hidden(self, c):
                tr.append({"ev": "entered", "c": c})
                return "must never run"

        return Handler()

    # a second connection of the same server with one slow call in flight during the whole scenario
    trace2 = [{"ev": "start", "kinds": ["ok", "ok", "ok"], "units": [3, 3, 3]}]
    events2 = {1: asyncio.Event()}

    # wire bytes of every message, cut into units
    pieces: list[bytes] = []
    for c in range(1, NCALLS + 1):
        k = kinds[c - 1]
        if k == "close":
            msg = rpc._encode_message(c, None)
        elif k == "oversize":
            msg = c.to_bytes(8, "big") + (2**33).to_bytes(8, "big")
        else:
            if k == "garbage":
                body = pickle.dumps(["not", "a", "call"])
            elif k == "badargs":
                body = rpc._encode_body(rpc.RPCCall("ok", (1, 2, 3)))
            elif k == "unknown":
                body = rpc._encode_body(rpc.RPCCall("no_such_procedure", (c,)))
            else:
                body = rpc._encode_body(rpc.RPCCall(k, (c,)))
            msg = rpc._encode_message(c, body)
        head, body = msg[:16], msg[16:]
        parts = [head[:8], head[8:]]
        nb = units[c - 1] - 2
        if nb == 1:
            parts.append(body)
        elif nb == 2:
            cut = rng.randrange(1, max(2, len(body)))
            parts += [body[:cut], body[cut:]]
        pieces.extend(parts)
    total = len(pieces)

    loop = IdleLoop()
    ctl = Controller(seed=sc["seed"], policy="fifo")
    loop.on_idle = ctl.on_idle
    asyncio.set_event_loop(loop)

    async def main():
        reader = asyncio.StreamReader()
        writer = Writer()
        for c in range(1, NCALLS + 1):
            events[c] = asyncio.Event()
        conn = rpc.RPCServerConnection(make_handler(trace, events), reader, writer)
        serve = asyncio.ensure_future(conn.serve())
        reader2 = asyncio.StreamReader()
        writer2 = Writer()
        conn2 = rpc.RPCServerConnection(make_handler(trace2, events2), reader2, writer2)
        serve2 = asyncio.ensure_future(conn2.serve())
        msg2 = rpc._encode_message(1, rpc._encode_body(rpc.RPCCall("ok", (1,))))
        reader2.feed_data(msg2)
        trace2.extend([{"ev": "write", "n": 3}, {"ev": "deliver", "n": 3}])
        off2 = [0]

        def collect2():
            buf = bytes(writer2.buf)
            while len(buf) - off2[0] >= 16:
                cid = int.from_bytes(buf[off2[0]:off2[0] + 8], "big")
                size = int.from_bytes(buf[off2[0] + 8:off2[0] + 16], "big")
                if len(buf) - off2[0] - 16 < size:
                    break
                body = buf[off2[0] + 16:off2[0] + 16 + size] if size else None
                off2[0] += 16 + size
                try:
                    rpc._decode_response(body, rpc.RPCCall("x"), server_log_description=None)
                    what = "result"
                except UsageError:
                    what = "usage_error"
                except rpc.RPCError:
                    what = "remote_error" if body is not None else "no_reply"
                except Exception as exc:  # noqa: BLE001
                    what = "other:" + type(exc).__name__
                trace2.append({"ev": "reply", "c": cid, "what": what})
        serve_exc = []
        written = delivered = 0
        eof = False
        parsed_off = 0
        finished: set[int] = set()

        def collect():
            nonlocal parsed_off
            buf = bytes(writer.buf)
            while len(buf) - parsed_off >= 16:
                cid = int.from_bytes(buf[parsed_off:parsed_off + 8], "big")
                size = int.from_bytes(buf[parsed_off + 8:parsed_off + 16], "big")
                if len(buf) - parsed_off - 16 < size:
                    break
                body = buf[parsed_off + 16:parsed_off + 16 + size] if size else None
                parsed_off += 16 + size
                try:
                    rpc._decode_response(body, rpc.RPCCall("x"), server_log_description=None)
                    what = "result"
                except UsageError:
                    what = "usage_error"
                except rpc.RPCError:
                    what = "remote_error" if body is not None else "no_reply"
                except Exception as exc:  # noqa: BLE001
                    what = "other:" + type(exc).__name__
                trace.append({"ev": "reply", "c": cid, "what": what})

        async def settle():
            for _ in range(3):
                await ctl.gate("idle:settle")
            collect()
            collect2()
            if serve.done() and not serve.cancelled() and not any(t["ev"] == "closed" for t in trace):
                if serve.exception() is not None:
                    serve_exc.append(repr(serve.exception())[:200])
                trace.append({"ev": "closed"})

        await settle()
        for _ in range(60):
            if serve.done():
                break
            moves = []
            if written < total and not eof:
                moves.append("write")
            if delivered < written:
                moves += ["deliver", "deliver"]
            running = [t["c"] for t in trace if t["ev"] == "entered" and t["c"] not in finished]
            if running:
                moves += ["finish", "finish"]
            if not eof and rng.random() < sc["p_eof"]:
                moves.append("eof")
            if not moves:
                if not eof and sc.get("eof_at_end"):
                    moves = ["eof"]
                else:
                    break
            mv = rng.choice(moves)
            if mv == "write":
                n = rng.randrange(1, total - written + 1)
                written += n
                trace.append({"ev": "write", "n": n})
            elif mv == "deliver":
                n = rng.randrange(1, written - delivered + 1)
                for p in pieces[delivered:delivered + n]:
                    reader.feed_data(p)
                delivered += n
                trace.append({"ev": "deliver", "n": n})
            elif mv == "finish":
                c = rng.choice(running)
                finished.add(c)
                trace.append({"ev": "finish", "c": c})
                events[c].set()
            elif mv == "eof":
                eof = True
                # everything written is still delivered before the stream ends
                if delivered < written:
                    for p in pieces[delivered:written]:
                        reader.feed_data(p)
                    trace.append({"ev": "deliver", "n": written - delivered})
                    delivered = written
                trace.append({"ev": "eof"})
                reader.feed_eof()
            await settle()
        # let remaining handlers finish so that the connection can close
        for c in [t["c"] for t in trace if t["ev"] == "entered" and t["c"] not in finished]:
            if serve.done():
                break
            finished.add(c)
            trace.append({"ev": "finish", "c": c})
            events[c].set()
            await settle()
        if not serve.done():
            serve.cancel()
            try:
                await serve
            except BaseException:  # noqa: BLE001
                pass
        # the bystander: its call completes now, is answered, then its peer leaves
        if not serve2.done():
            trace2.append({"ev": "finish", "c": 1})
            events2[1].set()
            await settle()
            trace2.append({"ev": "eof"})
            reader2.feed_eof()
            await settle()
        if serve2.done():
            trace2.append({"ev": "closed"})
        else:
            serve2.cancel()
            try:
                await serve2
            except BaseException:  # noqa: BLE001
                pass
        return serve_exc

    try:
        serve_exc = loop.run_until_complete(main())
    finally:
        loop.on_idle = None
        for t in asyncio.all_tasks(loop):
            t.cancel()
        try:
            loop.run_until_complete(asyncio.sleep(0))
        except BaseException:  # noqa: BLE001
            pass
        asyncio.set_event_loop(None)
        loop.close()
    return trace, trace2


def exec_scenario(sc):
    import logging

    logging.disable(logging.CRITICAL)
    t1, t2 = run_scenario(sc)
    return [{"sc": sc, "trace": t1}, {"sc": dict(sc, id=sc["id"] + "/bystander"), "trace": t2}]


def make_scenarios(seed: int, n: int):
    rng = random.Random(seed)
    out = []
    for i in range(n):
        kinds = [rng.choice(KINDS[:7]) if rng.random() < 0.8 else rng.choice(KINDS) for _ in range(NCALLS)]
        units = [2 if k in ("close", "oversize") else rng.choice([3, 4]) for k in kinds]
        out.append({"id": f"s{seed}-{i}", "kinds": kinds, "units": units, "seed": seed * 100003 + i,
                    "p_eof": rng.choice([0.0, 0.0, 0.05, 0.15]), "eof_at_end": rng.random() < 0.5})
    return out


def validate(report, results):
    """Validate recorded traces with TLC; a rejected trace is split off and reported."""
    pending = list(results)
    nstates = 0
    accepted = 0
    while pending:
        lines, index = [], []
        for r in pending:
            index.append((len(lines), r))
            lines.extend(json.dumps(x, separators=(",", ":")) for x in r["trace"])
        work = tlc.scratch_dir("vrpc-")
        tf = os.path.join(work, "trace.ndjson")
        with open(tf, "w") as fh:
            fh.write("\n".join(lines) + "\n")
        rc, out, secs = tlc.run_tlc("TraceRpc.tla", "TraceRpc.cfg", env={"TRACE_FILE": tf}, workers=1, timeout=900)
        import shutil

        shutil.rmtree(work, ignore_errors=True)
        m = re.search(r'"TRACE_PROGRESS", (\d+), (\d+)', out)
        ms = re.search(r"(\d+) distinct states found", out)
        nstates += int(ms.group(1)) if ms else 0
        inv = re.search(r"Invariant (\w+) is violated", out)
        if not m and not inv:
            report.machinery("TLC failed on TraceRpc: " + out[-2500:])
            return nstates, accepted
        reached = int(m.group(1)) if m else 0
        if inv:
            # find the trace in which the invariant failed through the printed value of l
            ml = re.findall(r"/\\ l = (\d+)", out)
            reached = int(ml[-1]) if ml else reached
        if reached >= len(lines) and not inv:
            accepted += len(pending)
            break
        # the trace containing line `reached` (0-based next line) is the offending one
        bad_i = max(i for i, (start, _) in enumerate(index) if start <= reached)
        start, bad = index[bad_i]
        accepted += bad_i
        off = reached - start
        line = bad["trace"][off] if off < len(bad["trace"]) else {"ev": "end"}
        clause = ("invariant_" + inv.group(1)) if inv else "execution_is_not_a_behaviour_of_the_specification"
        if not inv and line.get("ev") == "reply":
            ids = [t["c"] for t in bad["trace"][:off] if t["ev"] == "reply"]
            if line["c"] in ids:
                clause = "call_answered_twice"
            elif line["what"] not in ("result", "usage_error", "remote_error"):
                clause = "reply_of_unknown_shape"
            else:
                clause = "reply_with_wrong_id_or_error_class"
        elif not inv and line.get("ev") == "entered":
            clause = "procedure_entered_that_must_not_run"
        elif not inv and line.get("ev") == "closed":
            clause = "connection_closed_with_handlers_unfinished"
        elif not inv and line.get("ev") == "end":
            clause = "connection_did_not_close"
        report.add_violation(clause, json.dumps(line), {"scenario": bad["sc"], "trace": bad["trace"], "rejected_at": off},
                             tid=bad["sc"]["id"])
        pending = pending[bad_i + 1:]
    return nstates, accepted


def main(argv=None):
    args = parse_args(argv)
    report = Report("C16", args.tier, args.seed)
    n = {"quick": 1500, "thorough": 30000}[args.tier]
    with Scratch():
        rc, out, secs = tlc.run_tlc("Rpc.tla", "Rpc.cfg", workers=16, timeout=1800)
        m = re.search(r"(\d+) states generated, (\d+) distinct states found", out)
        if "Error" in out or not m or "violated" in out:
            report.machinery("Rpc.tla model check failed: " + out[-2500:])
            return report.finish()
        model_states = int(m.group(2))
        scenarios = make_scenarios(args.seed, n)
        results = []
        for kind, r in pmap(exec_scenario, scenarios):
            if kind == "err":
                report.machinery("rpc harness crashed: " + r[:1500])
            else:
                results.extend(r)
        chunks = [results[i:i + 400] for i in range(0, len(results), 400)]
        nstates = accepted = 0
        from concurrent.futures import ThreadPoolExecutor

        with ThreadPoolExecutor(max_workers=8) as ex:
            for s, a in ex.map(lambda ch: validate(report, ch), chunks):
                nstates += s
                accepted += a
    nreplies = sum(1 for r in results for t in r["trace"] if t["ev"] == "reply")
    faults = sum(1 for r in results if any(t["ev"] == "eof" for t in r["trace"]) or
                 any(k in ("garbage", "oversize", "close") for k in r["sc"]["kinds"]))
    report.coverage.update({
        "states": model_states + nstates, "transitions": sum(len(r["trace"]) for r in results),
        "traces_validated_against_impl": len(results), "traces_accepted": accepted,
        "model_states_exhaustive": model_states, "model_seconds": round(secs, 1),
        "replies_observed": nreplies, "scenarios_with_faults": faults,
        "rule": "model: all behaviours of 3 calls x 9 kinds x unit fragmentations x completion orders x EOF points; implementation: seeded scenarios of the same space executed on the real RPCServerConnection",
    })
    report.sample(results[0]["trace"] if results else "none")
    report.assumptions.extend([
        "the transport is a hand-fed asyncio.StreamReader and a recording writer; kernel-level fragmentation is replaced by controlled cuts at header/body boundaries and inside the body",
        "a call whose connection ends before the reply counts as unanswered (the client raises ConnectionResetError); exactly-one-reply is required of calls whose connection stays alive",
    ])
    if len(results) < 200 or nreplies < 200:
        report.machinery("vacuous run: too few rpc executions")
    return report.finish()


if __name__ == "__main__":
    sys.exit(main())
