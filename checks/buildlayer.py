"""Checks decided by trace validation of Layer B executions against TraceCheck.tla:
C09 (well-formedness + transitions at every commit), C10 (dispatch exactness, cache agreement),
C12 (job/resource/hold limits), C15 (request atomicity), C19 (return code and summary),
C03 (inputs final while running), C08 (ownership invariants at every commit).

usage: python -m checks.buildlayer C10 --tier quick
"""

from __future__ import annotations

import os
import sys

sys.path.insert(0, os.path.dirname(os.path.dirname(os.path.abspath(__file__))))

from checks import engine_b  # noqa: E402
from checks.common import Report, parse_args  # noqa: E402
from harness.runner import Scratch  # noqa: E402

HOLD_HEAVY = {
    "subplan": 0.8, "optional": 0.25, "amend": 0.35, "env": 0.2, "vol": 0.15, "resources": 0.3,
    "hold": 0.7, "tree": 0.3, "glob": 0.2, "subdir_out": 0.3, "fail": 0.08, "dyn_out": 0.15,
}
FAIL_HEAVY = {
    "subplan": 0.6, "optional": 0.3, "amend": 0.4, "env": 0.2, "vol": 0.15, "resources": 0.45,
    "hold": 0.3, "tree": 0.3, "glob": 0.3, "subdir_out": 0.3, "fail": 0.3, "dyn_out": 0.15,
}

OPT_HEAVY = {
    "subplan": 0.5, "optional": 0.5, "amend": 0.3, "env": 0.15, "vol": 0.15, "resources": 0.1,
    "hold": 0.2, "tree": 0.3, "glob": 0.2, "subdir_out": 0.4, "fail": 0.03, "dyn_out": 0.15,
    "const_out": 0.1, "late_subplan": 0.1,
}

AMEND_HEAVY = {
    "subplan": 0.6, "optional": 0.15, "amend": 0.7, "env": 0.15, "vol": 0.1, "resources": 0.1,
    "hold": 0.2, "tree": 0.4, "glob": 0.2, "subdir_out": 0.3, "fail": 0.03, "dyn_out": 0.15,
    "const_out": 0.1, "late_subplan": 0.3, "clobber": 0.05,
}

WORKLOADS = {
    # property: (quick sizes, thorough sizes) as dicts
    "C09": {"quick": {"gen": 70, "conflict": 60, "shapes": True}, "thorough": {"gen": 900, "conflict": 900, "shapes": True}},
    "C08": {"quick": {"gen": 30, "conflict": 120, "shapes": True}, "thorough": {"gen": 300, "conflict": 2000, "shapes": True}},
    "C10": {"quick": {"gen": 110, "conflict": 0, "shapes": True, "features": HOLD_HEAVY}, "thorough": {"gen": 1500, "conflict": 200, "shapes": True, "features": HOLD_HEAVY}},
    "C12": {"quick": {"gen": 110, "conflict": 0, "shapes": True, "features": HOLD_HEAVY}, "thorough": {"gen": 1500, "conflict": 0, "shapes": True, "features": HOLD_HEAVY}},
    "C15": {"quick": {"gen": 20, "conflict": 160, "shapes": False}, "thorough": {"gen": 200, "conflict": 3000, "shapes": True}},
    "C19": {"quick": {"gen": 110, "conflict": 40, "shapes": True, "features": FAIL_HEAVY}, "thorough": {"gen": 1500, "conflict": 400, "shapes": True, "features": FAIL_HEAVY}},
    "C06": {"quick": {"gen": 130, "conflict": 0, "shapes": True, "features": None, "nphases": 5, "user_edits": True}, "thorough": {"gen": 1500, "conflict": 0, "shapes": True, "nphases": 6, "user_edits": True}},
    "C07": {"quick": {"gen": 130, "conflict": 0, "shapes": True, "features": None, "nphases": 5, "user_edits": True}, "thorough": {"gen": 1500, "conflict": 0, "shapes": True, "nphases": 6, "user_edits": True}},
    "C11": {"quick": {"gen": 130, "conflict": 0, "shapes": True, "features": OPT_HEAVY, "nphases": 4, "targets": True}, "thorough": {"gen": 1500, "conflict": 0, "shapes": True, "features": OPT_HEAVY, "nphases": 4, "targets": True}},
    "C03": {"quick": {"gen": 160, "conflict": 0, "shapes": True, "features": AMEND_HEAVY, "during": True}, "thorough": {"gen": 2500, "conflict": 0, "shapes": True, "features": AMEND_HEAVY, "during": True}},
}

VACUITY = {
    "C09": {"wellformed": 500, "transition": 500},
    "C08": {"wellformed": 300},
    "C10": {"pop_dispatch": 200, "pop_none": 200, "phase_end": 50},
    "C12": {"cmd_start": 200, "hold": 20},
    "C15": {"rpc_reject": 30, "rpc_ok": 100},
    "C19": {"phase_end": 100},
    "C03": {"cmd_start": 200, "amend": 100, "read": 300, "final_reads_checked": 200, "tainted": 3},
    "C06": {"finalize_end": 100, "removed_files": 20, "write": 200},
    "C07": {"finalize_end": 100, "removed_files": 20, "write": 200},
    "C11": {"finalize_end": 100, "cmd_start": 200, "phase_end": 100},
}

ASSUMPTIONS = [
    "Layer B replaces process launching, hashing threads and the socket by in-process equivalents; "
    "Workflow, Scheduler, Builder, Executor, DirectorHandler, startup, finalize and sqlite are the code of /repo's working tree",
    "simulated step commands are deterministic functions of what they read",
    "verdicts come only from the TLA+ monitors of spec/Props.tla evaluated by TLC on the recorded traces (spec/TraceCheck.tla)",
]


def main(argv=None):
    argv = list(sys.argv[1:] if argv is None else argv)
    pid = argv.pop(0)
    args = parse_args(argv)
    wl = WORKLOADS[pid][args.tier]
    report = Report(pid, args.tier, args.seed)
    report.assumptions.extend(ASSUMPTIONS)
    with Scratch():
        cases = []
        if wl.get("shapes"):
            cases += engine_b.shape_cases(seeds=tuple(args.seed * 100 + i for i in range(8 if args.tier == "quick" else 60)),
                                          cfgs=[{"njob": 2, "resources": "gpu:2"}, {"njob": 3, "resources": "gpu:2", "keep_going": True},
                                                {"njob": 2, "resources": "gpu:1,tpu:1", "keep_going": True}, {"njob": 1}])
        if wl.get("gen"):
            cases += engine_b.gen_cases(args.seed, wl["gen"], features=wl.get("features"),
                                        watch_p=0.0, nphases=wl.get("nphases", 4),
                                        user_edits=wl.get("user_edits", False), targets=wl.get("targets", False),
                                        during=wl.get("during", False))
        if wl.get("conflict"):
            cases += engine_b.conflict_cases(args.seed, wl["conflict"])
        if wl.get("during"):
            cases += engine_b.during_cases(args.seed)
        for c in cases[:3]:
            report.sample({"tid": c["tid"], "phases": [p["edits"] for p in c["phases"]],
                           "plan": c["project"]["scripts"]["./plan.py"]["versions"]})
        out = engine_b.run_and_validate(report, cases)
        engine_b.require_counts(report, **VACUITY.get(pid, {}))
        report.coverage["cases"] = len(cases)
        report.coverage["rule"] = (
            "cases = hand-written shapes + seeded generated projects/histories + conflict-heavy plans; "
            "every commit/dispatch/command start/request end/phase end of every execution is one monitor evaluation"
        )
        if pid == "C08":
            from checks.history import validate_rels
            from checks.pairs import exec_pair, exec_redeclare, exec_rerun, pair_cases, redeclare_cases, rerun_cases
            from harness.runner import pmap
            from harness import tlc as tlcmod

            pcases = pair_cases(args.tier, args.seed)
            rel_lines, replays, ptraces = [], {}, []
            for kind, r in pmap(exec_pair, pcases):
                if kind == "err":
                    report.machinery("pair harness crashed: " + r[:1500])
                    continue
                rel_lines.extend(r["rels"])
                replays[r["tid"]] = r["replay"]
                ptraces.extend(r["traces"])
            for kind, r in pmap(exec_rerun, rerun_cases()) + pmap(exec_redeclare, redeclare_cases()):
                if kind == "err":
                    report.machinery("rerun harness crashed: " + r[:1500])
                    continue
                replays[r["tid"]] = r["replay"]
                ptraces.extend(r["traces"])
            v = validate_rels(report, rel_lines) if rel_lines else None
            if v:
                report.add_verdicts(v["bad"], replays)
                report.coverage["ordered_pairs_checked"] = v["cnt"].get("pair_orders", 0)
                if v["cnt"].get("pair_orders", 0) < 100:
                    report.machinery("vacuous run: too few declaration pairs")
            try:
                tv = tlcmod.validate_traces(tlcmod.pack_batches(ptraces, 6000), parallel=12)
                report.add_verdicts(tv["bad"], {t.split("/")[0]: replays.get(t.split("/")[0]) for t, _ in ptraces})
                report.coverage["traces_validated_against_impl"] += len(ptraces)
                report.coverage["states"] += tv["states"]
            except tlcmod.TLCFailure as exc:
                report.machinery(str(exc)[:2000])
        if pid == "C06":
            # second half of the property: the `stepup clean` tool
            from checks.cleantool import exec_clean_case
            from checks.history import validate_rels
            from harness.runner import pmap

            gen_only = [c for c in cases if c["tid"].startswith("g")]
            ccases = [dict(c, seed=args.seed * 11 + i, nargs=4) for i, c in enumerate(gen_only[: (80 if args.tier == "quick" else 800)])]
            rel_lines, replays = [], {}
            for kind, r in pmap(exec_clean_case, ccases):
                if kind == "err":
                    report.machinery("clean harness crashed: " + r[:1500])
                    continue
                rel_lines.extend(r["rels"])
                replays[r["tid"]] = r["replay"]
            v = validate_rels(report, rel_lines) if rel_lines else None
            if v:
                report.add_verdicts(v["bad"], replays)
                report.coverage["clean_tool_invocations_checked"] = v["cnt"].get("clean_tool", 0)
                if v["cnt"].get("clean_tool", 0) < 100:
                    report.machinery("vacuous run: too few clean tool invocations")
        rcs = {}
        for r in out["results"]:
            for phase_rcs in r["summary"]["rcs"]:
                for rc in phase_rcs:
                    rcs[str(rc)] = rcs.get(str(rc), 0) + 1
        report.coverage["return_codes_seen"] = rcs
        if pid in ("C10", "C11", "C12"):
            # Layer G: incremental maintenance of the cached columns that dispatch rests on
            # (spec/SchedCache.tla) model checked and replayed into the real Workflow + Scheduler
            from checks import schedcache
            sc = schedcache.run(report, args.tier, args.seed, pid)
            report.coverage["schedcache"] = sc
            report.coverage["states"] = report.coverage.get("states", 0) + sc.get("states", 0)
            report.coverage["traces_validated_against_impl"] = report.coverage.get("traces_validated_against_impl", 0) + sc.get("sequences", 0)
            if sc.get("f1_found_by_model") and sc.get("f2_found_by_model"):
                report.notes.append("SchedCache.tla: the pre-fix variants of F1 (MIN over chains) and F2 (edge loss does not flag the producer) fail in the model")
    if pid in ("C06", "C07"):
        # Layer G: what the end-of-build clean-up deletes and removes (spec/Cleanup.tla), model checked over
        # its whole family of configurations and replayed into the real Workflow on a real directory
        with Scratch():
            from checks import cleanup
            cl = cleanup.run(report, args.tier, args.seed, pid)
        report.coverage["cleanup"] = cl
        report.coverage["states"] = report.coverage.get("states", 0) + cl.get("states", 0)
        report.coverage["traces_validated_against_impl"] = report.coverage.get("traces_validated_against_impl", 0) + cl.get("configurations", 0)
        if cl.get("f9_found_by_model"):
            report.notes.append("Cleanup.tla: the strict form of SurvivorsAreHeld fails in the model (a cycle of creator and dependency edges among detached nodes: finding F9)")
    if pid == "C09":
        # Layer G: no sequence of file-system events makes the watcher's bookkeeping inconsistent
        # (spec/WatchSets.tla: Disjoint, DeletedAbsent, UpdatedPresent), which process_nglob_changes relies on
        with Scratch():
            from checks import watchsets
            ws = watchsets.run(report, args.tier, args.seed, pid)
        report.coverage["watchsets"] = ws
        report.coverage["states"] = report.coverage.get("states", 0) + ws.get("states", 0)
    if pid in ("C03", "C10"):
        # Layer G: amended inputs, deferral, wake-up and the defer cap (spec/Defer.tla) model checked
        # and replayed into the real Workflow
        with Scratch():
            from checks import defer
            df = defer.run(report, args.tier, args.seed, pid)
        report.coverage["defer"] = df
        report.coverage["states"] = report.coverage.get("states", 0) + df.get("states", 0)
        report.coverage["traces_validated_against_impl"] = report.coverage.get("traces_validated_against_impl", 0) + df.get("sequences", 0)
    if pid in ("C03", "C19"):
        # Layer B: what a dispatched job does -- validate, skip or execute (spec/Job.tla) -- model checked, and
        # the commits of the real director on a project of the model's shape matched against its actions
        with Scratch():
            from checks import job
            jb = job.run(report, args.tier, args.seed, pid)
        report.coverage["job"] = jb
        report.coverage["states"] = report.coverage.get("states", 0) + jb.get("states", 0) + jb.get("model_states", 0)
        report.coverage["traces_validated_against_impl"] = report.coverage.get("traces_validated_against_impl", 0) + jb.get("histories", 0)
    return report.finish()


if __name__ == "__main__":
    sys.exit(main())
