"""Build-layer engine: run cases on the real director (Layer B) and validate every recorded
execution against the TLA+ monitors (TraceCheck.tla) with TLC."""

from __future__ import annotations

import copy
import random
import os
import sys

sys.path.insert(0, os.path.dirname(os.path.dirname(os.path.abspath(__file__))))

from harness import tlc  # noqa: E402
from harness.projects import SHAPES, Gen, initial_phase  # noqa: E402
from harness.runner import Scratch, pmap, run_history  # noqa: E402


def exec_case(case: dict) -> dict:
    """Worker: run one case; return trace lines and a compact summary."""
    out = run_history(case["project"], case["phases"])
    lines = tlc.export_trace(case["tid"], out["events"], keep=case.get("keep", tlc.TLC_EVENT_KEYS))
    replay = {"tid": case["tid"], "project": case["project"], "phases": copy.deepcopy(case["phases"])}
    gi = 0
    from harness.runner import group_phases

    for group, run in zip(group_phases(replay["phases"]), out["runs"]):
        group[0]["choices"] = run["choices"]
        gi += 1
    summary = {
        "rcs": [r["phase_rcs"] for r in out["runs"]],
        "exc": [r["exc"] for r in out["runs"] if r["exc"]],
        "hang": any(r["hang"] for r in out["runs"]),
        "errors": [e for r in out["runs"] for e in r["errors"]],
        "nevents": len(out["events"]),
    }
    extra = {}
    if case.get("want_finals"):
        extra["finals"] = [r["final_state"] for r in out["runs"]]
        extra["disks"] = [r["disk"] for r in out["runs"]]
    return {"tid": case["tid"], "lines": lines, "replay": replay, "summary": summary, **extra}


def gen_cases(seed: int, n: int, *, nphases=4, watch_p=0.0, features=None, nworkers=5, cfgs=None,
              prefix="g", user_edits=False, targets=False, during=False) -> list[dict]:
    cases = []
    for i in range(n):
        g = Gen(seed * 100003 + i, nworkers=nworkers, features=features)
        proj = g.project()
        hist = g.history(proj, nphases=nphases, watch_p=watch_p, cfgs=cfgs, user_edits=user_edits,
                         targets=targets)
        if during:
            # external modifications of sources while a build is running
            srcs = [p for p, v in proj["sources"].items() if not p.endswith(".py") and len(v) > 1]
            for ph in hist:
                if srcs and g.rng.random() < 0.5:
                    p = g.rng.choice(srcs)
                    ph["during"] = [[g.rng.randrange(3, 70), ["set", p, g.rng.choice(proj["sources"][p])]]]
                    # a third of them as a replacement that keeps size, mode and modification time
                    # (decided by a generator of its own: the main random stream is left as it was)
                    if random.Random(seed * 7919 + i).random() < 0.34:
                        ph["during"][0][1][0] = "swap"
        cases.append({"tid": f"{prefix}{seed}-{i}", "project": proj, "phases": hist})
    return cases


def during_cases(seed: int) -> list[dict]:
    """A source is modified while the first build runs, at every early idle point, with and without keep-going."""
    cases = []
    for name, path in (("chain", "s1.txt"), ("chain", "s2.txt"), ("resources", "s1.txt")):
        proj = SHAPES[name]()
        if path not in proj["sources"] or len(proj["sources"][path]) < 2:
            continue
        for kg in (False, True):
            for k in range(3, 26, 2):
                cfg = {"njob": 2, "resources": "gpu:2,tpu:2", "keep_going": kg}
                ph = initial_phase(proj, cfg=cfg, seed=seed * 31 + k)
                ph["during"] = [[k, ["set" if k % 4 else "swap", path, proj["sources"][path][1]]]]
                cases.append({"tid": f"during-{name}-{path}-{int(kg)}-{k}", "project": proj,
                              "phases": [ph, {"edits": [], "how": "restart", "cfg": cfg, "seed": seed + k}]})
    return cases


def shape_cases(names=None, seeds=(0, 1, 2), cfgs=None, slow_variants=True) -> list[dict]:
    cases = []
    cfgs = cfgs or [{"njob": 2, "resources": "gpu:2"}]

    def history(proj, cfg, s, delay):
        cfg = dict(cfg, **proj.get("cfg", {}))   # what the shape needs (e.g. --no-clean)
        phases = [dict(initial_phase(proj, cfg=cfg, seed=s), delay=delay)]
        # second phase: switch every versioned source to its second version, one at a time
        for path, vers in proj["sources"].items():
            if len(vers) > 1:
                phases.append({"edits": [["set", path, vers[1]]] + proj.get("env_edits", []), "how": "restart",
                               "cfg": cfg, "seed": s + 10, "delay": delay})
            for v in vers[2:]:
                phases.append({"edits": [["set", path, v]], "how": "restart", "cfg": cfg, "seed": s + 15, "delay": delay})
        phases.append({"edits": [], "how": "restart", "cfg": cfg, "seed": s + 20, "delay": delay})
        return phases

    for name, fn in SHAPES.items():
        if names and name not in names:
            continue
        proj = fn()
        for k, s in enumerate(seeds):
            cfg = cfgs[k % len(cfgs)]
            cases.append({"tid": f"shape-{name}-{s}", "project": proj, "phases": history(proj, cfg, s, [])})
        # histories the shape spells out itself: a list of phases after the first build, each a list of edits or
        # {"edits": [...], "cfg": {...}} when the invocation changes too (targets, keep-going, ...)
        for k, hist in enumerate(proj.get("extra_histories", [])):
            cfg = dict(cfgs[k % len(cfgs)], **proj.get("cfg", {}))
            ph0 = initial_phase(proj, cfg=cfg, seed=seeds[0] + k)
            first = hist[0] if hist else []
            ph0["edits"] = list(ph0["edits"]) + list(first["edits"] if isinstance(first, dict) else first)
            phases = [ph0]
            for j, item in enumerate(hist[1:]):
                edits = item["edits"] if isinstance(item, dict) else item
                cfgj = dict(cfg, **item.get("cfg", {})) if isinstance(item, dict) else cfg
                phases.append({"edits": list(edits), "how": "restart", "cfg": cfgj, "seed": seeds[0] + 30 + j})
            cases.append({"tid": f"shape-{name}-x{k}", "project": proj, "phases": phases})
        if slow_variants:
            # "this step is slow" schedules: the operations of one command are released only when
            # nothing else can move (delay-rank schedules)
            labels = [c for c in proj["scripts"]]
            for j, lab in enumerate(labels):
                cfg = dict(cfgs[j % len(cfgs)], njob=3, keep_going=True)
                cases.append({"tid": f"shape-{name}-slow{j}", "project": proj,
                              "phases": history(proj, cfg, seeds[0] + j, [f"op:{lab}:", f"exit:{lab}"])})
    return cases


def run_and_validate(report, cases: list[dict], *, batch_lines=6000, parallel=12, nproc=None) -> dict:
    """Execute cases, validate traces with TLC, feed verdicts into the report."""
    results = pmap(exec_case, cases, nproc=nproc)
    traces = []
    replays = {}
    ok_results = []
    for kind, r in results:
        if kind == "err":
            report.machinery(f"harness crashed on a case: {r[:2000]}")
            continue
        traces.append((r["tid"], r["lines"]))
        replays[r["tid"]] = r["replay"]
        ok_results.append(r)
        if r["summary"]["errors"]:
            report.machinery(f"projection error in {r['tid']}: {r['summary']['errors'][:2]}")
    if not traces:
        report.machinery("no trace was recorded")
        return {"results": ok_results, "verdict": None}
    try:
        verdict = tlc.validate_traces(tlc.pack_batches(traces, batch_lines), parallel=parallel)
    except tlc.TLCFailure as exc:
        report.machinery(str(exc)[:4000])
        return {"results": ok_results, "verdict": None}
    report.add_verdicts(verdict["bad"], replays)
    cov = report.coverage
    cov["states"] = cov.get("states", 0) + verdict["states"]
    cov["transitions"] = cov.get("transitions", 0) + verdict["lines"]
    cov["traces_validated_against_impl"] = cov.get("traces_validated_against_impl", 0) + len(traces)
    cnt = cov.setdefault("monitor_evaluations", {})
    for k, n in verdict["cnt"].items():
        cnt[k] = cnt.get(k, 0) + n
    cov["tlc_seconds"] = round(cov.get("tlc_seconds", 0) + verdict["tlc_s"], 2)
    return {"results": ok_results, "verdict": verdict, "replays": replays}


def require_counts(report, **minimums):
    """Vacuity guard: a monitor that was never evaluated is a machinery failure, not a pass."""
    cnt = report.coverage.get("monitor_evaluations", {})
    for name, minimum in minimums.items():
        if cnt.get(name, 0) < minimum:
            report.machinery(f"vacuous run: monitor counter {name}={cnt.get(name, 0)} < {minimum}")


# ---------------------------------------------------------------------------------------------
# Conflict-heavy workloads (rejected requests at every internal stage, concurrent creators)
# ---------------------------------------------------------------------------------------------

PATHS = ["a.txt", "b.txt", "c.txt", "d/x.txt", "d/y.txt", "D/x.txt", "d_/x.txt", "e/z.txt"]
TREES = ["d/", "D/", "e/"]
PATTERNS = ["*.txt", "d/*.txt", "?.txt", "${*n}.txt", "d/**"]


def random_decl(rng, k: int) -> list:
    kind = rng.choice(["static", "static", "tree", "glob", "step", "step", "step", "step", "amend",
                       "sdecl", "sdecl"])
    if kind == "sdecl":
        return ["sdecl", sorted(rng.sample(TREES, rng.choice([0, 1, 1]))),
                sorted(rng.sample(PATHS, rng.choice([0, 1, 2]))),
                sorted(rng.sample(PATTERNS, rng.choice([0, 1, 2])))]
    if kind == "static":
        return ["static", sorted(rng.sample(PATHS, rng.choice([1, 1, 2])))]
    if kind == "tree":
        return ["tree", [rng.choice(TREES)]]
    if kind == "glob":
        return ["glob", rng.choice(PATTERNS)]
    if kind == "amend":
        kw = {}
        if rng.random() < 0.6:
            kw["inp"] = sorted(rng.sample(PATHS, rng.choice([1, 2])))
        if rng.random() < 0.5:
            kw["out"] = sorted(rng.sample(PATHS, rng.choice([1, 2])))
        if rng.random() < 0.2:
            kw["vol"] = [rng.choice(PATHS)]
        return ["amend", kw or {"inp": [rng.choice(PATHS)]}]
    label = rng.choice(["X1", "X2", "X3"])
    kw = {}
    if rng.random() < 0.7:
        kw["inp"] = sorted(rng.sample(PATHS, rng.choice([1, 1, 2])))
    if rng.random() < 0.8:
        kw["out"] = sorted(rng.sample(PATHS, rng.choice([1, 1, 2, 3])))
    if rng.random() < 0.25:
        kw["vol"] = [rng.choice(PATHS)]
    if rng.random() < 0.2:
        kw["need"] = "OPTIONAL"
    return ["step", label, kw]


def conflict_cases(seed: int, n: int, prefix="k") -> list[dict]:
    import random

    cases = []
    for i in range(n):
        rng = random.Random(seed * 7919 + i)
        nsub = rng.choice([1, 2, 2, 3])
        subs = {}
        for s in range(nsub):
            ops = []
            for k in range(rng.choice([1, 2, 3, 4])):
                # each declaration is attempted; a rejection does not stop the sub-plan, as a
                # plan author catching the error would; this reaches deeper states
                ops.append(["try", random_decl(rng, k)])
            subs[f"./sub{s + 1}.py"] = ops
        exist = sorted(rng.sample(PATHS, rng.choice([2, 3, 4, 5])))
        plan = [["static", [f"sub{s + 1}.py" for s in range(nsub)]]]
        for s in range(nsub):
            plan.append(["step", f"./sub{s + 1}.py", {"inp": [f"sub{s + 1}.py"], "need": "PLAN"}])
        scripts = {"./plan.py": {"on": "plan.py", "versions": {"v1": plan}}}
        scripts.update(subs)
        for x in ("X1", "X2", "X3"):
            scripts[x] = [["read_declared"], ["write_declared"]]
        sources = {"plan.py": ["v1"]}
        for s in range(nsub):
            sources[f"sub{s + 1}.py"] = ["v1"]
        for p in exist:
            sources[p] = ["a"]
        proj = {"name": f"conflict{i}", "sources": sources, "scripts": scripts}
        cfg = {"njob": rng.choice([1, 2, 3]), "keep_going": True, "defer_cap": 3}
        phases = [initial_phase(proj, cfg=cfg, seed=rng.randrange(10**6))]
        if rng.random() < 0.5:
            phases.append({"edits": [], "how": "restart", "cfg": cfg, "seed": rng.randrange(10**6)})
        cases.append({"tid": f"{prefix}{seed}-{i}", "project": proj, "phases": phases})
    return cases
