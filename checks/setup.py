"""Setup: verify the tools the machinery needs are present and the specifications parse."""
import os, subprocess, sys
ROOT = os.path.dirname(os.path.dirname(os.path.abspath(__file__)))
def main():
    ok = True
    for mod in sorted(f for f in os.listdir(os.path.join(ROOT, "spec")) if f.endswith(".tla")):
        r = subprocess.run(["tla-sany", mod], cwd=os.path.join(ROOT, "spec"), capture_output=True, text=True)
        bad = "Fatal" in r.stdout or "*** Errors" in r.stdout or r.returncode != 0
        print(("FAIL " if bad else "ok   ") + mod)
        ok = ok and not bad
    try:
        import stepup.core.director  # noqa: F401
        print("ok   stepup importable from", os.path.dirname(stepup.core.director.__file__))
    except Exception as exc:  # noqa: BLE001
        print("FAIL import stepup:", exc); ok = False
    os.makedirs(os.path.join(ROOT, "evidence"), exist_ok=True)
    return 0 if ok else 1
if __name__ == "__main__":
    sys.exit(main())
