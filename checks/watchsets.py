"""Layer G: what the watcher remembers of a watch phase (spec/WatchSets.tla) replayed into the real
Watcher.record_change.

WatchSets.tla is model checked (Complete, DeletedAbsent, UpdatedPresent, Disjoint; the "cancelling pair"
variant is expected to violate Complete), and event sequences evaluated by TLC are fed item by item
(as AsyncInotifyWrapper.change_loop produces them) to record_change of a real Watcher on a real
Workflow; the `updated` and `deleted` sets are compared after every action.

Library for the check of C14 (`run(report, ...)`); can be run alone.
"""

from __future__ import annotations

import asyncio
import json
import os
import random
import re
import shutil
import sys

sys.path.insert(0, os.path.dirname(os.path.dirname(os.path.abspath(__file__))))

from harness import tlc  # noqa: E402

PATHS = ["a", "d/b", "d/c"]


def random_actions(rng, n):
    acts = []
    for _ in range(n):
        k = rng.random()
        if k < 0.35:
            acts.append({"a": "write", "p": rng.choice(PATHS), "v": rng.choice(["v0", "v1"])})
        elif k < 0.65:
            acts.append({"a": "remove", "p": rng.choice(PATHS)})
        elif k < 0.78:
            acts.append({"a": "mvaway"})
        elif k < 0.86:
            acts.append({"a": "mkdir"})
        else:
            acts.append({"a": "restore", "b": rng.choice(["absent", "v0", "v1"]), "c": rng.choice(["absent", "v0", "v1"])})
    return acts


def scripted():
    return [
        [{"a": "write", "p": "a", "v": "v1"}, {"a": "remove", "p": "a"}],
        [{"a": "remove", "p": "a"}, {"a": "write", "p": "a", "v": "v0"}, {"a": "remove", "p": "a"}, {"a": "write", "p": "a", "v": "v1"}],
        [{"a": "write", "p": "d/b", "v": "v1"}, {"a": "mvaway"}, {"a": "restore", "b": "v0", "c": "v1"}, {"a": "remove", "p": "d/c"}],
        [{"a": "mvaway"}, {"a": "mkdir"}, {"a": "write", "p": "d/b", "v": "v0"}, {"a": "write", "p": "d/c", "v": "v0"}, {"a": "remove", "p": "d/b"}],
        [{"a": "write", "p": "d/c", "v": "v0"}, {"a": "remove", "p": "d/c"}, {"a": "mvaway"}, {"a": "restore", "b": "absent", "c": "absent"}],
    ]


async def execute(acts, enabled):
    from stepup.core.enums import Change, HashUpdateCause, Need
    from stepup.core.hash import FileHash
    from stepup.core.sqlite3 import DBSession
    from stepup.core.step import Step
    from stepup.core.watcher import Watcher
    from stepup.core.workflow import Workflow

    async def reporter(*a, **k):
        return None

    with DBSession.open(":memory:") as db:
        wf = Workflow(db, dir_queue=None)
        await wf.initialize()
        async with db:
            wf.declare_static_files(wf.root, ["plan.py"])
            wf.define_step(wf.root, "PL", inp_paths=["plan.py"], need=Need.PLAN)
            plan = wf.find(Step, "PL")
            wf.declare_static_files(plan, PATHS)
            # a and d/b exist (CONFIRMED), d/c did not exist at the last build (MISSING)
            wf.update_file_hashes({"plan.py": FileHash(b"p" * 32, 0o100644, 1.0, 3, 1), "a": FileHash(b"a" * 32, 0o100644, 1.0, 3, 2),
                                   "d/b": FileHash(b"b" * 32, 0o100644, 1.0, 3, 3), "d/c": FileHash.unknown()}, cause=HashUpdateCause.CONFIRMED)
        watcher = Watcher(workflow=wf, db=db, reporter=reporter, dir_queue=asyncio.Queue(), executor=None, hash_queue=None, njob=1)
        states = []
        for a, en in zip(acts, enabled):
            if en:
                # the items change_loop puts on the queue for this change of the tree
                k = a["a"]
                if k == "write":
                    items = [(Change.UPDATED, a["p"])]
                elif k == "remove":
                    items = [(Change.DELETED, a["p"])]
                elif k == "mvaway":
                    items = [(Change.DELETED, "d/"), (Change.DELETED_PARENT, "d")]
                elif k == "mkdir":
                    items = [(Change.UPDATED, "d/")]
                else:
                    items = [(Change.UPDATED, "d/")] + [(Change.UPDATED, p) for p, v in (("d/b", a["b"]), ("d/c", a["c"])) if v != "absent"]
                try:
                    async with db:
                        for change, path in items:
                            await watcher.record_change(change, path)
                except Exception as exc:  # noqa: BLE001
                    states.append({"error": f"{type(exc).__name__}: {exc}"})
                    break
            states.append({"upd": sorted(str(p) for p in watcher.updated), "del": sorted(str(p) for p in watcher.deleted)})
    return states


def run(report, tier: str, seed: int, prop: str) -> dict:
    stats = {"states": 0, "sequences": 0, "actions": 0}
    rc, out, secs = tlc.run_tlc("WatchSets.tla", "WatchSetsModel.cfg", workers=4, timeout=900)
    m = re.search(r"(\d+) states generated, (\d+) distinct states found", out)
    if "No error has been found" not in out:
        inv = re.search(r"Invariant (\w+) is violated", out)
        if inv:
            report.add_violation("watchsets_model_" + inv.group(1), "spec/WatchSets.tla", {"tlc_tail": out[-3000:]}, tid="watchsets-model")
        else:
            report.machinery("WatchSets.tla model check did not complete:\n" + out[-2000:])
    stats["states"] += int(m.group(2)) if m else 0
    rc, out, secs = tlc.run_tlc("WatchSets.tla", "WatchSetsModelMut.cfg", workers=4, timeout=900)
    stats["cancelling_pair_variant_found_by_model"] = "Invariant Complete is violated" in out
    if not stats["cancelling_pair_variant_found_by_model"]:
        report.machinery("WatchSets.tla WatchSetsModelMut.cfg: the variant was not found (the model lost its teeth):\n" + out[-1500:])
    rng = random.Random(seed * 67 + 9)
    cases = scripted()
    for _ in range({"quick": 300, "thorough": 5000}[tier]):
        cases.append(random_actions(rng, rng.choice([4, 8, 14, 20])))
    lines = [{"id": i, "acts": acts} for i, acts in enumerate(cases)]
    work = tlc.scratch_dir("vws-")
    vectors = []
    try:
        for b0 in range(0, len(lines), 500):
            tf, vf = os.path.join(work, f"in{b0}.ndjson"), os.path.join(work, f"out{b0}.json")
            with open(tf, "w") as fh:
                for line in lines[b0:b0 + 500]:
                    fh.write(json.dumps(line, separators=(",", ":")) + "\n")
            rc_, o, s_ = tlc.run_tlc("WatchSets.tla", "WatchSets.cfg", env={"TRACE_FILE": tf, "VERDICT_FILE": vf}, workers=1, timeout=3000)
            if not os.path.exists(vf) or "Error:" in o:
                report.machinery(f"WatchSets replay batch {b0 // 500} failed:\n{o[-3000:]}")
                return stats
            with open(vf) as fh:
                vectors.extend(json.load(fh)["vectors"])
            mm = re.search(r"(\d+) states generated, (\d+) distinct states found", o)
            stats["states"] += int(mm.group(2)) if mm else 0
    finally:
        shutil.rmtree(work, ignore_errors=True)
    res = {"vectors": vectors}
    expected = {v["id"]: (v["states"] if isinstance(v["states"], list) else []) for v in res["vectors"]}
    nbad = 0
    for i, acts in enumerate(cases):
        exp = expected[i]
        enabled = [bool(e["enabled"]) for e in exp]
        got = asyncio.run(execute(acts, enabled))
        stats["sequences"] += 1
        stats["actions"] += sum(enabled)
        for k, (e, gst) in enumerate(zip(exp, got)):
            st = e["st"]
            want = {"upd": sorted(p for p in PATHS if st["upd"][p]), "del": sorted(p for p in PATHS if st["del"][p])}
            clause = None
            if "error" in gst:
                clause = "record_change_raised"
            else:
                # the property itself, on the code's sets and the model's disk: every path that differs from
                # what was recorded must be in one of the sets
                disk = st["disk"]
                recd = {"a": "v0", "d/b": "v0", "d/c": "absent"}
                lost = [p for p in PATHS if disk[p] != recd[p] and p not in gst["upd"] and p not in gst["del"]]
                if set(gst["upd"]) & set(gst["del"]):
                    # (process_nglob_changes refuses overlapping sets with a ConsistencyError)
                    clause = "path_recorded_as_updated_and_as_deleted"
                elif lost:
                    clause = "changed_path_in_neither_set"
                elif gst != want:
                    clause = "watcher_sets_differ_from_specification"
            if clause:
                nbad += 1
                if nbad <= 8:
                    report.add_violation(clause, json.dumps({"action": acts[k], "index": k, "code": gst, "spec": want,
                                                             "prefix": [a for a, en in zip(acts[:k], enabled[:k]) if en][-10:]}, sort_keys=True)[:1500],
                                         {"acts": acts, "enabled": enabled}, tid=f"wsets{i}")
                break
    return stats


if __name__ == "__main__":
    from checks.common import Report, parse_args
    from harness.runner import Scratch

    a = parse_args()
    rep = Report("C14", a.tier, a.seed)
    with Scratch():
        print(run(rep, a.tier, a.seed, "C14"))
    for v in rep.violations[:6]:
        print(v["clause"], v["subj"][:1500])
        print()
    for mm in rep.machinery_errors:
        print("MACHINERY", mm[:2000])
