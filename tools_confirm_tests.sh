#!/bin/bash
# usage: tools_confirm_tests.sh <worktree> <k> <seeded-id> : run the pinned suite with the seeded change applied in its scratch worktree
wt="$1"; k="$2"; id="$3"; out=/verif/seeded/$id
cd "$wt" || exit 2
git checkout -q -- stepup; git apply "$out/patch.diff" || exit 2
PYTHONPATH=$wt timeout 1500 /venv/bin/python -m pytest -q -p no:cacheprovider --timeout=900 --continue-on-collection-errors --junitxml=/tmp/junit_$id.xml >/dev/null 2>&1
python3 - <<PY
import json, subprocess, xml.etree.ElementTree as ET
b=json.load(open('/root/.vp/BASELINE.json')); stable=set(b['stable_pass'])
def load(f):
    res={}
    for tc in ET.parse(f).getroot().iter('testcase'):
        res[f"{tc.get('classname')}::{tc.get('name')}"]= not any(ch.tag in('failure','error','skipped') for ch in tc)
    return res
res=load('/tmp/junit_$id.xml')
failing=sorted(n for n in stable if not res.get(n, False))
still=[]
if failing:
    ids=[n.split('::')[0].replace('.','/')+'.py::'+n.split('::',1)[1] for n in failing]
    subprocess.run(['/venv/bin/python','-m','pytest','-q','-p','no:cacheprovider','--timeout=900','-n','2','--junitxml=/tmp/junit2_$id.xml']+ids, cwd='$wt', env=dict(__import__('os').environ, PYTHONPATH='$wt'), capture_output=True)
    res2=load('/tmp/junit2_$id.xml')
    still=sorted(n for n in failing if not res2.get(n, False))
m=json.load(open('$out/meta.json'))
m['stable_baseline_tests_failing_with_change']=still
m['flaky_on_first_run']=sorted(set(failing)-set(still))
m['tests_cmd']='cd <worktree with patch applied> && PYTHONPATH=<worktree> /venv/bin/python -m pytest -q -p no:cacheprovider --timeout=900 --continue-on-collection-errors (failing stable tests rerun once)'
json.dump(m,open('$out/meta.json','w'),indent=1)
print('$id', 'stable failing after rerun:', still, 'flaky:', m['flaky_on_first_run'])
PY
git checkout -q -- stepup
