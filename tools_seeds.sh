#!/bin/bash
# usage: tools_seeds.sh "<seeds>" [<Cxx> ...] : run quick checks under several seeds, list anything that is not a clean pass
seeds="$1"; shift
props="${@:-C01 C02 C03 C04 C05 C06 C07 C08 C09 C10 C11 C12 C13 C14 C15 C16 C17 C18 C19 C20}"
cd /verif
for s in $seeds; do for p in $props; do
  t0=$(date +%s)
  out=$(VERIF_SEED=$s timeout 1800 ./verif check $p --tier quick 2>&1); rc=$?
  echo "seed=$s $p rc=$rc $(( $(date +%s)-t0 ))s viol=$(echo "$out" | grep -c VIOLATION) mach=$(echo "$out" | grep -c MACHINERY)"
  [ $rc -ne 0 ] && echo "$out" | grep -E "VIOLATION|MACHINERY" | cut -c1-300 | head -5
done; done
