#!/bin/bash
# usage: tools_repo_tests.sh : run the pinned suite on /repo's working tree (guard off) and list stable baseline tests that fail
cd /repo || exit 2
PATH=/venv/bin:$PATH timeout 3000 /venv/bin/python -m pytest -q -p no:cacheprovider --timeout=900 --continue-on-collection-errors --junitxml=/tmp/junit_repo.xml >/dev/null 2>&1
python3 - <<'PY'
import json, subprocess, os, xml.etree.ElementTree as ET
b=json.load(open('/root/.vp/BASELINE.json')); stable=set(b['stable_pass'])
def load(f):
    res={}
    for tc in ET.parse(f).getroot().iter('testcase'):
        res[f"{tc.get('classname')}::{tc.get('name')}"]= not any(ch.tag in('failure','error','skipped') for ch in tc)
    return res
res=load('/tmp/junit_repo.xml')
failing=sorted(n for n in stable if not res.get(n, False))
still=[]
if failing:
    ids=[n.split('::')[0].replace('.','/')+'.py::'+n.split('::',1)[1] for n in failing]
    subprocess.run(['/venv/bin/python','-m','pytest','-q','-p','no:cacheprovider','--timeout=900','--junitxml=/tmp/junit_repo2.xml']+ids, cwd='/repo', env=dict(os.environ, PATH='/venv/bin:'+os.environ['PATH']), capture_output=True)
    res2=load('/tmp/junit_repo2.xml')
    still=sorted(n for n in failing if not res2.get(n, False))
print('stable tests:', len(stable), 'passing first run:', len(stable)-len(failing), 'failing after rerun:', still, 'flaky:', sorted(set(failing)-set(still)))
PY
