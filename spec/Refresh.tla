------------------------------- MODULE Refresh -------------------------------
(***************************************************************************)
(* C13 (second half): a file whose content, size or mode changed is        *)
(* reported as changed whenever its modification time, size, inode or mode *)
(* differs from the recorded ones.                                         *)
(*                                                                         *)
(* Refreshed(rec, disk) is the specification of FileHash.refreshed: rec is *)
(* the recorded hash (known or unknown), disk what stat and the content    *)
(* say now.  Digests, modification times and inodes are abstract           *)
(* identifiers (only equality matters).  Model mode checks the two         *)
(* soundness statements on every pair (rec, disk) of a small domain;       *)
(* trace mode (IOEnv.TRACE_FILE) evaluates recorded calls of the real      *)
(* method on real files: line = [rec, disk, got] where got is what the     *)
(* call returned.                                                          *)
(***************************************************************************)
EXTENDS Naturals, Sequences, FiniteSets, TLC, Json, IOUtils

UnknownHash == [known |-> FALSE, digest |-> 0, mode |-> 0, mtime |-> 0, size |-> 0, inode |-> 0]
StatSame(r, d) == r.mode = d.mode /\ r.mtime = d.mtime /\ r.size = d.size /\ r.inode = d.inode
Refreshed(r, d) ==
  IF ~d.present THEN (IF r.known THEN UnknownHash ELSE r)
  ELSE IF r.known /\ StatSame(r, d) THEN r      \* the digest is not recomputed
  ELSE [known |-> TRUE, digest |-> d.digest, mode |-> d.mode, mtime |-> d.mtime, size |-> d.size, inode |-> d.inode]
\* FileHash equality: digest, mode and size (not mtime, not inode)
SameHash(a, b) == a.known = b.known /\ (a.known => a.digest = b.digest /\ a.mode = b.mode /\ a.size = b.size)

RealChange(r, d) == ~d.present \/ d.digest # r.digest \/ d.size # r.size \/ d.mode # r.mode
StatDiffers(r, d) == ~d.present \/ ~StatSame(r, d)

(* model mode *)
Vals == 1..2
Recs == {UnknownHash} \cup [known : {TRUE}, digest : Vals, mode : Vals, mtime : Vals, size : Vals, inode : Vals]
Disks == {[present |-> FALSE, digest |-> 0, mode |-> 0, mtime |-> 0, size |-> 0, inode |-> 0]}
         \cup [present : {TRUE}, digest : Vals, mode : Vals, mtime : Vals, size : Vals, inode : Vals]
\* a change that the stat signature reveals is reported
DetectsChange == \A r \in Recs : \A d \in Disks :
   (r.known /\ RealChange(r, d) /\ StatDiffers(r, d)) => ~SameHash(Refreshed(r, d), r)
\* nothing is reported when content, size and mode are what was recorded
NoFalseChange == \A r \in Recs : \A d \in Disks :
   (r.known /\ d.present /\ ~RealChange(r, d)) => SameHash(Refreshed(r, d), r)
\* the blind spot the statement allows: same stat signature, other content
BlindSpotOnlyWhenStatSame == \A r \in Recs : \A d \in Disks :
   (r.known /\ d.present /\ RealChange(r, d) /\ SameHash(Refreshed(r, d), r)) => StatSame(r, d)
ASSUME DetectsChange /\ NoFalseChange /\ BlindSpotOnlyWhenStatSame

(* trace mode *)
Lines == ndJsonDeserialize(IOEnv.TRACE_FILE)
NL == Len(Lines)
Check(e) ==
  LET want == Refreshed(e.rec, e.disk)
      got == e.got
  IN (IF got.known # want.known THEN {"known_flag"} ELSE {})
     \* (mtime and inode of the result are bookkeeping, not part of what the property states)
     \cup (IF want.known /\ got.known /\ StatDiffers(e.rec, e.disk)
              /\ (got.digest # want.digest \/ got.mode # want.mode \/ got.size # want.size)
           THEN {"fields"} ELSE {})
     \cup (IF e.rec.known /\ RealChange(e.rec, e.disk) /\ StatDiffers(e.rec, e.disk) /\ SameHash(got, e.rec)
           THEN {"change_not_reported"} ELSE {})
     \cup (IF e.rec.known /\ e.disk.present /\ ~RealChange(e.rec, e.disk) /\ ~SameHash(got, e.rec)
           THEN {"false_change_reported"} ELSE {})
VARIABLES l, bad
vars == <<l, bad>>
Init == l = 0 /\ bad = <<>>
Next ==
  /\ l < NL
  /\ l' = l + 1
  /\ bad' = bad \o (LET cs == Check(Lines[l + 1]) IN
                    IF cs = {} THEN <<>> ELSE <<[id |-> Lines[l + 1].id, clauses |-> cs]>>)
  /\ (l' = NL) => JsonSerialize(IOEnv.VERDICT_FILE, [bad |-> bad', n |-> NL])
Spec == Init /\ [][Next]_vars
Consumed == TLCGet("stats").diameter - 1 = NL
=============================================================================
