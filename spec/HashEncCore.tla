----------------------------- MODULE HashEncCore -----------------------------
(***************************************************************************)
(* The byte stream that hash.py feeds to SHA-256, on byte sequences.       *)
(* Shared by HashEnc.tla (model mode: injectivity on an adversarial        *)
(* domain) and HashVec.tla (vector mode: streams of concrete               *)
(* configurations, compared with what the real code feeds to the hash).    *)
(***************************************************************************)
EXTENDS Naturals, Sequences, FiniteSets

\* words: every word is preceded by a marker for its type
WStr(bs) == <<0, 1>> \o bs          \* str, UTF-8 encoded
WBytes(bs) == <<0, 0>> \o bs        \* bytes
WNone == <<0, 2>>                   \* None

RECURSIVE Cat(_)
Cat(ss) == IF ss = <<>> THEN <<>> ELSE Head(ss) \o Cat(Tail(ss))

\* lexicographic order on byte sequences (Python: sorted() on str == order of the UTF-8 bytes)
RECURSIVE LexLess(_, _)
LexLess(a, b) ==
  IF a = <<>> THEN b # <<>>
  ELSE IF b = <<>> THEN FALSE
  ELSE IF Head(a) # Head(b) THEN Head(a) < Head(b)
  ELSE LexLess(Tail(a), Tail(b))
\* the entries (tuples whose first element is the key) in ascending key order
RECURSIVE SortByKey(_)
SortByKey(E) ==
  IF E = {} THEN <<>>
  ELSE LET m == CHOOSE x \in E : \A y \in E \ {x} : LexLess(x[1], y[1])
       IN <<m>> \o SortByKey(E \ {m})

\* file entries: <<path, mode, size, digest>>, all byte sequences
FilesStream(E) ==
  LET es == SortByKey(E)
  IN Cat([i \in DOMAIN es |-> WStr(es[i][1]) \o WBytes(es[i][2]) \o WBytes(es[i][3]) \o WBytes(es[i][4])])
\* name/value entries: <<name, defined, value>>; an undefined value is the word None
PairsStream(E) ==
  LET es == SortByKey(E)
  IN Cat([i \in DOMAIN es |-> WStr(es[i][1]) \o (IF es[i][2] THEN WStr(es[i][3]) ELSE WNone)])

KwShellB == <<95, 95, 115, 104, 101, 108, 108, 95, 95>>
KwInpB == <<95, 95, 105, 110, 112, 95, 112, 97, 116, 104, 115, 95, 95>>
KwEnvB == <<95, 95, 101, 110, 118, 95, 118, 97, 114, 115, 95, 95>>
KwOvrB == <<95, 95, 101, 110, 118, 95, 111, 118, 101, 114, 114, 105, 100, 101, 115, 95, 95>>

InpStreamB(label, shell, files, env, ovr) ==
  WStr(label) \o WStr(KwShellB) \o WBytes(<<IF shell THEN 1 ELSE 0>>) \o WStr(KwInpB) \o FilesStream(files)
  \o WStr(KwEnvB) \o PairsStream(env) \o WStr(KwOvrB) \o PairsStream(ovr)
OutStreamB(files) == FilesStream(files)
=============================================================================
