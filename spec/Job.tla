--------------------------------- MODULE Job ---------------------------------
(***************************************************************************)
(* What a dispatched job does: validate, skip or execute.                   *)
(*                                                                         *)
(* A step S has an initial input i, an input d that it discovers while it   *)
(* runs (amend), an environment variable E and an output o whose content is *)
(* a function of what the command read: Gen(i, d, E).  StepUp stores, next  *)
(* to the file rows, a step hash (digest of the inputs and of E; digest of  *)
(* the outputs) and decides with it whether S can be skipped.  The actions  *)
(* are the transactions of Scheduler / Executor / Step:                     *)
(*   Dispatch        Scheduler.pop_next_job + _derive_job: PENDING ->       *)
(*                   CHECKING (a hash is stored) or RUNNING; the job takes  *)
(*                   a snapshot of the recorded input hashes; it is a       *)
(*                   validate job when a hash is stored and the dynamic     *)
(*                   input is not available                                 *)
(*   NewRun*         Executor._new_run: the inputs on disk are compared     *)
(*                   with the snapshot; a difference is recorded (FAILED    *)
(*                   cause), the step fails and the scheduler is drained    *)
(*   Validate*       validate_dynamic_job: same input digest -> PENDING     *)
(*                   with everything kept; else the dynamic information     *)
(*                   and the hash are dropped (reset_for_rerun, delete_hash)*)
(*   Skip*           try_skip_job: input digest, then output digest (from   *)
(*                   disk); both equal -> SUCCEEDED without running         *)
(*   ExecReset, ExecAmend, ExecWrite, ExecComplete                          *)
(*                   execute_job: reset_for_rerun, the command (amend d,    *)
(*                   read, write o), then re-hash of inputs and outputs,    *)
(*                   _classify_execution and Step.mark_completed            *)
(* and those of the surroundings:                                           *)
(*   Edit*           somebody changes i, d or o on disk (fresh content      *)
(*                   every time: a change that is undone before StepUp      *)
(*                   looks again cannot be seen by hashes, see DESIGN)      *)
(*   Refresh(f)      a hash job / the watcher records the disk state of f   *)
(*                   (EXTERNAL or CONFIRMED cause of _HASH_TRANSITIONS)     *)
(*   ProcStart, FailedPending, EnvRescan, PhaseStart                        *)
(*                   start of a director, of a watch-mode rebuild           *)
(* In model mode the surroundings act between builds (NewBuild composes     *)
(* them as startup.py / Watcher.run_once do) and edits may come any time.   *)
(*                                                                         *)
(* Properties: Sound (a step that is SUCCEEDED after StepUp looked at the   *)
(* tree has the output a fresh run would write), HashOnlyWhenChecked,       *)
(* BuiltIsRecorded, NeverRaises (update_file_hashes meets no combination    *)
(* outside its table), CapRespected and, under weak fairness with a bounded *)
(* environment, Settles (no endless CHECKING / RUNNING cycle).              *)
(* Variants (constants) that TLC is expected to refute: CheckOut = FALSE    *)
(* (skip without comparing the outputs -> Sound), DropHash = FALSE (a       *)
(* refused skip keeps the hash -> Settles).                                 *)
(* Trace mode: the commits of the real director on a project of this shape  *)
(* are matched against the actions (checks/job.py).                         *)
(***************************************************************************)
EXTENDS Naturals, Sequences, FiniteSets, TLC, Json, IOUtils

CONSTANTS MaxV,        \* contents 1..MaxV (0: absent)
          MaxB,        \* number of NewBuild steps (model mode)
          Cap,         \* defer cap
          Envs,        \* values of E
          CheckOut,    \* FALSE: try_skip_job does not compare the output digest
          DropHash     \* FALSE: a refused skip keeps the stored hash

Abs == [k |-> "abs", i |-> 0, d |-> 0, e |-> 0]
Gen(iv, dv, ev) == [k |-> "gen", i |-> iv, d |-> dv, e |-> ev]
Usr(n) == [k |-> "usr", i |-> n, d |-> 0, e |-> 0]
NoHash == [has |-> FALSE, i |-> 0, d |-> 0, e |-> 0, out |-> Abs]
NoJob == [k |-> "none", ph |-> "none", si |-> 0, sd |-> 0, hi |-> 0, hd |-> 0, ho |-> Abs, ri |-> 0, rd |-> 0, wants |-> FALSE, ok |-> FALSE]
Static(v) == [st |-> IF v = 0 THEN "MISSING" ELSE "CONFIRMED", h |-> v]

G0(iv, dv, ev) ==
  [di |-> iv, dd |-> dv, do |-> Abs, env |-> ev, envRec |-> ev,
   fi |-> Static(iv), fd |-> Static(dv), fo |-> [st |-> "PLANNED", h |-> Abs],
   st |-> "PENDING", def |-> FALSE, cnt |-> 0, dyn |-> FALSE, hash |-> NoHash, job |-> NoJob,
   drain |-> FALSE, raised |-> FALSE,
   su |-> {}]       \* (trace mode) files whose latest edit was made while a director was starting up

InFlight(g) == g.job.k # "none"

\* Workflow.mark_step_pending: ignored for RUNNING and CHECKING; outdates the BUILT output
MarkPending(g) ==
  IF g.st \in {"RUNNING", "CHECKING"} THEN g
  ELSE [g EXCEPT !.st = "PENDING", !.def = FALSE,
                 !.fo = IF g.st \in {"SUCCEEDED", "FAILED"} /\ g.fo.st = "BUILT" THEN [@ EXCEPT !.st = "OUTDATED"] ELSE @]
Consumes(g, f) == f = "i" \/ (f = "d" /\ g.dyn)
Disk(g, f) == IF f = "i" THEN g.di ELSE g.dd
Row(g, f) == IF f = "i" THEN g.fi ELSE g.fd
SetRow(g, f, r) == IF f = "i" THEN [g EXCEPT !.fi = r] ELSE [g EXCEPT !.fd = r]

\* update_file_hashes on a static file with the computed hash v: cause EXTERNAL / CONFIRMED / FAILED
\* (_HASH_TRANSITIONS)
UpdStatic(g, f, cause, v) ==
  LET r == Row(g, f)
      okState == CASE cause = "EXTERNAL" -> r.st \in {"MISSING", "CONFIRMED", "UNCONFIRMED"} /\ ~(r.st = "MISSING" /\ v = 0)
                   [] cause = "CONFIRMED" -> r.st \in {"UNCONFIRMED", "CONFIRMED", "MISSING"}
                   [] cause = "FAILED" -> r.st = "CONFIRMED"
      \* the racing duplicates of the CONFIRMED cause change nothing for the consumers
      acts == ~(cause = "CONFIRMED" /\ r.st = Static(v).st /\ r.st # "UNCONFIRMED")
      g1 == SetRow(g, f, Static(v))
  IN IF ~okState THEN [g EXCEPT !.raised = TRUE]
     ELSE IF acts /\ Consumes(g, f) THEN MarkPending(g1) ELSE g1

\* update_file_hashes on the output with the computed hash c (stored with every state but PLANNED)
UpdOut(g, cause, c) ==
  LET known == c # Abs
      new == CASE cause = "EXTERNAL" -> IF g.fo.st \in {"BUILT", "OUTDATED"} THEN "PLANNED" ELSE "raise"
               [] cause = "SUCCEEDED" -> IF g.fo.st \in {"OUTDATED", "PLANNED"} /\ known THEN "BUILT" ELSE "raise"
               [] cause = "FAILED" -> IF known THEN "OUTDATED" ELSE "PLANNED"
      g1 == [g EXCEPT !.fo = [st |-> new, h |-> IF new = "PLANNED" THEN Abs ELSE c]]
  IN IF new = "raise" THEN [g EXCEPT !.raised = TRUE]
     ELSE IF cause = "EXTERNAL" THEN MarkPending(g1)      \* handle_updated / handle_deleted_file: the creator
     ELSE g1

(* ------------------------------- the job -------------------------------- *)
Ready(g) == g.fi.st = "CONFIRMED"        \* a static dynamic input never blocks (UNAVAILABLE_INPUT_WHERE)
DispatchEn(g) == ~InFlight(g) /\ g.st = "PENDING" /\ ~g.def /\ ~g.drain /\ Ready(g)
DoDispatch(g) ==
  LET dynReady == ~g.dyn \/ g.fd.st = "CONFIRMED"
      kind == IF ~g.hash.has THEN "exec" ELSE IF dynReady THEN "skip" ELSE "validate"
  IN [g EXCEPT !.st = IF g.hash.has THEN "CHECKING" ELSE "RUNNING",
               !.job = [NoJob EXCEPT !.k = kind, !.ph = "new", !.si = g.fi.h,
                                     !.sd = IF g.dyn /\ g.fd.st = "CONFIRMED" THEN g.fd.h ELSE 0]]

\* the three places where a job reads the disk (compute_inp_hashes, compute_out_hashes,
\* compute_both_hashes in a work thread); what it decides afterwards rests on these values
HashEn(g) == g.job.ph \in {"new", "inpok", "ran"}
DoHash(g) == CASE g.job.ph = "new" -> [g EXCEPT !.job.ph = "hashed", !.job.hi = g.di, !.job.hd = g.dd]
               [] g.job.ph = "inpok" -> [g EXCEPT !.job.ph = "outhashed", !.job.ho = g.do]
               [] g.job.ph = "ran" -> [g EXCEPT !.job.ph = "rehashed", !.job.hi = g.di, !.job.hd = g.dd, !.job.ho = g.do]

\* reset_for_rerun (+ delete_hash + PENDING: _reset_step_to_pending)
Reset(g) == [g EXCEPT !.dyn = FALSE, !.fo = IF @.st = "BUILT" THEN [@ EXCEPT !.st = "OUTDATED"] ELSE @]
ResetToPending(g) == [Reset(g) EXCEPT !.hash = IF DropHash THEN NoHash ELSE @, !.st = "PENDING", !.def = FALSE, !.job = NoJob]

\* Step.mark_completed(None, wants)
CompleteFailed(g, wants) ==
  LET g1 == [g EXCEPT !.fo = IF @.st = "BUILT" THEN [@ EXCEPT !.st = "OUTDATED"] ELSE @, !.hash = NoHash, !.job = NoJob]
  IN IF wants
     THEN IF g.cnt + 1 <= Cap
          THEN [g1 EXCEPT !.cnt = @ + 1, !.st = "PENDING", !.def = (g.dyn /\ g.fd.st # "CONFIRMED")]
          ELSE [g1 EXCEPT !.cnt = @ + 1, !.st = "FAILED", !.def = FALSE]
     ELSE [g1 EXCEPT !.st = "FAILED", !.def = FALSE]
\* Step.mark_completed(new_hash, False)
CompleteOk(g, h) ==
  [g EXCEPT !.st = "SUCCEEDED", !.def = FALSE, !.cnt = 0, !.hash = h, !.job = NoJob,
            !.fo = IF @.st = "OUTDATED" THEN [@ EXCEPT !.st = "BUILT"] ELSE @]

NewChangedI(g) == g.job.hi # g.job.si
NewChangedD(g) == g.job.sd # 0 /\ g.job.hd # g.job.sd
NewRunOkEn(g) == g.job.ph = "hashed" /\ ~NewChangedI(g) /\ ~NewChangedD(g)
DoNewRunOk(g) == [g EXCEPT !.job.ph = "ok"]
NewRunRefreshEn(g) == g.job.ph = "hashed" /\ (NewChangedI(g) \/ NewChangedD(g))
DoNewRunRefresh(g) ==
  LET g1 == IF NewChangedI(g) THEN UpdStatic(g, "i", "FAILED", g.job.hi) ELSE g
      g2 == IF NewChangedD(g) THEN UpdStatic(g1, "d", "FAILED", g.job.hd) ELSE g1
  IN [g2 EXCEPT !.job.ph = "fail"]
NewRunFailEn(g) == g.job.ph = "fail"
DoNewRunFail(g) == [CompleteFailed(g, FALSE) EXCEPT !.drain = TRUE]

SameInp(g) == g.hash.i = g.job.si /\ g.hash.d = g.job.sd /\ g.hash.e = g.env
ValidateEn(g) == g.job.k = "validate" /\ g.job.ph = "ok"
DoValidate(g) == IF SameInp(g) THEN [g EXCEPT !.st = "PENDING", !.def = FALSE, !.job = NoJob] ELSE ResetToPending(g)

SkipInpEn(g) == g.job.k = "skip" /\ g.job.ph = "ok"
DoSkipInp(g) == IF SameInp(g) THEN [g EXCEPT !.job.ph = "inpok"] ELSE ResetToPending(g)
SkipOutEn(g) == g.job.ph = "outhashed"
DoSkipOut(g) ==
  IF CheckOut /\ g.hash.out # g.job.ho THEN ResetToPending(g)
  ELSE LET g1 == IF g.job.ho # g.fo.h THEN UpdOut(g, "SUCCEEDED", g.job.ho) ELSE g
       IN CompleteOk(g1, [g.hash EXCEPT !.out = g.job.ho])

ExecResetEn(g) == g.job.k = "exec" /\ g.job.ph = "ok"
DoExecReset(g) == [Reset(g) EXCEPT !.job.ph = "reset"]
\* the command: amend(d), then read d and i, getenv E, write o.  An UNCONFIRMED file is hashed at once
\* (a promoted hash job: Refresh(d) with cause CONFIRMED) before the answer is given
ExecAmendEn(g) == g.job.ph = "reset"
DoExecAmend(g) ==
  IF g.fd.st = "UNCONFIRMED" THEN [g EXCEPT !.dyn = TRUE, !.job.ph = "confirming"]
  ELSE [g EXCEPT !.dyn = TRUE, !.job.ph = "amended", !.job.wants = (g.fd.st # "CONFIRMED")]
ExecConfirmedEn(g) == g.job.ph = "confirming" /\ g.fd.st # "UNCONFIRMED"
DoExecConfirmed(g) == [g EXCEPT !.job.ph = "amended", !.job.wants = (g.fd.st # "CONFIRMED")]
\* (the reads and the write are steps of their own: somebody may edit a file in between)
ExecReadDEn(g) == g.job.ph = "amended" /\ ~g.job.wants /\ g.dd # 0
DoExecReadD(g) == [g EXCEPT !.job.ph = "readd", !.job.rd = g.dd]
ExecReadIEn(g) == g.job.ph = "readd" /\ g.di # 0
DoExecReadI(g) == [g EXCEPT !.job.ph = "readi", !.job.ri = g.di]
ExecWriteEn(g) == g.job.ph = "readi"
DoExecWrite(g) == [g EXCEPT !.do = Gen(g.job.ri, g.job.rd, g.env), !.job.ph = "ran", !.job.ok = TRUE]
\* the command gives up: the amendment was refused, or a file it wants to read is not there
ExecAbortEn(g) == (g.job.ph = "amended" /\ (g.job.wants \/ g.dd = 0)) \/ (g.job.ph = "readd" /\ g.di = 0)
DoExecAbort(g) == [g EXCEPT !.job.ph = "ran", !.job.ok = FALSE]
ExecCompleteEn(g) == g.job.ph = "rehashed"
DoExecComplete(g) ==
  LET ci == g.fi.st = "CONFIRMED" /\ g.job.hi # g.fi.h
      cd == g.dyn /\ g.fd.st = "CONFIRMED" /\ g.job.hd # g.fd.h
      unexpected == ci \/ cd
      wants == ~unexpected /\ g.job.wants
      success == ~unexpected /\ ~g.job.wants /\ g.job.ok /\ g.job.ho # Abs
      g1 == IF ci THEN UpdStatic(g, "i", "FAILED", g.job.hi) ELSE g
      g2 == IF cd THEN UpdStatic(g1, "d", "FAILED", g.job.hd) ELSE g1
      g3 == IF g.job.ho # g.fo.h THEN UpdOut(g2, IF success THEN "SUCCEEDED" ELSE "FAILED", g.job.ho) ELSE g2
  IN IF success
     THEN CompleteOk(g3, [has |-> TRUE, i |-> g.fi.h, d |-> IF g.dyn /\ g.fd.st = "CONFIRMED" THEN g.fd.h ELSE 0,
                          e |-> g.env, out |-> g.job.ho])
     ELSE [CompleteFailed(g3, wants) EXCEPT !.drain = g.drain \/ unexpected]

(* --------------------------- the surroundings --------------------------- *)
RefreshEn(g, f) == IF f = "o" THEN g.fo.st \in {"BUILT", "OUTDATED"} /\ g.do # g.fo.h
                   ELSE Row(g, f).st = "UNCONFIRMED" \/ Disk(g, f) # Row(g, f).h
DoRefresh(g, f) == IF f = "o" THEN UpdOut(g, "EXTERNAL", g.do)
                   ELSE UpdStatic(g, f, IF Row(g, f).st = "UNCONFIRMED" THEN "CONFIRMED" ELSE "EXTERNAL", Disk(g, f))
DoProcStart(g, ev) == [g EXCEPT !.env = ev, !.drain = FALSE]
DoFailedPending(g) == IF g.st = "FAILED" THEN MarkPending(g) ELSE g
DoEnvRescan(g) == IF g.env # g.envRec THEN [MarkPending(g) EXCEPT !.envRec = g.env] ELSE g
DoPhaseStart(g) == [g EXCEPT !.drain = FALSE]
RefreshAll(g) ==
  LET g1 == IF RefreshEn(g, "i") THEN DoRefresh(g, "i") ELSE g
      g2 == IF RefreshEn(g1, "d") THEN DoRefresh(g1, "d") ELSE g1
  IN IF RefreshEn(g2, "o") THEN DoRefresh(g2, "o") ELSE g2
DoNewBuild(g, restart, ev) ==
  RefreshAll(IF restart THEN DoEnvRescan(DoFailedPending(DoProcStart(g, ev))) ELSE DoPhaseStart(g))

(* ------------------------------ model mode ------------------------------ *)
VARIABLES g, dirty, nv, nb, l, out, ak, cur, acc
vars == <<g, dirty, nv, nb, l, out, ak, cur, acc>>
Rest == UNCHANGED <<l, out, ak, cur, acc>>
MInit == /\ g \in {G0(1, dv, ev) : dv \in {0, 1}, ev \in Envs}
         /\ dirty = FALSE /\ nv = 1 /\ nb = 0
         /\ l = 0 /\ out = <<>> /\ ak = 0 /\ cur = 0 /\ acc = <<>>
Job(En(_), Do(_)) == En(g) /\ g' = Do(g) /\ UNCHANGED <<dirty, nv, nb>> /\ Rest
Dispatch == Job(DispatchEn, DoDispatch)
NewRunOk == Job(NewRunOkEn, DoNewRunOk)
NewRunRefresh == Job(NewRunRefreshEn, DoNewRunRefresh)
NewRunFail == Job(NewRunFailEn, DoNewRunFail)
Hash == Job(HashEn, DoHash)
Validate == Job(ValidateEn, DoValidate)
SkipInp == Job(SkipInpEn, DoSkipInp)
SkipOut == Job(SkipOutEn, DoSkipOut)
ExecReset == Job(ExecResetEn, DoExecReset)
ExecAmend == Job(ExecAmendEn, DoExecAmend)
ExecConfirmed == Job(ExecConfirmedEn, DoExecConfirmed)
ExecReadD == Job(ExecReadDEn, DoExecReadD)
ExecReadI == Job(ExecReadIEn, DoExecReadI)
ExecWrite == Job(ExecWriteEn, DoExecWrite)
ExecAbort == Job(ExecAbortEn, DoExecAbort)
ExecComplete == Job(ExecCompleteEn, DoExecComplete)
JobStep == Dispatch \/ Hash \/ NewRunOk \/ NewRunRefresh \/ NewRunFail \/ Validate \/ SkipInp \/ SkipOut
           \/ ExecReset \/ ExecAmend \/ ExecConfirmed \/ ExecReadD \/ ExecReadI \/ ExecWrite \/ ExecAbort \/ ExecComplete
EditStatic == /\ nv < MaxV /\ \E f \in {"i", "d"}, del \in BOOLEAN :
                   /\ (del => Disk(g, f) # 0)
                   /\ g' = IF f = "i" THEN [g EXCEPT !.di = IF del THEN 0 ELSE nv + 1]
                                      ELSE [g EXCEPT !.dd = IF del THEN 0 ELSE nv + 1]
              /\ nv' = nv + 1 /\ dirty' = TRUE /\ UNCHANGED nb /\ Rest
\* (assumption: nobody touches the output while the job that writes or verifies it is in flight; what
\* is found there when the command has ended is taken for what the command wrote)
EditOut == /\ nv < MaxV /\ ~InFlight(g) /\ \E del \in BOOLEAN :
                   /\ (del => g.do # Abs)
                   /\ g' = [g EXCEPT !.do = IF del THEN Abs ELSE Usr(nv + 1)]
           /\ nv' = nv + 1 /\ dirty' = TRUE /\ UNCHANGED nb /\ Rest
NewBuild == /\ ~InFlight(g) /\ nb < MaxB
            /\ \E restart \in BOOLEAN, ev \in Envs :
                 /\ (~restart => ev = g.env)
                 /\ g' = DoNewBuild(g, restart, ev)
            /\ nb' = nb + 1 /\ dirty' = FALSE /\ UNCHANGED nv /\ Rest
MNext == JobStep \/ EditStatic \/ EditOut \/ NewBuild
MSpec == MInit /\ [][MNext]_vars /\ WF_vars(JobStep)

Sound == (~dirty /\ ~InFlight(g) /\ g.st = "SUCCEEDED") => (g.di # 0 /\ g.dd # 0 /\ g.do = Gen(g.di, g.dd, g.env))
HashOnlyWhenChecked == (g.hash.has => g.st \in {"SUCCEEDED", "PENDING", "CHECKING"}) /\ (g.st = "CHECKING" => g.hash.has)
BuiltIsRecorded == g.fo.st = "BUILT" => (g.st = "SUCCEEDED" /\ g.hash.has /\ g.hash.out = g.fo.h)
NeverRaises == ~g.raised
\* (defer_count is reset by a success only: a step that failed on the cap gets one attempt per restart)
CapRespected == [][(g.job.ph = "ran" /\ g'.st = "PENDING") => g'.cnt <= Cap]_vars
FailedHasNoHash == g.st \in {"FAILED", "RUNNING"} => ~g.hash.has
Settled == ~InFlight(g) /\ (g.st \in {"SUCCEEDED", "FAILED"} \/ (g.st = "PENDING" /\ (g.def \/ g.drain \/ ~Ready(g))))
Settles == <>[]Settled

(* ------------------------------ trace mode ------------------------------ *)
Lines == ndJsonDeserialize(IOEnv.TRACE_FILE)
NL == Len(Lines)
Cont(c) == [k |-> c.k, i |-> c.i, d |-> c.d, e |-> c.e]
Proj(h) == [st |-> h.st, def |-> h.def, cnt |-> h.cnt, dyn |-> h.dyn, has |-> h.hash.has,
            ist |-> h.fi.st, ih |-> h.fi.h, dst |-> h.fd.st, dh |-> h.fd.h,
            ost |-> h.fo.st, oh |-> h.fo.h, envRec |-> h.envRec]
Obs(p) == [st |-> p.st, def |-> p.def, cnt |-> p.cnt, dyn |-> p.dyn, has |-> p.has,
           ist |-> p.ist, ih |-> p.ih, dst |-> p.dst, dh |-> p.dh,
           ost |-> p.ost, oh |-> Cont(p.oh), envRec |-> p.envRec]
\* the actions a commit of the real director may be.  A commit made by one of the job's own functions
\* (pop_next_job, _new_run, _finalize_failed_run, _reset_step_to_pending, validate_dynamic_job,
\* try_skip_job, execute_job, amend_step) is one job transaction, after the job's silent steps; any
\* other commit (hash jobs, start-up, watcher) is one to three updates of the surroundings
SuccJob(h) ==
  {x \in { IF DispatchEn(h) THEN DoDispatch(h) ELSE h,
           IF NewRunOkEn(h) THEN DoNewRunOk(h) ELSE h,
           IF NewRunRefreshEn(h) THEN DoNewRunRefresh(h) ELSE h,
           IF NewRunFailEn(h) THEN DoNewRunFail(h) ELSE h,
           IF ValidateEn(h) THEN DoValidate(h) ELSE h,
           IF SkipInpEn(h) THEN DoSkipInp(h) ELSE h,
           IF SkipOutEn(h) THEN DoSkipOut(h) ELSE h,
           IF ExecResetEn(h) THEN DoExecReset(h) ELSE h,
           IF ExecAmendEn(h) THEN DoExecAmend(h) ELSE h,
           IF ExecConfirmedEn(h) THEN DoExecConfirmed(h) ELSE h,
           IF ExecCompleteEn(h) THEN DoExecComplete(h) ELSE h } : x # h}
SuccEnv(h) ==
  {x \in { IF RefreshEn(h, "i") THEN DoRefresh(h, "i") ELSE h,
           IF RefreshEn(h, "d") THEN DoRefresh(h, "d") ELSE h,
           IF RefreshEn(h, "o") THEN DoRefresh(h, "o") ELSE h,
           DoFailedPending(h), DoEnvRescan(h) } : x # h}
SilentJob(h) == {x \in SuccJob(h) : Proj(x) = Proj(h)}
JobWithin(h) == SuccJob(h) \cup UNION {SuccJob(x) : x \in SilentJob(h)}
                \cup UNION {UNION {SuccJob(y) : y \in SilentJob(x)} : x \in SilentJob(h)}
EnvWithin(h) == LET s1 == SuccEnv(h)
                    s2 == UNION {SuccEnv(x) : x \in s1}
                IN s1 \cup s2 \cup UNION {SuccEnv(x) : x \in s2}
Match(h, o, cls) == {x \in (IF cls = "job" THEN JobWithin(h) ELSE EnvWithin(h)) : Proj(x) = o}
\* resynchronise on the observation when nothing explains it, so that the rest is still checked
Adopt(h, o) ==
  [h EXCEPT !.st = o.st, !.def = o.def, !.cnt = o.cnt, !.dyn = o.dyn,
            !.hash = IF o.has THEN (IF h.hash.has THEN h.hash ELSE [NoHash EXCEPT !.has = TRUE]) ELSE NoHash,
            !.fi = [st |-> o.ist, h |-> o.ih], !.fd = [st |-> o.dst, h |-> o.dh],
            !.fo = [st |-> o.ost, h |-> o.oh], !.envRec = o.envRec,
            !.job = IF o.st \in {"RUNNING", "CHECKING"} THEN h.job ELSE NoJob]
\* the job's own silent steps (NewRunOk, SkipInp with equal digests, ExecReset with nothing to reset) are
\* taken when the next logged event of the job needs them
JobSucc(h) ==
  {x \in { IF NewRunOkEn(h) THEN DoNewRunOk(h) ELSE h,
           IF SkipInpEn(h) THEN DoSkipInp(h) ELSE h,
           IF ExecResetEn(h) THEN DoExecReset(h) ELSE h,
           IF ExecConfirmedEn(h) THEN DoExecConfirmed(h) ELSE h } : x # h /\ Proj(x) = Proj(h)}
RECURSIVE AdvanceTo(_, _, _)
AdvanceTo(h, phs, n) == IF n = 0 \/ h.job.ph \in phs THEN h
                        ELSE LET s == JobSucc(h) IN IF s = {} THEN h ELSE AdvanceTo(CHOOSE x \in s : TRUE, phs, n - 1)
Apply(h, e) ==
  CASE e.a = "init" -> <<"ok", [G0(e.di, e.dd, e.env) EXCEPT !.do = Cont(e.do), !.fi = [st |-> e.p.ist, h |-> e.p.ih],
                                 !.fd = [st |-> e.p.dst, h |-> e.p.dh], !.fo = [st |-> e.p.ost, h |-> Cont(e.p.oh)],
                                 !.envRec = e.p.envRec, !.st = e.p.st]>>
    [] e.a = "edit" -> <<"ok", [(IF e.f = "i" THEN [h EXCEPT !.di = e.v] ELSE [h EXCEPT !.dd = e.v])
                                 EXCEPT !.su = IF e.su THEN @ \cup {e.f} ELSE @ \ {e.f}]>>
    [] e.a = "edito" -> <<"ok", [h EXCEPT !.do = Cont(e.c), !.su = IF e.su THEN @ \cup {"o"} ELSE @ \ {"o"}]>>
    [] e.a = "proc" -> <<"ok", DoProcStart([h EXCEPT !.job = NoJob], e.env)>>
    [] e.a = "phase" -> <<"ok", DoPhaseStart(h)>>
    \* Scheduler._derive_job: which job the dispatched step got
    [] e.a = "kind" -> <<IF h.job.k = e.k THEN "ok" ELSE "dispatched_job_is_of_another_kind_than_in_the_job_model", h>>
    \* end of a build during which nobody touched a file: the stored hashes agree with the tree and a
    \* SUCCEEDED step has the output a fresh run would write (Sound, on the code's own state)
    [] e.a = "settled" ->
         IF ~e.clean THEN <<"ok", h>>
         ELSE IF RefreshEn(h, "i") \/ RefreshEn(h, "d") \/ RefreshEn(h, "o")
              THEN \* shape of finding F31: every file that StepUp has not caught up with was last edited
                   \* while a director was starting up (after the start-up scan hashed it, before the
                   \* watcher existed)
                   IF {f \in {"i", "d", "o"} : RefreshEn(h, f)} \subseteq h.su
                   THEN <<"change_made_during_the_startup_scan_was_missed", h>>
                   ELSE <<"stored_hashes_differ_from_the_tree_after_an_undisturbed_build", h>>
         ELSE IF h.st = "SUCCEEDED" /\ ~(h.di # 0 /\ h.dd # 0 /\ h.do = Gen(h.di, h.dd, h.env))
              THEN <<"succeeded_with_an_output_that_a_fresh_run_would_not_write", h>>
         ELSE <<"ok", h>>
    [] e.a = "drain" -> <<IF h.drain = e.v THEN "ok" ELSE "scheduler_drained_differs_from_the_job_model", [h EXCEPT !.drain = e.v]>>
    [] e.a = "hash" ->
         LET h0 == AdvanceTo(h, {"new", "inpok", "ran"}, 3)
         IN IF HashEn(h0) THEN <<"ok", DoHash(h0)>> ELSE <<"hash_computed_when_the_job_model_expects_none", h>>
    [] e.a = "read" ->
         LET h0 == AdvanceTo(h, {"amended", "readd"}, 4)
             en == IF e.f = "d" THEN ExecReadDEn(h0) /\ h0.dd = e.v ELSE ExecReadIEn(h0) /\ h0.di = e.v
         IN IF en THEN <<"ok", IF e.f = "d" THEN DoExecReadD(h0) ELSE DoExecReadI(h0)>>
            ELSE <<"command_read_what_the_job_model_does_not", h>>
    [] e.a = "write" ->
         IF ExecWriteEn(h) /\ DoExecWrite(h).do = Cont(e.o) THEN <<"ok", DoExecWrite(h)>>
         ELSE <<"command_wrote_what_the_job_model_does_not", [h EXCEPT !.do = Cont(e.o)]>>
    [] e.a = "cmd_end" ->
         LET h0 == AdvanceTo(h, {"reset", "amended", "readd", "ran"}, 4)
         IN IF h0.job.ph = "ran" THEN <<"ok", h0>>
            ELSE IF ExecAbortEn(h0) THEN <<"ok", DoExecAbort(h0)>>
            ELSE <<"command_ended_in_a_way_the_job_model_does_not_allow", h>>
    [] e.a = "obs" ->
         LET o == Obs(e.p) IN
         IF Proj(h) = o THEN <<"same", h>>
         ELSE LET m == Match(h, o, e.cls) IN
              IF m # {} THEN <<"ok", CHOOSE x \in m : TRUE>>
              ELSE <<"commit_not_explained_by_the_job_model", Adopt(h, o)>>
Init == g = 0 /\ dirty = FALSE /\ nv = 0 /\ nb = 0 /\ l = 1 /\ out = <<>> /\ ak = 0 /\ cur = G0(1, 1, 0) /\ acc = <<>>
Next ==
  /\ l <= NL
  /\ UNCHANGED <<g, dirty, nv, nb>>
  /\ IF ak < Len(Lines[l].evs)
     THEN LET r == Apply(cur, Lines[l].evs[ak + 1]) IN
          /\ ak' = ak + 1
          /\ cur' = r[2]
          /\ acc' = IF r[1] \in {"ok", "same"} THEN acc
                    ELSE Append(acc, [k |-> ak + 1, clause |-> r[1], model |-> Proj(cur), job |-> cur.job,
                                      disk |-> [i |-> cur.di, d |-> cur.dd, o |-> cur.do, env |-> cur.env]])
          /\ UNCHANGED <<l, out>>
     ELSE /\ out' = Append(out, [id |-> Lines[l].id, bad |-> acc, final |-> Proj(cur)])
          /\ l' = l + 1 /\ ak' = 0 /\ cur' = G0(1, 1, 0) /\ acc' = <<>>
          /\ (l' = NL + 1) => JsonSerialize(IOEnv.VERDICT_FILE, [vectors |-> out', n |-> NL])
Spec == Init /\ [][Next]_vars
Consumed == TLCGet("stats").diameter >= NL
=============================================================================
