------------------------------ MODULE FileStep ------------------------------
(***************************************************************************)
(* The file / step state machine of the workflow (workflow.py:             *)
(* update_file_hashes with _HASH_TRANSITIONS, handle_updated_file,         *)
(* handle_deleted_file, mark_consuming_steps_pending, mark_step_pending,   *)
(* mark_file_outdated; step.py: reset_for_rerun, mark_completed), on a      *)
(* fixed graph of steps, static files and outputs.                          *)
(*                                                                         *)
(* One action per critical section (one database transaction):             *)
(*   External(f, present)  a hash job with cause EXTERNAL (watcher batch,   *)
(*                         startup rescan) reports file f changed / gone    *)
(*   Start(s)              the scheduler dispatches s and it is reset       *)
(*   Succeed(s)            the command of s succeeded, outputs hashed       *)
(*   Fail(s, present)      the command failed; which outputs exist          *)
(*                                                                         *)
(* Properties (model mode, FileStep.cfg):                                   *)
(*   DoneMeansBuilt        a SUCCEEDED step has all outputs BUILT and all   *)
(*                         inputs available (C03 / C01)                     *)
(*   BuiltMeansDone        a BUILT output belongs to a SUCCEEDED step       *)
(*   ExternalCommute       two EXTERNAL updates of one batch give the same  *)
(*                         state in either order (C02 / C14: the watcher    *)
(*                         and the startup rescan apply a batch in          *)
(*                         different orders; finding F14)                   *)
(* Replay mode (FileStepReplay.cfg): TLC evaluates sequences of actions     *)
(* proposed by checks/filestep.py on graphs of the same family and writes   *)
(* the state after every action; the harness executes the same actions on   *)
(* the real Workflow (in-memory database, graph API) and compares.          *)
(***************************************************************************)
EXTENDS Naturals, Sequences, FiniteSets, TLC, Json, IOUtils

(* ------------------------- the transition functions ------------------------- *)
\* g: [steps, statics, outs, inp : step -> set of files, prod : output -> step]
\* st: [f : file -> state, s : step -> state]
Files(g) == g.statics \cup g.outs
Consumers(g, f) == {s \in g.steps : f \in g.inp[s]}
Outputs(g, s) == {f \in g.outs : g.prod[f] = s}
Available(st, f) == st.f[f] \in {"CONFIRMED", "BUILT"}

(* mark_step_pending, closed under its cascade: a step that was SUCCEEDED or FAILED has its    *)
(* BUILT outputs outdated, whose consumers are marked pending in turn; RUNNING steps ignore it. *)
RECURSIVE Cascade(_, _, _, _)
\* P: steps already made pending, O: outputs already outdated, W: steps still to process
Cascade(g, st, P, W) ==
  IF W = {} THEN P
  ELSE LET s == CHOOSE s \in W : TRUE IN
       IF s \in P \/ st.s[s] = "RUNNING" THEN Cascade(g, st, P, W \ {s})
       ELSE IF st.s[s] \in {"SUCCEEDED", "FAILED"}
            THEN Cascade(g, st, P \cup {s},
                         (W \ {s}) \cup UNION {Consumers(g, f) : f \in {f \in Outputs(g, s) : st.f[f] = "BUILT"}})
            ELSE Cascade(g, st, P \cup {s}, W \ {s})
MarkPending(g, st, seeds) ==
  LET P == Cascade(g, st, {}, seeds)
      outd == UNION {{f \in Outputs(g, s) : st.f[f] = "BUILT"} : s \in {s \in P : st.s[s] \in {"SUCCEEDED", "FAILED"}}}
  IN [f |-> [x \in DOMAIN st.f |-> IF x \in outd THEN "OUTDATED" ELSE st.f[x]],
      s |-> [x \in DOMAIN st.s |-> IF x \in P THEN "PENDING" ELSE st.s[x]]]

\* _HASH_TRANSITIONS, cause EXTERNAL: <<new state, follow-up>>; files in other states are not rescanned
ExternalRow(old, present) ==
  CASE old = "MISSING" /\ present -> <<"CONFIRMED", "updated">>
    [] old = "CONFIRMED" /\ present -> <<"CONFIRMED", "updated">>
    [] old = "CONFIRMED" /\ ~present -> <<"MISSING", "deleted">>
    [] old \in {"BUILT", "OUTDATED"} /\ present -> <<"PLANNED", "updated">>
    [] old \in {"BUILT", "OUTDATED"} /\ ~present -> <<"PLANNED", "deleted">>
    [] OTHER -> <<old, "none">>
\* EXTERNAL updates are applied at startup and at the end of a watch phase: no step is running
ExternalEnabled(st, f, present) ==
  ExternalRow(st.f[f], present)[2] # "none" /\ \A s \in DOMAIN st.s : st.s[s] # "RUNNING"
DoExternal(g, st, f, present) ==
  LET row == ExternalRow(st.f[f], present)
      st1 == [st EXCEPT !.f[f] = row[1]]
  IN IF row[2] = "none" THEN st
     \* handle_updated_file / handle_deleted_file: a static file makes its consumers pending, an
     \* output (now PLANNED) its producer and its consumers
     ELSE MarkPending(g, st1, Consumers(g, f) \cup (IF f \in g.outs THEN {g.prod[f]} ELSE {}))

StartEnabled(g, st, s) == st.s[s] = "PENDING" /\ \A f \in g.inp[s] : Available(st, f)
DoStart(g, st, s) ==
  \* reset_for_rerun outdates BUILT outputs (none after mark_step_pending, kept for fidelity)
  LET st1 == [st EXCEPT !.s[s] = "RUNNING"]
      built == {f \in Outputs(g, s) : st.f[f] = "BUILT"}
      st2 == [st1 EXCEPT !.f = [x \in DOMAIN st1.f |-> IF x \in built THEN "OUTDATED" ELSE st1.f[x]]]
  IN MarkPending(g, st2, UNION {Consumers(g, f) : f \in built})

SucceedEnabled(g, st, s) == st.s[s] = "RUNNING"
DoSucceed(g, st, s) ==
  \* cause SUCCEEDED: outputs become BUILT ("completed": consumers pending), then mark_completed
  LET st1 == [st EXCEPT !.f = [x \in DOMAIN st.f |-> IF x \in Outputs(g, s) THEN "BUILT" ELSE st.f[x]],
                        !.s[s] = "SUCCEEDED"]
  IN MarkPending(g, st1, UNION {Consumers(g, f) : f \in Outputs(g, s)} \ {s})

FailEnabled(g, st, s) == st.s[s] = "RUNNING"
\* present: the set of outputs that exist after the failed command
FailRow(old, pres) ==
  CASE old = "BUILT" /\ pres -> "OUTDATED" [] old = "BUILT" /\ ~pres -> "PLANNED"
    [] old = "OUTDATED" /\ pres -> "OUTDATED" [] old = "OUTDATED" /\ ~pres -> "PLANNED"
    [] old = "PLANNED" /\ pres -> "OUTDATED" [] old = "PLANNED" /\ ~pres -> "PLANNED"
    [] OTHER -> old
DoFail(g, st, s, present) ==
  LET st1 == [st EXCEPT !.f = [x \in DOMAIN st.f |-> IF x \in Outputs(g, s) THEN FailRow(st.f[x], x \in present) ELSE st.f[x]],
                        !.s[s] = "FAILED"]
      \* BUILT outputs that changed or vanished act on their consumers
      hit == {f \in Outputs(g, s) : st.f[f] = "BUILT"}
  IN MarkPending(g, st1, UNION {Consumers(g, f) : f \in hit} \ {s})

(* ------------------------------- model mode ------------------------------- *)
Steps3 == {"A", "B", "C"}
GraphFamily ==
  {[steps |-> Steps3, statics |-> {"x"}, outs |-> {"o", "p", "q"},
    prod |-> [f \in {"o", "p", "q"} |-> CASE f = "o" -> "A" [] f = "p" -> "B" [] f = "q" -> "C"],
    inp |-> [s \in Steps3 |-> CASE s = "A" -> ia [] s = "B" -> ib [] s = "C" -> ic]] :
     ia \in SUBSET {"x"}, ib \in SUBSET {"x", "o"}, ic \in SUBSET {"x", "o", "p"}}
Fresh(g) == [f |-> [x \in Files(g) |-> IF x \in g.statics THEN "CONFIRMED" ELSE "PLANNED"],
             s |-> [x \in g.steps |-> "PENDING"]]

VARIABLES g, st, n, l, out, ak, cur, acc
vars == <<g, st, n, l, out, ak, cur, acc>>
Init == g \in GraphFamily /\ st = Fresh(g) /\ n = 0 /\ l = 0 /\ out = <<>> /\ ak = 0 /\ cur = 0 /\ acc = <<>>
Next ==
  /\ n' = n + 1
  /\ UNCHANGED <<g, l, out, ak, cur, acc>>
  /\ \/ \E f \in Files(g) : \E pr \in BOOLEAN : ExternalEnabled(st, f, pr) /\ st' = DoExternal(g, st, f, pr)
     \/ \E s \in g.steps : StartEnabled(g, st, s) /\ st' = DoStart(g, st, s)
     \/ \E s \in g.steps : SucceedEnabled(g, st, s) /\ st' = DoSucceed(g, st, s)
     \/ \E s \in g.steps : FailEnabled(g, st, s) /\ \E pr \in SUBSET Outputs(g, s) : st' = DoFail(g, st, s, pr)
Spec == Init /\ [][Next]_vars
View == <<g, st>>
Bound == n <= 9

DoneMeansBuilt == \A s \in g.steps : st.s[s] = "SUCCEEDED" =>
   (\A f \in Outputs(g, s) : st.f[f] = "BUILT") /\ (\A f \in g.inp[s] : Available(st, f))
BuiltMeansDone == \A f \in g.outs : st.f[f] = "BUILT" => st.s[g.prod[f]] = "SUCCEEDED"
RunningHadInputs == TRUE
ExternalCommute ==
  \A f1, f2 \in Files(g) : \A p1, p2 \in BOOLEAN :
     (f1 # f2 /\ ExternalEnabled(st, f1, p1) /\ ExternalEnabled(st, f2, p2)) =>
        DoExternal(g, DoExternal(g, st, f1, p1), f2, p2) = DoExternal(g, DoExternal(g, st, f2, p2), f1, p1)

(* ------------------------------- replay mode ------------------------------- *)
\* line: [id, g |-> [steps, statics, outs, prod |-> <<<<f, s>>..>>, inp |-> <<<<s, <<f..>>>>..>>], acts |-> <<[a, s|f, present]..>>]
Lines == ndJsonDeserialize(IOEnv.TRACE_FILE)
NL == Len(Lines)
SetOf(q) == {q[i] : i \in DOMAIN q}
GraphOf(e) ==
  [steps |-> SetOf(e.steps), statics |-> SetOf(e.statics), outs |-> SetOf(e.outs),
   prod |-> [f \in SetOf(e.outs) |-> (CHOOSE x \in SetOf(e.prod) : x[1] = f)[2]],
   inp |-> [s \in SetOf(e.steps) |-> SetOf((CHOOSE x \in SetOf(e.inp) : x[1] = s)[2])]]
Apply(gr, s0, a) ==
  CASE a.a = "external" -> IF ExternalEnabled(s0, a.f, a.present) THEN <<TRUE, DoExternal(gr, s0, a.f, a.present)>> ELSE <<FALSE, s0>>
    [] a.a = "start" -> IF StartEnabled(gr, s0, a.s) THEN <<TRUE, DoStart(gr, s0, a.s)>> ELSE <<FALSE, s0>>
    [] a.a = "succeed" -> IF SucceedEnabled(gr, s0, a.s) THEN <<TRUE, DoSucceed(gr, s0, a.s)>> ELSE <<FALSE, s0>>
    [] a.a = "fail" -> IF FailEnabled(gr, s0, a.s) THEN <<TRUE, DoFail(gr, s0, a.s, SetOf(a.present))>> ELSE <<FALSE, s0>>
\* one TLC step per action (linear in the length of the sequences)
RInit == l = 1 /\ out = <<>> /\ g = 0 /\ st = 0 /\ n = 0 /\ ak = 0 /\ cur = Fresh(GraphOf(Lines[1])) /\ acc = <<>>
RNext ==
  /\ l <= NL
  /\ UNCHANGED <<g, st, n>>
  /\ IF ak < Len(Lines[l].acts)
     THEN LET r == Apply(GraphOf(Lines[l]), cur, Lines[l].acts[ak + 1]) IN
          /\ ak' = ak + 1
          /\ cur' = r[2]
          /\ acc' = Append(acc, [enabled |-> r[1], f |-> r[2].f, s |-> r[2].s])
          /\ UNCHANGED <<l, out>>
     ELSE /\ out' = Append(out, [id |-> Lines[l].id, states |-> acc])
          /\ l' = l + 1 /\ ak' = 0 /\ acc' = <<>>
          /\ cur' = IF l + 1 <= NL THEN Fresh(GraphOf(Lines[l + 1])) ELSE 0
          /\ (l' = NL + 1) => JsonSerialize(IOEnv.VERDICT_FILE, [vectors |-> out', n |-> NL])
RSpec == RInit /\ [][RNext]_vars
Consumed == TLCGet("stats").diameter >= NL
=============================================================================
