SPECIFICATION Spec
CONSTANTS
  N = 4
  MaxDirty = 3
  States = {"P", "R", "S", "F"}
  Needs = {1, 2, 4}
  MaxHold = 2
  EnableOut = TRUE
  EnableCons = TRUE
  UseMin = FALSE
  FlagProducerOnEdgeLoss = TRUE
POSTCONDITION Consumed
CHECK_DEADLOCK FALSE
