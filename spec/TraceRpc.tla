------------------------------ MODULE TraceRpc ------------------------------
(***************************************************************************)
(* Trace validation for Rpc.tla: recorded executions of the real           *)
(* rpc.RPCServerConnection (fed StreamReader, recording writer, handlers   *)
(* released by the driver) are checked to be behaviours of the             *)
(* specification.  Logged lines:                                            *)
(*   start   kinds, units          a new connection (resets the state)      *)
(*   write n / deliver n / eof     driver actions on the byte stream        *)
(*   entered c                     the procedure body of call c was entered *)
(*   finish c                      the driver lets handler c return/raise   *)
(*   reply c what                  a reply frame was written                *)
(*   closed                        serve() returned                         *)
(* Parse, SeeEof, Teardown and the completion of calls that never enter a   *)
(* procedure are silent steps.  The invariants of Rpc.tla are checked on    *)
(* every state of every accepted trace.                                     *)
(***************************************************************************)
EXTENDS Rpc, Json, IOUtils

TraceLog == ndJsonDeserialize(IOEnv.TRACE_FILE)
NL == Len(TraceLog)
VARIABLE l
tvars == <<vars, l>>

Line == TraceLog[l + 1]
More == l < NL
Consume == l' = l + 1

ASSUME TLCSet(1, 0)
TInit == Init /\ l = 0

\* a new recorded connection: the model is reset to its initial state with the logged parameters
TStart ==
  /\ More /\ Line.ev = "start" /\ Consume
  /\ kind' = [c \in Calls |-> Line.kinds[c]]
  /\ units' = [c \in Calls |-> Line.units[c]]
  /\ written' = 0 /\ delivered' = 0 /\ parsed' = 0
  /\ hstate' = [c \in Calls |-> "none"]
  /\ entered' = {} /\ completedQ' = <<>> /\ replies' = <<>> /\ conn' = "open" /\ eof' = NoEof

TWrite == /\ More /\ Line.ev = "write" /\ Consume /\ Write /\ written' = written + Line.n
TDeliver == /\ More /\ Line.ev = "deliver" /\ Consume /\ Deliver /\ delivered' = delivered + Line.n
TEof == /\ More /\ Line.ev = "eof" /\ Consume /\ Eof
\* the body of a procedure is entered exactly when the receive loop parses its request
TEntered == /\ More /\ Line.ev = "entered" /\ Consume /\ Parse /\ parsed' = Line.c /\ Line.c \in entered'
TFinish == /\ More /\ Line.ev = "finish" /\ Consume /\ Finish(Line.c)
TReply == /\ More /\ Line.ev = "reply" /\ Consume /\ Reply
          /\ replies'[Len(replies')] = <<Line.c, Line.what>>
TClosed == /\ More /\ Line.ev = "closed" /\ Consume /\ conn = "closed" /\ UNCHANGED vars

\* silent steps of the implementation
SilentParse == /\ Parse /\ ~Runs(kind[parsed + 1]) /\ UNCHANGED l
SilentFinish == /\ \E c \in Calls : ~Runs(kind[c]) /\ Finish(c) /\ UNCHANGED l
SilentSeeEof == SeeEof /\ UNCHANGED l
SilentTeardown == Teardown /\ UNCHANGED l

TNext == TStart \/ TWrite \/ TDeliver \/ TEof \/ TEntered \/ TFinish \/ TReply \/ TClosed
         \/ SilentParse \/ SilentFinish \/ SilentSeeEof \/ SilentTeardown
TSpec == TInit /\ [][TNext]_tvars

\* furthest line reached (register 1), read by the harness through the post-condition output
Progress == TLCSet(1, IF TLCGet(1) > l THEN TLCGet(1) ELSE l)
Accepted == PrintT(<<"TRACE_PROGRESS", TLCGet(1), NL>>)
=============================================================================
