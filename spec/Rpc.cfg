SPECIFICATION Spec
CONSTANT NCalls = 3
INVARIANT AtMostOneReply
INVARIANT ReplyCarriesOwnId
INVARIANT ErrorClassPreserved
INVARIANT OnlyExposed
INVARIANT AppliedDespiteDisconnect
INVARIANT ExactlyOneReply
INVARIANT ServerSurvives
CHECK_DEADLOCK FALSE
