------------------------------ MODULE NGlobModel ------------------------------
(***************************************************************************)
(* C17, mode "model": keeping a recorded match set up to date from lists   *)
(* of added and deleted paths gives the same result as scanning again.     *)
(*                                                                         *)
(* A small file system (names a, b, .a; depth <= 2) evolves by single      *)
(* events: a file or an empty directory appears, a file or an empty        *)
(* directory disappears.  Between two flushes the observer accumulates     *)
(* the events in two sets exactly like Watcher.record_change does (the     *)
(* last event of a path wins; a directory is written with a trailing       *)
(* separator, here: as <<path, "dir">>).  Flush applies                   *)
(* NamedGlob.will_change: extend with the added paths that the pattern     *)
(* accepts, then reduce by the deleted paths.  The invariant compares the  *)
(* recorded set with a fresh scan at every flush, for every pattern of a   *)
(* fixed, deliberately awkward list.                                       *)
(***************************************************************************)
EXTENDS NGlobSem

Names == {"a", "b", ".a"}
Paths == {<<n>> : n \in Names} \cup {<<n, m>> : n \in {"a", "b"}, m \in Names}
Kinds == {"file", "dir"}

L(c) == [t |-> "lit", c |-> c]
Q == [t |-> "q"]
Nm(n) == [t |-> "name", n |-> n]
C(toks) == [d |-> FALSE, toks |-> toks]
DS == [d |-> TRUE]
P(comps, ts) == [comps |-> comps, subs |-> <<>>, tslash |-> ts]

Patterns == <<
  P(<<C(<<Star>>)>>, FALSE),                         \* *
  P(<<C(<<Star>>)>>, TRUE),                          \* */
  P(<<DS>>, FALSE),                                  \* **
  P(<<C(<<L("a")>>), DS>>, FALSE),                   \* a/**
  P(<<DS, C(<<L("a")>>)>>, FALSE),                   \* **/a
  P(<<C(<<Star>>), C(<<Star>>)>>, FALSE),            \* */*
  P(<<C(<<Nm("x")>>), C(<<Nm("x")>>)>>, FALSE),      \* ${*x}/${*x}
  P(<<C(<<Q>>)>>, FALSE),                            \* ?
  P(<<C(<<L("."), Star>>)>>, FALSE),                 \* .*
  P(<<C(<<Nm("x")>>), C(<<L("."), Nm("x")>>)>>, FALSE),  \* ${*x}/.${*x}
  P(<<C(<<L("a"), Star>>), DS, C(<<Star>>)>>, TRUE)  \* a*/**/*/
>>

VARIABLES tree,      \* path -> "none" | "file" | "dir"
          recorded,  \* pattern index -> set of <<path, kind>>
          added, deleted,   \* accumulated since the last flush
          flushed    \* TRUE right after a flush
vars == <<tree, recorded, added, deleted, flushed>>

Parent(p) == SubSeq(p, 1, Len(p) - 1)
HasChild(t, p) == \E q \in Paths : Len(q) = Len(p) + 1 /\ Parent(q) = p /\ t[q] # "none"
Scan(t, i) == {<<p, t[p]>> : p \in {p \in Paths : t[p] # "none" /\ Accept(Patterns[i], p, t[p])}}

Init ==
  /\ tree \in [Paths -> {"none", "file", "dir"}]
  /\ \A p \in Paths : tree[p] # "none" /\ Len(p) > 1 => tree[Parent(p)] = "dir"
  /\ recorded = [i \in DOMAIN Patterns |-> Scan(tree, i)]
  /\ added = {} /\ deleted = {} /\ flushed = TRUE

Appear(p, k) ==
  /\ tree[p] = "none" /\ (Len(p) > 1 => tree[Parent(p)] = "dir")
  /\ tree' = [tree EXCEPT ![p] = k]
  /\ added' = added \cup {<<p, k>>} /\ deleted' = deleted \ {<<p, k>>}
  /\ flushed' = FALSE /\ UNCHANGED recorded

Vanish(p) ==
  /\ tree[p] # "none" /\ ~HasChild(tree, p)
  /\ tree' = [tree EXCEPT ![p] = "none"]
  /\ deleted' = deleted \cup {<<p, tree[p]>>} /\ added' = added \ {<<p, tree[p]>>}
  /\ flushed' = FALSE /\ UNCHANGED recorded

Flush ==
  /\ ~flushed
  /\ recorded' = [i \in DOMAIN Patterns |->
        (recorded[i] \cup {x \in added : Accept(Patterns[i], x[1], x[2])}) \ deleted]
  /\ added' = {} /\ deleted' = {} /\ flushed' = TRUE /\ UNCHANGED tree

Next == Flush \/ (\E p \in Paths : Vanish(p) \/ \E k \in Kinds : Appear(p, k))
Spec == Init /\ [][Next]_vars

\* at most three events between flushes keeps the model small without losing the cancelling cases
Bound == Cardinality(added) + Cardinality(deleted) <= 3
BoundQuick == Cardinality(added) + Cardinality(deleted) <= 2

IncrementalEqualsScan == flushed => \A i \in DOMAIN Patterns : recorded[i] = Scan(tree, i)
\* a repeated name stands for one string
RepeatedNameEqual == \A p \in Paths : \A k \in Kinds :
   Accept(Patterns[7], p, k) => Len(p) = 2 /\ p[1] = p[2]
\* a named wildcard (default substitution) accepts what the anonymous one accepts
NamedLikeAnonymous == \A p \in Paths : \A k \in Kinds :
   Accept(P(<<C(<<Nm("x")>>), C(<<Nm("y")>>)>>, FALSE), p, k) = Accept(Patterns[6], p, k)
=============================================================================
