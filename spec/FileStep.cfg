SPECIFICATION Spec
VIEW View
CONSTRAINT Bound
INVARIANT DoneMeansBuilt
INVARIANT BuiltMeansDone
INVARIANT ExternalCommute
CHECK_DEADLOCK FALSE
