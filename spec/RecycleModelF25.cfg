SPECIFICATION MSpec
VIEW MView
CONSTRAINT MBound
INVARIANT OwnerAttached
INVARIANT BuiltMeansDone
INVARIANT DoneMeansBuilt
INVARIANT OneJobPerStep
INVARIANT DirectorSurvives
INVARIANT HashMeansOutput
CHECK_DEADLOCK FALSE
