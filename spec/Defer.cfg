SPECIFICATION Spec
CONSTANTS
  Cap = 2
  ConfirmedCounts = TRUE
POSTCONDITION Consumed
CHECK_DEADLOCK FALSE
