-------------------------------- MODULE Rpc --------------------------------
(***************************************************************************)
(* C16: remote calls are answered exactly once and correctly paired.       *)
(*                                                                         *)
(* One server connection (rpc.RPCServerConnection) and the byte stream of  *)
(* one client.  The stream is delivered in arbitrary fragments: every      *)
(* message is cut into units (two header halves and up to two body         *)
(* halves), and Deliver hands any number of pending units to the server.   *)
(* Handlers complete in any order.  Faults: the client closes its side at  *)
(* any unit boundary (EOF), sends the close sentinel, sends a body that is *)
(* not a call (garbage), or a header announcing an oversized body.         *)
(*                                                                         *)
(* One action per critical section of the implementation:                  *)
(*   Deliver      bytes arrive at the StreamReader                         *)
(*   Parse        _recv_loop reads one complete message and starts a task  *)
(*   Finish(c)    the handler of call c returns or raises                  *)
(*   Reply        _send_loop writes the reply of the next completed task   *)
(*   Eof          the peer is gone                                         *)
(*   Teardown     the loops end (stop event), pending replies may be lost  *)
(***************************************************************************)
EXTENDS Naturals, Sequences, FiniteSets, TLC

CONSTANTS NCalls          \* number of requests the client writes
Calls == 1..NCalls

\* "intcancel": the procedure ends with a cancellation raised inside the director (e.g. it awaited a
\* future that another call cancelled) while the connection is healthy
Kinds == {"ok", "usage", "internal", "intcancel", "unknown", "hidden", "badargs", "garbage", "oversize", "close"}
\* what the client must observe for a call of each kind
Expected(k) == CASE k = "ok" -> "result"
                 [] k = "usage" -> "usage_error"          \* same user-facing class
                 [] k \in {"internal", "intcancel"} -> "remote_error"   \* generic remote-call error
                 [] k \in {"unknown", "hidden", "badargs"} -> "remote_error"
                 [] OTHER -> "none"
Runs(k) == k \in {"ok", "usage", "internal", "intcancel"}               \* the procedure body is entered

VARIABLES kind,       \* call -> kind (chosen initially)
          units,      \* call -> number of wire units of its message (2 header + body units)
          written,    \* units the client has written so far (over all messages, in order)
          delivered,  \* units that reached the server's reader
          parsed,     \* messages consumed by the receive loop
          hstate,     \* call -> "none" | "running" | "done" | "cancelled"
          entered,    \* calls whose procedure body was entered (side effects happen)
          completedQ, \* completed tasks not yet answered, in completion order
          replies,    \* sequence of <<call, what>> written to the client
          conn,       \* "open" | "stopping" | "closed" | "broken"
          eof         \* the client closed its side after this many units (or -1)
vars == <<kind, units, written, delivered, parsed, hstate, entered, completedQ, replies, conn, eof>>

NoEof == 1000
Total == LET RECURSIVE Sum(_) Sum(c) == IF c = 0 THEN 0 ELSE units[c] + Sum(c - 1) IN Sum(NCalls)
UpTo(c) == LET RECURSIVE Sum(_) Sum(i) == IF i = 0 THEN 0 ELSE units[i] + Sum(i - 1)
           IN IF c > NCalls THEN Sum(NCalls) + 1 ELSE Sum(c)

Init ==
  /\ kind \in [Calls -> Kinds]
  /\ units \in [Calls -> 2..4]
  /\ \A c \in Calls : (kind[c] = "close" => units[c] = 2) /\ (kind[c] = "oversize" => units[c] = 2)
                      /\ (kind[c] \notin {"close", "oversize"} => units[c] > 2)
  /\ written = 0 /\ delivered = 0 /\ parsed = 0
  /\ hstate = [c \in Calls |-> "none"]
  /\ entered = {} /\ completedQ = <<>> /\ replies = <<>> /\ conn = "open" /\ eof = NoEof

Write == /\ written < Total /\ eof = NoEof
         /\ \E n \in 1..(Total - written) : written' = written + n
         /\ UNCHANGED <<kind, units, delivered, parsed, hstate, entered, completedQ, replies, conn, eof>>

Deliver == /\ delivered < written
           /\ \E n \in 1..(written - delivered) : delivered' = delivered + n
           /\ UNCHANGED <<kind, units, written, parsed, hstate, entered, completedQ, replies, conn, eof>>

\* the client goes away: whatever it wrote is still delivered, then the stream ends
Eof == /\ eof = NoEof
       /\ eof' = written
       /\ UNCHANGED <<kind, units, written, delivered, parsed, hstate, entered, completedQ, replies, conn>>

\* the receive loop consumes the next complete message
Parse ==
  /\ conn = "open" /\ parsed < NCalls
  /\ delivered >= UpTo(parsed + 1)
  /\ LET c == parsed + 1 IN
     /\ parsed' = c
     /\ CASE kind[c] = "close" ->          \* close request: stop, calls in flight are completed
               /\ conn' = "stopping" /\ UNCHANGED <<hstate, entered>>
          [] kind[c] \in {"garbage", "oversize"} ->   \* not this protocol: tear the connection down
               /\ conn' = "broken"
               /\ hstate' = [x \in Calls |-> IF hstate[x] = "running" THEN "cancelled" ELSE hstate[x]]
               /\ UNCHANGED entered
          [] OTHER ->
               /\ hstate' = [hstate EXCEPT ![c] = "running"]
               /\ entered' = IF Runs(kind[c]) THEN entered \cup {c} ELSE entered
               /\ UNCHANGED conn
  /\ UNCHANGED <<kind, units, written, delivered, completedQ, replies, eof>>

\* the receive loop finds the stream ended (possibly in the middle of a message)
SeeEof ==
  /\ conn = "open" /\ eof # NoEof /\ delivered = eof
  /\ (parsed = NCalls \/ delivered < UpTo(parsed + 1))
  /\ conn' = "stopping"
  /\ UNCHANGED <<kind, units, written, delivered, parsed, hstate, entered, completedQ, replies, eof>>

Finish(c) ==
  /\ hstate[c] = "running"
  /\ hstate' = [hstate EXCEPT ![c] = "done"]
  /\ completedQ' = Append(completedQ, c)
  /\ UNCHANGED <<kind, units, written, delivered, parsed, entered, replies, conn, eof>>

\* the send loop answers the oldest completed call
Reply ==
  /\ conn \in {"open", "stopping"} /\ completedQ # <<>>
  /\ replies' = Append(replies, <<Head(completedQ), Expected(kind[Head(completedQ)])>>)
  /\ completedQ' = Tail(completedQ)
  /\ UNCHANGED <<kind, units, written, delivered, parsed, hstate, entered, conn, eof>>

\* both loops have ended: in-flight handlers were awaited first; unsent replies are dropped
Teardown ==
  /\ conn \in {"stopping", "broken"}
  /\ \A c \in Calls : hstate[c] # "running"
  /\ conn' = "closed"
  /\ UNCHANGED <<kind, units, written, delivered, parsed, hstate, entered, completedQ, replies, eof>>

Next == Write \/ Deliver \/ Eof \/ Parse \/ SeeEof \/ (\E c \in Calls : Finish(c)) \/ Reply \/ Teardown
Spec == Init /\ [][Next]_vars

(* ------------------------------- properties ------------------------------- *)
ReplyIds == {replies[i][1] : i \in DOMAIN replies}
AtMostOneReply == \A i, j \in DOMAIN replies : replies[i][1] = replies[j][1] => i = j
ReplyCarriesOwnId == \A i \in DOMAIN replies : replies[i][1] \in Calls /\ hstate[replies[i][1]] = "done"
ErrorClassPreserved == \A i \in DOMAIN replies : replies[i][2] = Expected(kind[replies[i][1]])
OnlyExposed == \A c \in entered : Runs(kind[c])
\* a request that was received in full is applied in full, whatever happens to the connection
AppliedDespiteDisconnect ==
  conn = "closed" => \A c \in Calls : (c <= parsed /\ Runs(kind[c]) /\ hstate[c] # "cancelled") => hstate[c] = "done"
\* with the connection alive and nothing pending, every call that reached the director is answered
Quiescent == /\ conn = "open" /\ eof = NoEof /\ written = Total /\ delivered = Total /\ parsed = NCalls
             /\ \A c \in Calls : hstate[c] # "running" /\ completedQ = <<>>
ExactlyOneReply == Quiescent => \A c \in Calls : Expected(kind[c]) # "none" => c \in ReplyIds
\* no state blocks forever: a connection that is stopping can always close once handlers are done
ServerSurvives == conn = "broken" => \A c \in Calls : hstate[c] # "running"
=============================================================================
