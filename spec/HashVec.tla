------------------------------- MODULE HashVec -------------------------------
(***************************************************************************)
(* C13, vector mode: the streams of concrete configurations.  Each line of *)
(* the input is a configuration with its ingredients in arbitrary order    *)
(* (strings as UTF-8 byte lists, widths as in the real code):              *)
(*   [id, kind |-> "inp", label, shell, files |-> <<<<path, mode, size,     *)
(*    digest>>..>>, env |-> <<<<name, defined, value>>..>>, ovr |-> ..]      *)
(*   [id, kind |-> "out", files]                                           *)
(* checks/c13.py compares the stream with the bytes that the real          *)
(* StepHash.from_inp / with_out_hashes feed to SHA-256.                    *)
(***************************************************************************)
EXTENDS HashEncCore, TLC, Json, IOUtils

Lines == ndJsonDeserialize(IOEnv.TRACE_FILE)
N == Len(Lines)
SetOf(seq) == {seq[i] : i \in DOMAIN seq}
StreamOf(e) ==
  IF e.kind = "inp" THEN InpStreamB(e.label, e.shell, SetOf(e.files), SetOf(e.env), SetOf(e.ovr))
  ELSE OutStreamB(SetOf(e.files))

VARIABLES l, out
vars == <<l, out>>
Init == l = 0 /\ out = <<>>
Next ==
  /\ l < N
  /\ l' = l + 1
  /\ out' = Append(out, [id |-> Lines[l + 1].id, stream |-> StreamOf(Lines[l + 1])])
  /\ (l' = N) => JsonSerialize(IOEnv.VERDICT_FILE, [vectors |-> out', n |-> N])
Spec == Init /\ [][Next]_vars
Consumed == TLCGet("stats").diameter - 1 = N
=============================================================================
