SPECIFICATION MSpec
INVARIANT SurvivorsAreHeldStrict
CHECK_DEADLOCK FALSE
