------------------------------ MODULE RelCheck ------------------------------
(***************************************************************************)
(* Relational monitors: each line of IOEnv.TRACE_FILE relates the final    *)
(* (or pre/post) abstract states of two recorded executions of the real    *)
(* director, produced from one history:                                    *)
(*   incr_eq_scratch  (C01)  incremental history  vs  build from scratch   *)
(*   same_final       (C02)  schedule A           vs  schedule B           *)
(*   noop_rebuild     (C04)  before               vs  after a no-op build  *)
(*   cone             (C04)  executed commands    vs  cone of edited files *)
(*   crash_equiv      (C05)  crashed + restarted  vs  uninterrupted        *)
(*   watch_eq_restart (C14)  watch-mode rebuild   vs  restart              *)
(* Verdicts are accumulated and written to IOEnv.VERDICT_FILE.             *)
(***************************************************************************)
EXTENDS Props, Json, IOUtils

Lines == ndJsonDeserialize(IOEnv.TRACE_FILE)
N == Len(Lines)

VARIABLES l, bad, cnt
vars == <<l, bad, cnt>>

RelNames == {"incr_eq_scratch", "same_final", "noop_rebuild", "cone", "crash_equiv",
             "watch_eq_restart", "nontrivial", "clean_tool", "pair_orders"}
Bump(c, name) == [c EXCEPT ![name] = @ + 1]

Mk(e, prop, clauses) ==
  LET RECURSIVE ToSeq(_)
      ToSeq(S) == IF S = {} THEN <<>>
                  ELSE LET x == CHOOSE x \in S : TRUE
                       IN <<[tid |-> e.tid, line |-> e.k, prop |-> prop, clause |-> x[1],
                              subj |-> ToString(x[2]), kf |-> IF Len(x) > 2 THEN x[3] ELSE ""]>>
                          \o ToSeq(S \ {x})
  IN ToSeq(clauses)

Success(rc) == RcClass(rc) = "success"
SeqSet(s) == {s[i] : i \in DOMAIN s}

\* F17: a step definition moves from one plan to another in a single edit.  The new definer runs
\* while the old definer (re-attached with all its products, PENDING because its script changed) has
\* not been rerun yet: the definition is rejected as a duplicate and the new definer FAILS.  With
\* more jobs the old definer may be rerun first and the build succeeds.
StaleDefinerConflict(sd) ==
  \E i \in DOMAIN sd.dup :
     LET w == sd.dup[i][1]
         ab == {sd.dup[i][2], sd.dup[i][3]}
     \* (after the failure the failed plan's products, old definer included, are detached)
     IN /\ w \in Keys(sd.state)
        \* (w itself may have been detached on its own since, which forgets its owner)
        /\ \E c \in ab : /\ sd.state.nodes[w].creator \in {c, NULL}
                          \* (the old definer has not been executed successfully since the edit: it is
                          \* PENDING, or still SUCCEEDED from its former life and detached with the failed plan)
                          /\ c \in Keys(sd.state)
                          /\ \/ sd.state.nodes[c].sstate = "PENDING"
                             \/ sd.state.nodes[c].sstate = "SUCCEEDED" /\ sd.state.nodes[c].detached
                             \* (with keep-going the old definer was rerun after the rejection and gave w up:
                             \* w has no owner any more, which shows that the rejected definition was the only one)
                             \/ sd.state.nodes[c].sstate = "SUCCEEDED" /\ sd.state.nodes[w].creator = NULL
                          /\ \E f \in ab \ {c} : f \in Keys(sd.state) /\ sd.state.nodes[f].sstate = "FAILED"

(* C01 *)
\* F15: the plan stopped declaring a static file that a step still uses; the step is recycled
\* as SUCCEEDED with a detached input, where a build from scratch leaves it PENDING (rc 16)
DoneOnWithdrawnInput(db) ==
  \E s \in Steps(db) : ~db.nodes[s].detached /\ db.nodes[s].sstate = "SUCCEEDED"
     /\ \E f \in Keys(db) : db.nodes[f].kind = "file" /\ db.nodes[f].detached /\ <<f, s>> \in Deps(db)
IncrEqScratch(e) ==
  IF Success(e.b.rc)
  THEN (IF Success(e.a.rc) THEN CanonDiff(e.a.state, e.a.disk, e.b.state, e.b.disk)
        ELSE {<<"incremental_build_not_successful", e.a.rc,
                IF RcClass(e.a.rc) = "failed" /\ StaleDefinerConflict(e.a)
                THEN "F17-step-moved-between-plans-rejected-as-duplicate" ELSE "">>})
  ELSE IF RcClass(e.a.rc) # RcClass(e.b.rc)
       THEN {<<"rc_class_differs", <<e.a.rc, e.b.rc>>,
               IF Success(e.a.rc) /\ RcClass(e.b.rc) = "pending" /\ DoneOnWithdrawnInput(e.a.state)
               THEN "F15-step-done-on-withdrawn-static-input"
               ELSE IF RcClass(e.a.rc) = "failed" /\ StaleDefinerConflict(e.a)
               THEN "F17-step-moved-between-plans-rejected-as-duplicate" ELSE "">>}
  ELSE {}

(* C02 *)
\* F8: a creator that defers on a file whose production needs a step the creator itself created
\* (a cycle through provenance and dependencies): under a schedule in which the created steps
\* do not get to run before the creator is deferred, they stay unsafe for ever.
DeferredCreatorCycle(db) ==
  \E s \in Steps(db) : ~db.nodes[s].detached /\ db.nodes[s].sstate = "PENDING" /\ db.nodes[s].deferred
     /\ \E t \in Products(db, s) : db.nodes[t].kind = "step" /\ ~db.nodes[t].detached
                                   /\ db.nodes[t].sstate = "PENDING"
DeferCapExceeded(db) == \E s \in Steps(db) : db.nodes[s].sstate = "FAILED" /\ db.nodes[s].deferCount >= 100
\* "whether a build succeeds or fails": success against everything else (a build that is cut short
\* after a failure and one that ends with steps pending both did not succeed; which of the two it is
\* depends by design on how often a step is retried before the defer cap is reached)
SameFinal(e) ==
  (IF Success(e.a.rc) # Success(e.b.rc)
   THEN {<<"success_depends_on_schedule", <<e.a.rc, e.b.rc>>,
           IF (RcClass(e.a.rc) = "pending" /\ Success(e.b.rc) /\ DeferredCreatorCycle(e.a.state))
              \/ (RcClass(e.b.rc) = "pending" /\ Success(e.a.rc) /\ DeferredCreatorCycle(e.b.state))
           THEN "F8-deferred-creator-cycle-depends-on-schedule"
           ELSE IF (RcClass(e.a.rc) = "failed" /\ Success(e.b.rc) /\ StaleDefinerConflict(e.a))
                   \/ (RcClass(e.b.rc) = "failed" /\ Success(e.a.rc) /\ StaleDefinerConflict(e.b))
           THEN "F17-step-moved-between-plans-depends-on-schedule"
           \* F15 + F23: a consumer of a former output that nothing produces any more is recycled as done
           \* when the detached file still remembers BUILT, and is pending when a schedule outdated it
           ELSE IF (Success(e.a.rc) /\ DoneOnWithdrawnInput(e.a.state)) \/ (Success(e.b.rc) /\ DoneOnWithdrawnInput(e.b.state))
           THEN "F15-step-done-on-withdrawn-input-depends-on-schedule"
           \* F11: a pattern registered after a step planned a matching output is accepted, the other order is rejected
           ELSE IF (e.a.globprod # <<>> /\ Success(e.b.rc)) \/ (e.b.globprod # <<>> /\ Success(e.a.rc))
           THEN "F11-glob-after-planned-output-depends-on-schedule"
           \* F8: a step that was retried until the defer cap was exceeded under one schedule only
           ELSE IF (~Success(e.a.rc) /\ DeferCapExceeded(e.a.state)) \/ (~Success(e.b.rc) /\ DeferCapExceeded(e.b.state))
           THEN "F8-defer-cap-exceeded-depends-on-schedule" ELSE "">>}
   ELSE {})
  \cup (IF Success(e.a.rc) /\ Success(e.b.rc)
        THEN Canon2Diff(e.a.state, e.b.state)
             \cup {<<c[1], c[2]>> : c \in {c \in CanonDiff(e.a.state, e.a.disk, e.b.state, e.b.disk) :
                                              c[1] = "output_content_differs"}}
        ELSE {})

(* C04 no-op *)
NoopRebuild(e) ==
     (IF e.info.ncmd > 0 THEN {<<"command_executed_without_change", e.info.executed>>} ELSE {})
  \cup {<<"output_rewritten_without_change", p>> : p \in SeqSet(e.info.rewritten)}
  \cup Canon2Diff(e.a.state, e.b.state)
  \cup (IF e.a.rc # e.b.rc THEN {<<"rc_changed_without_change", <<e.a.rc, e.b.rc>>>>} ELSE {})

(* C04 cone: least fixed point over the union of the graphs before and after the rebuild *)
FileKey(p) == "file:" \o p
UDeps(e) == Deps(e.a.state) \cup Deps(e.b.state)
UCreator(e, s) ==
  {c \in {IF s \in Keys(e.a.state) THEN e.a.state.nodes[s].creator ELSE NULL,
          IF s \in Keys(e.b.state) THEN e.b.state.nodes[s].creator ELSE NULL} : c # NULL}
USteps(e) == Steps(e.a.state) \cup Steps(e.b.state)
GlobHit(db, s, X) ==
  s \in Keys(db) /\ \E i \in DOMAIN db.nodes[s].nglobs :
     \E j \in DOMAIN db.nodes[s].nglobs[i][3] : db.nodes[s].nglobs[i][3][j] \in X
\* least fixed point INSIDE the executed set: every executed command must be justified by an
\* edited file (directly or through a pattern), by the output of another executed command, or by
\* having been declared by an executed command
RECURSIVE ConeFix(_, _, _, _)
ConeFix(e, X, ex, E) ==
  LET nxt == {s \in ex :
                \/ s \in E
                \/ \E p \in X : <<FileKey(p), s>> \in UDeps(e)
                \/ GlobHit(e.a.state, s, X) \/ GlobHit(e.b.state, s, X)
                \/ \E t \in E : \E f \in Keys(e.a.state) \cup Keys(e.b.state) :
                       <<t, f>> \in UDeps(e) /\ <<f, s>> \in UDeps(e)
                \/ UCreator(e, s) \cap E # {}
                \* not a rerun: a step without a result before the rebuild (an optional step that
                \* was never built or was reverted) whose output an executed step now consumes
                \/ /\ ~(s \in Keys(e.a.state) /\ e.a.state.nodes[s].sstate = "SUCCEEDED")
                   /\ \E t \in E : \E f \in Keys(e.a.state) \cup Keys(e.b.state) :
                          <<s, f>> \in UDeps(e) /\ <<f, t>> \in UDeps(e)}
  IN IF nxt = E THEN E ELSE ConeFix(e, X, ex, nxt)
Cone(e) ==
  LET X == SeqSet(e.info.edited)
      ex == {"step:" \o x : x \in SeqSet(e.info.executed)}
      cone == ConeFix(e, X, ex, {})
      \* F26: a step with dynamic dependencies below a re-executed plan (declared by a skipped sub-plan
      \* that the executed plan re-declares) is validated while the plan is still re-declaring the static
      \* files it uses; the validation fails and the step is executed although nothing it uses changed
      RECURSIVE UnderCone(_, _)
      UnderCone(s, fuel) == fuel > 0 /\ \E c \in UCreator(e, s) : c \in cone \/ UnderCone(c, fuel - 1)
      val == {"step:" \o x : x \in SeqSet(e.info.validated)}
  IN {<<"executed_outside_cone", s,
        IF s \in val /\ UnderCone(s, 4) THEN "F26-validated-below-a-rerunning-plan-reruns" ELSE "">> : s \in ex \ cone}

(* C05 *)
CrashDiff(e) ==
  (IF RcClass(e.a.rc) # RcClass(e.b.rc) THEN {<<"restart_outcome_differs", <<e.a.rc, e.b.rc>>>>} ELSE {})
  \cup (IF Success(e.a.rc) /\ Success(e.b.rc)
        THEN {IF c[1] = "output_content_differs" /\ c[2] \in SeqSet(e.info.lost_queue)
                    /\ c[2] \notin DOMAIN e.b.disk.files
                 \* F5 seen through the declared (PLANNED) output of a reverted step
                 THEN <<c[1], c[2], "F5-cleanup-queue-lost-in-crash">> ELSE c :
              c \in CanonDiff(e.a.state, e.a.disk, e.b.state, e.b.disk)} ELSE {})
  \cup (IF Success(e.a.rc) /\ Success(e.b.rc)
        THEN {<<"leftover_file_after_restart", p,
                 \* F5: the file was queued for removal in memory only when the process died
                 IF p \in SeqSet(e.info.lost_queue) THEN "F5-cleanup-queue-lost-in-crash" ELSE "">> :
                 p \in (DOMAIN e.a.disk.files) \ (DOMAIN e.b.disk.files)}
        ELSE {})
  \cup {<<"restart_raised", x>> : x \in SeqSet(e.info.errors)}

(* C14 *)
\* F25 seen through this relation: in the restarted (or the reference) build a step was executed twice
\* concurrently after its creator re-defined it while its job was in flight; the second completion finds
\* the output already BUILT (ConsistencyError), so the outcome of that build is not the reference's
\* (and F17: whether a build fails on a step moved between plans depends on the schedule, so the
\* restarted build and the reference may disagree about it)
CrashEquiv(e) ==
  LET f17 == (RcClass(e.a.rc) = "failed" /\ StaleDefinerConflict(e.a)) \/ (RcClass(e.b.rc) = "failed" /\ StaleDefinerConflict(e.b))
      \* only what F25 explains: the crash on the second completion (and the outcome that follows
      \* from it), and the amended dependencies of the re-created step that were lost with the old row
      f25(c) == /\ e.info.double_exec # <<>>
                /\ \/ c[1] \in {"restart_raised", "restart_outcome_differs"} /\ e.info.second_completion
                   \/ c[1] = "active_edges_differ" /\ c[2][3] /\ c[2][2] \in SeqSet(e.info.double_exec)
  IN {IF Len(c) > 2 /\ c[3] # "" THEN c
      ELSE IF f25(c) THEN <<c[1], c[2], "F25-double-execution-in-restarted-build">>
      ELSE IF f17 THEN <<c[1], c[2], "F17-step-moved-between-plans-crash-vs-reference">>
      ELSE c : c \in CrashDiff(e)}

\* F17 seen through this relation: when a plan edit moves a step between plans, whether the build
\* fails depends on the schedule (see StaleDefinerConflict), not on watching versus restarting
\* A build that stops dispatching at the first failure (no keep-going) has executed whichever independent
\* steps the schedule happened to start before: which outputs exist then depends on that build's
\* schedule, not on watching versus restarting.  Graph and tree are compared when both builds are
\* successful or run to the end (keep-going); otherwise the return codes.
WatchComparable(e) == (Success(e.a.rc) /\ Success(e.b.rc)) \/ e.info.keep_going
WatchDiff(e) ==
  (IF e.a.rc # e.b.rc THEN {<<"return_code_differs", <<e.a.rc, e.b.rc>>>>} ELSE {})
  \* in an incomplete build, what a PENDING step amended before the build stopped (and whether it ran at
  \* all) depends on the schedule of that build, not on watching versus restarting
  \cup (IF WatchComparable(e)
        THEN {c \in CanonDiff(e.a.state, e.a.disk, e.b.state, e.b.disk) :
                ~(c[1] = "dynamic_memory_of_pending_step_differs" /\ ~Success(e.a.rc) /\ ~Success(e.b.rc))}
             \cup {<<"disk_differs", p>> : p \in {p \in (DOMAIN e.a.disk.files) \cup (DOMAIN e.b.disk.files) :
                      DiskContent(e.a.disk, p) # DiskContent(e.b.disk, p)}}
        ELSE {})
\* F29: a directory that never existed before is created while watching (below a static tree or inside the
\* fixed part of a pattern): AsyncInotifyWrapper.change_loop installs watches only for directories the
\* workflow asked for, so what is created inside the new directory goes unnoticed; the watch-mode rebuild
\* misses pattern matches that the rescan of a restart finds
GlobMatchesOf(db) ==
  UNION {UNION {{db.nodes[s].nglobs[i][3][j] : j \in DOMAIN db.nodes[s].nglobs[i][3]} : i \in DOMAIN db.nodes[s].nglobs} :
           s \in {s \in Steps(db) : ~db.nodes[s].detached}}
StartsWithDir(d, p) == Len(p) > Len(d) + 1 /\ SubSeq(p, 1, Len(d) + 1) = d \o "/"
MissedUnderNewDirectory(e) ==
  LET newdirs == {ev[2] : ev \in {x \in SeqSet(e.info.events) : Len(x) >= 2 /\ x[1] = "mkdir"}}
      extra == GlobMatchesOf(e.b.state) \ GlobMatchesOf(e.a.state)
  IN extra # {} /\ \A p \in extra : \E d \in newdirs : StartsWithDir(d, p)
WatchEqRestart(e) ==
  IF (RcClass(e.a.rc) = "failed" /\ StaleDefinerConflict(e.a)) \/ (RcClass(e.b.rc) = "failed" /\ StaleDefinerConflict(e.b))
  THEN {<<c[1], c[2], "F17-step-moved-between-plans-watch-vs-restart">> : c \in WatchDiff(e)}
  ELSE IF MissedUnderNewDirectory(e)
  THEN {<<c[1], c[2], "F29-new-directory-not-watched">> : c \in WatchDiff(e)}
  ELSE WatchDiff(e)

(* C06: `stepup clean` on a read-only connection *)
CleanTool(e) ==
  LET db == e.a.state
      before == e.a.disk
      after == e.b.disk
      removed == (DOMAIN before.files) \ (DOMAIN after.files)
      node(p) == "file:" \o p
  IN
     {<<"clean_removed_file_that_is_not_a_recorded_output", p>> : p \in {p \in removed :
          node(p) \notin Keys(db) \/ db.nodes[node(p)].fstate \notin {"BUILT", "OUTDATED", "VOLATILE"}}}
  \cup {<<"clean_removed_modified_output", p>> : p \in {p \in removed :
          ~e.info.unsafe /\ node(p) \in Keys(db) /\ db.nodes[node(p)].fstate \in {"BUILT", "OUTDATED"}
          /\ before.files[p][1] # db.nodes[node(p)].fhash}}
  \cup {<<"clean_removed_attached_output_without_all", p>> : p \in {p \in removed :
          ~e.info.all /\ node(p) \in Keys(db) /\ ~db.nodes[node(p)].detached}}
  \cup {<<"clean_removed_without_commit", p>> : p \in {p \in removed : ~e.info.commit}}
  \cup {<<"clean_changed_a_file", p>> : p \in {p \in (DOMAIN before.files) \cap (DOMAIN after.files) :
          before.files[p] # after.files[p]}}
  \cup {<<"clean_created_a_file", p>> : p \in (DOMAIN after.files) \ (DOMAIN before.files)}
  \cup (IF e.a.state # e.b.state THEN {<<"clean_changed_the_database", "">>} ELSE {})

(* C08 / C02: a pair of declarations in both arrival orders *)
GlobDecls == {"glob_txt", "glob_dtxt", "glob_named", "glob_sub"}
ProductDecls == {"step1_out_b", "step3_out_dnew", "step6_out_b", "step6_vol_b", "amend_out_b", "amend_vol_dnew",
                 "step2_inp_a_out_c", "step7_out_r"}

PairRejected(r) == r.a[1] # "ok" \/ r.b[1] # "ok"
PairComplete(r) == r.a[1] # "none" /\ r.b[1] # "none"
PairOrdersC08(e) ==
  IF ~(PairComplete(e.ab) /\ PairComplete(e.ba)) THEN {}
  ELSE IF PairRejected(e.ab) # PairRejected(e.ba)
       THEN {<<"conflict_rejected_in_one_order_only", <<e.info.decl_a, e.info.decl_b>>,
               \* F11: a pattern is only checked against the matches recorded on disk, so a step
               \* output that does not exist yet is accepted when the step is defined first
               \* (only that direction: the order product-then-pattern is the accepted one)
               IF \/ e.info.a \in GlobDecls /\ e.info.b \in ProductDecls /\ PairRejected(e.ab) /\ ~PairRejected(e.ba)
                  \/ e.info.b \in GlobDecls /\ e.info.a \in ProductDecls /\ PairRejected(e.ba) /\ ~PairRejected(e.ab)
               THEN "F11-glob-after-planned-output-accepted" ELSE "">>}
       ELSE {}
PairOrdersC02(e) ==
  IF ~(PairComplete(e.ab) /\ PairComplete(e.ba)) THEN {}
  \* a genuine conflict between the two: in each order the first is accepted, the second rejected
  ELSE IF e.ab.a[1] = "ok" /\ e.ab.b[1] # "ok" /\ e.ba.b[1] = "ok" /\ e.ba.a[1] # "ok"
          /\ e.ab.b[2] # e.ba.a[2]
       THEN {<<"conflict_message_depends_on_order", <<e.ab.b[2], e.ba.a[2]>>>>}
       ELSE {}

Eval(e) ==
  CASE e.rel = "incr_eq_scratch" -> Mk(e, "C01", IncrEqScratch(e))
    [] e.rel = "same_final" -> Mk(e, "C02", SameFinal(e))
    [] e.rel = "noop_rebuild" -> Mk(e, "C04", NoopRebuild(e))
    [] e.rel = "cone" -> Mk(e, "C04", Cone(e))
    [] e.rel = "crash_equiv" -> Mk(e, "C05", CrashEquiv(e))
    [] e.rel = "watch_eq_restart" -> Mk(e, "C14", WatchEqRestart(e))
    [] e.rel = "clean_tool" -> Mk(e, "C06", CleanTool(e))
    [] e.rel = "pair_orders" -> Mk(e, "C08", PairOrdersC08(e)) \o Mk(e, "C02", PairOrdersC02(e))
    [] OTHER -> <<>>

Init == l = 0 /\ bad = <<>> /\ cnt = [r \in RelNames |-> 0]
Next ==
  /\ l < N
  /\ l' = l + 1
  /\ LET e == Lines[l + 1] IN
       /\ bad' = bad \o Eval(e)
       /\ cnt' = Bump(cnt, e.rel)
  /\ (l' = N) => JsonSerialize(IOEnv.VERDICT_FILE, [bad |-> bad', cnt |-> cnt', lines |-> N])
Spec == Init /\ [][Next]_vars
Consumed == TLCGet("stats").diameter - 1 = N
=============================================================================
