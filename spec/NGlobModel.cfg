SPECIFICATION Spec
CONSTRAINT Bound
INVARIANT IncrementalEqualsScan
INVARIANT RepeatedNameEqual
INVARIANT NamedLikeAnonymous
CHECK_DEADLOCK FALSE
