------------------------------ MODULE WatchSets ------------------------------
(***************************************************************************)
(* What the watcher remembers of one watch phase.                           *)
(*                                                                         *)
(* Watcher.record_change (watcher.py) folds the stream of file-system       *)
(* events of a phase into two sets, `updated` and `deleted`; at the end of  *)
(* the phase exactly the paths in these sets are hashed again and handed to *)
(* process_nglob_changes(deleted, updated).  Whatever the events were, the  *)
(* rebuild can only be equivalent to a restart (C14) if                     *)
(*   Complete        every relevant path whose content or existence differs *)
(*                   from what the workflow recorded is in one of the sets  *)
(*   DeletedAbsent   a path in `deleted` is absent from disk                *)
(*   UpdatedPresent  a path in `updated` is present                         *)
(* One action = one change of the tree together with the items inotify      *)
(* delivers for it (change_loop) and their processing by record_change:     *)
(* Write, Remove, MoveDirAway (one DELETED_PARENT item, no per-file items), *)
(* MakeDir, RestoreDir (the files found by the catch-up listing arrive as   *)
(* UPDATED items).  CancelPairs = TRUE is a seeded change ("an update       *)
(* followed by a delete cancel each other"): TLC finds the path that ends   *)
(* in neither set.                                                          *)
(* Replay mode: sequences evaluated by TLC are fed to the real              *)
(* Watcher.record_change by checks/watchsets.py; the two sets are compared  *)
(* after every item.                                                        *)
(***************************************************************************)
EXTENDS Naturals, Sequences, FiniteSets, TLC, Json, IOUtils

CONSTANTS CancelPairs

Top == {"a"}
Under == {"d/b", "d/c"}
Paths == Top \cup Under
Versions == {"v0", "v1"}

\* every path is a confirmed static file with content v0 (d/c did not exist at the last build: MISSING)
W0 == [disk |-> [p \in Paths |-> IF p = "d/c" THEN "absent" ELSE "v0"],
       rec  |-> [p \in Paths |-> IF p = "d/c" THEN "absent" ELSE "v0"],
       dir  |-> TRUE, upd |-> {}, del |-> {}]

\* record_change, one branch per kind of item (every path of this model is relevant)
RecUpdated(w, p) == IF p \in w.upd THEN w ELSE [w EXCEPT !.upd = @ \cup {p}, !.del = @ \ {p}]
RecDeleted(w, p) ==
  IF p \in w.del THEN w
  ELSE IF CancelPairs /\ p \in w.upd THEN [w EXCEPT !.upd = @ \ {p}]
  ELSE [w EXCEPT !.del = @ \cup {p}, !.upd = @ \ {p}]
\* DELETED_PARENT: relevant_paths_under lists the file nodes below the directory
RECURSIVE RecAll(_, _, _)
RecAll(w, S, del) == IF S = {} THEN w ELSE LET p == CHOOSE p \in S : TRUE IN
  RecAll(IF del THEN (IF p \in w.del THEN w ELSE [w EXCEPT !.del = @ \cup {p}, !.upd = @ \ {p}]) ELSE RecUpdated(w, p), S \ {p}, del)

WriteEn(w, p, v) == (p \in Under => w.dir) /\ w.disk[p] # v
DoWrite(w, p, v) == RecUpdated([w EXCEPT !.disk[p] = v], p)
RemoveEn(w, p) == w.disk[p] # "absent"
DoRemove(w, p) == RecDeleted([w EXCEPT !.disk[p] = "absent"], p)
MoveAwayEn(w) == w.dir
DoMoveAway(w) == RecAll([w EXCEPT !.dir = FALSE, !.disk = [p \in Paths |-> IF p \in Under THEN "absent" ELSE @[p]]], Under, TRUE)
MakeDirEn(w) == ~w.dir
DoMakeDir(w) == [w EXCEPT !.dir = TRUE]
\* a directory with files is moved into place: vs gives the content of each file (or absent)
RestoreEn(w) == ~w.dir
DoRestore(w, vs) ==
  LET w1 == [w EXCEPT !.dir = TRUE, !.disk = [p \in Paths |-> IF p \in Under THEN vs[p] ELSE @[p]]]
  IN RecAll(w1, {p \in Under : vs[p] # "absent"}, FALSE)

(* ------------------------------ model mode ------------------------------ *)
VARIABLES w, n, l, out, ak, cur, acc
vars == <<w, n, l, out, ak, cur, acc>>
MInit == w = W0 /\ n = 0 /\ l = 0 /\ out = <<>> /\ ak = 0 /\ cur = 0 /\ acc = <<>>
MNext ==
  /\ n' = n + 1 /\ UNCHANGED <<l, out, ak, cur, acc>>
  /\ \/ \E p \in Paths, v \in Versions : WriteEn(w, p, v) /\ w' = DoWrite(w, p, v)
     \/ \E p \in Paths : RemoveEn(w, p) /\ w' = DoRemove(w, p)
     \/ MoveAwayEn(w) /\ w' = DoMoveAway(w)
     \/ MakeDirEn(w) /\ w' = DoMakeDir(w)
     \/ RestoreEn(w) /\ \E vs \in [Under -> Versions \cup {"absent"}] : w' = DoRestore(w, vs)
MSpec == MInit /\ [][MNext]_vars
MView == w
MBound == n <= 8
Complete == \A p \in Paths : w.disk[p] # w.rec[p] => p \in w.upd \cup w.del
DeletedAbsent == \A p \in w.del : w.disk[p] = "absent"
UpdatedPresent == \A p \in w.upd : w.disk[p] # "absent"
Disjoint == w.upd \cap w.del = {}

(* -------------------------------- replay -------------------------------- *)
Lines == ndJsonDeserialize(IOEnv.TRACE_FILE)
NL == Len(Lines)
Vs(a) == [p \in Under |-> IF p = "d/b" THEN a.b ELSE a.c]
Apply(h, a) ==
  CASE a.a = "write"   -> IF WriteEn(h, a.p, a.v) THEN <<TRUE, DoWrite(h, a.p, a.v)>> ELSE <<FALSE, h>>
    [] a.a = "remove"  -> IF RemoveEn(h, a.p) THEN <<TRUE, DoRemove(h, a.p)>> ELSE <<FALSE, h>>
    [] a.a = "mvaway"  -> IF MoveAwayEn(h) THEN <<TRUE, DoMoveAway(h)>> ELSE <<FALSE, h>>
    [] a.a = "mkdir"   -> IF MakeDirEn(h) THEN <<TRUE, DoMakeDir(h)>> ELSE <<FALSE, h>>
    [] a.a = "restore" -> IF RestoreEn(h) THEN <<TRUE, DoRestore(h, Vs(a))>> ELSE <<FALSE, h>>
Proj(h) == [upd |-> [p \in Paths |-> p \in h.upd], del |-> [p \in Paths |-> p \in h.del], disk |-> [p \in {"a", "d/b", "d/c"} |-> h.disk[p]], dir |-> h.dir,
            complete |-> \A p \in Paths : h.disk[p] # h.rec[p] => p \in h.upd \cup h.del]
Init == l = 1 /\ out = <<>> /\ w = 0 /\ n = 0 /\ ak = 0 /\ cur = W0 /\ acc = <<>>
Next ==
  /\ l <= NL
  /\ UNCHANGED <<w, n>>
  /\ IF ak < Len(Lines[l].acts)
     THEN LET r == Apply(cur, Lines[l].acts[ak + 1]) IN
          /\ ak' = ak + 1
          /\ cur' = r[2]
          /\ acc' = Append(acc, [enabled |-> r[1], st |-> Proj(r[2])])
          /\ UNCHANGED <<l, out>>
     ELSE /\ out' = Append(out, [id |-> Lines[l].id, states |-> acc])
          /\ l' = l + 1 /\ ak' = 0 /\ cur' = W0 /\ acc' = <<>>
          /\ (l' = NL + 1) => JsonSerialize(IOEnv.VERDICT_FILE, [vectors |-> out', n |-> NL])
Spec == Init /\ [][Next]_vars
Consumed == TLCGet("stats").diameter >= NL
=============================================================================
