------------------------------- MODULE HashEnc -------------------------------
(***************************************************************************)
(* C13 (first half): change detection by hashes is sound.                  *)
(*                                                                         *)
(* A digest is SHA-256 of a byte stream; two configurations share a digest *)
(* exactly when they are encoded as the same stream (SHA-256 is taken to   *)
(* be collision free).  The specification therefore states the encoding of *)
(* hash.py as a function from configurations to byte streams,              *)
(*                                                                         *)
(*   word      = marker, content:   str -> 0 1 utf8 | bytes -> 0 0 raw |   *)
(*                                  None -> 0 2                            *)
(*   inp       = label "__shell__" <flag> "__inp_paths__" files            *)
(*               "__env_vars__" (name value)* "__env_overrides__"          *)
(*               (name value)*            every list sorted by its key     *)
(*   files/out = (path <mode:W> <size:W> <digest>)*  sorted by path        *)
(*                                                                         *)
(* and TLC checks on a domain built from adversarial strings (the section  *)
(* keywords themselves, the empty string) that the function is injective   *)
(* and does not depend on the order in which ingredients are supplied.     *)
(* Digests of existing files are opaque words of fixed width; the digest   *)
(* of an unknown file is the one-byte word "u" (as in FileHash.unknown).    *)
(* Widths are scaled down (mode/size: 2 bytes, digest: 4 bytes).            *)
(*                                                                         *)
(* checks/c13.py replays every configuration of the domain into the real   *)
(* StepHash.from_inp / with_out_hashes with a recording hash object and    *)
(* compares the bytes fed to SHA-256 with Stream(c) (widths unscaled), the *)
(* equality of digests with the equality of streams, and permuted inputs.  *)
(***************************************************************************)
EXTENDS HashEncCore, TLC

Ord == [c \in {"_", "a", "b", "e", "h", "i", "l", "n", "o", "p", "r", "s", "t", "v", "d"} |->
          CASE c = "_" -> 95 [] c = "a" -> 97 [] c = "b" -> 98 [] c = "d" -> 100 [] c = "e" -> 101
            [] c = "h" -> 104 [] c = "i" -> 105 [] c = "l" -> 108 [] c = "n" -> 110 [] c = "o" -> 111
            [] c = "p" -> 112 [] c = "r" -> 114 [] c = "s" -> 115 [] c = "t" -> 116 [] c = "v" -> 118]
StrBytes(s) == [i \in 1..Len(s) |-> Ord[SubSeq(s, i, i)]]

KwShell == "__shell__"
KwInp == "__inp_paths__"
KwEnv == "__env_vars__"
KwOvr == "__env_overrides__"
ASSUME StrBytes(KwShell) = KwShellB /\ StrBytes(KwInp) = KwInpB /\ StrBytes(KwEnv) = KwEnvB /\ StrBytes(KwOvr) = KwOvrB

None == "NONE"           \* an undefined environment variable (not a string of the domain)

\* file hashes: [digest, mode, size]; widths scaled down
Unknown == [digest |-> <<117>>, mode |-> <<0, 0>>, size |-> <<0, 0>>]
D1 == <<200, 201, 202, 203>>
D2 == <<200, 201, 202, 204>>
FileHashes == {Unknown,
               [digest |-> D1, mode |-> <<129, 164>>, size |-> <<0, 3>>],
               [digest |-> D2, mode |-> <<129, 164>>, size |-> <<0, 3>>],
               [digest |-> D1, mode |-> <<129, 237>>, size |-> <<0, 3>>],
               [digest |-> D1, mode |-> <<129, 164>>, size |-> <<1, 3>>]}

FileEntries(f) == {<<StrBytes(p), f[p].mode, f[p].size, f[p].digest>> : p \in DOMAIN f}
PairEntries(m) == {<<StrBytes(n), m[n] # None, IF m[n] = None THEN <<>> ELSE StrBytes(m[n])>> : n \in DOMAIN m}
InpStream(x) == InpStreamB(StrBytes(x.label), x.shell, FileEntries(x.inp), PairEntries(x.env), PairEntries(x.ovr))
OutStream(f) == OutStreamB(FileEntries(f))

(* ------------------------------- the domain ------------------------------- *)
CONSTANTS Labels, Paths, EnvNames, EnvValues, OvrNames, OvrValues, HashChoice
PartialFns(D, R) == UNION {[X -> R] : X \in SUBSET D}
Hashes == IF HashChoice = "all" THEN FileHashes ELSE {Unknown, [digest |-> D1, mode |-> <<129, 164>>, size |-> <<0, 3>>]}
Configs == [label : Labels, shell : BOOLEAN, inp : PartialFns(Paths, Hashes),
            env : PartialFns(EnvNames, EnvValues \cup {None}), ovr : PartialFns(OvrNames, OvrValues)]
OutConfigs == PartialFns(Paths, FileHashes)

(* Injectivity is checked in linear time: every configuration of a sub-domain is one state, the   *)
(* VIEW of a state is its stream, so two configurations with the same stream are one distinct   *)
(* state; the post-condition compares the number of distinct states with the number of          *)
(* configurations.  Two sub-domains are checked.  Together they cover every pair of             *)
(* configurations except those related by KwConfusion, the known finding F22: an environment    *)
(* variable NAMED like the overrides keyword against an override whose VALUE is that keyword.   *)
CONSTANT Part
NoEnvNamedKw == {x \in Configs : KwOvr \notin DOMAIN x.env}
NoOvrValueKw == {x \in Configs : \A n \in DOMAIN x.ovr : x.ovr[n] # KwOvr}
Domain == CASE Part = "NoEnvNamedKw" -> NoEnvNamedKw
            [] Part = "NoOvrValueKw" -> NoOvrValueKw
            [] Part = "All" -> Configs
KwConfusion(x, y) ==
  \/ KwOvr \in DOMAIN x.env /\ (\E n \in DOMAIN y.ovr : y.ovr[n] = KwOvr)
  \/ KwOvr \in DOMAIN y.env /\ (\E n \in DOMAIN x.ovr : x.ovr[n] = KwOvr)
\* (a pair x, y that lies in neither sub-domain together has, say, x outside NoEnvNamedKw and y
\* outside NoOvrValueKw, which is KwConfusion(x, y) by definition)

Dummy == [label |-> "DUMMY"]
VARIABLE c
Init == c = Dummy
Next == c = Dummy /\ c' \in Domain
Spec == Init /\ [][Next]_c
View == IF c.label = "DUMMY" THEN <<999>> ELSE InpStream(c)
Injective == TLCGet("distinct") = Cardinality(Domain) + 1

\* the output digest: all maps from paths to file hashes (same variable, other specification)
OInit == c = Dummy
ONext == c = Dummy /\ c' \in [out : OutConfigs]
OSpec == OInit /\ [][ONext]_c
OView == IF "label" \in DOMAIN c THEN <<999>> ELSE OutStream(c.out)
OInjective == TLCGet("distinct") = Cardinality(OutConfigs) + 1
=============================================================================
