SPECIFICATION Spec
CONSTANTS
  CancelPairs = FALSE
POSTCONDITION Consumed
CHECK_DEADLOCK FALSE
