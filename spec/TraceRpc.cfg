SPECIFICATION TSpec
CONSTANT NCalls = 3
INVARIANT AtMostOneReply
INVARIANT ReplyCarriesOwnId
INVARIANT ErrorClassPreserved
INVARIANT OnlyExposed
INVARIANT AppliedDespiteDisconnect
INVARIANT ExactlyOneReply
INVARIANT ServerSurvives
CONSTRAINT Progress
POSTCONDITION Accepted
CHECK_DEADLOCK FALSE
