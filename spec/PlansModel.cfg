SPECIFICATION MSpec
VIEW MView
CONSTRAINT MBound
INVARIANT OwnerOK
CHECK_DEADLOCK FALSE
