SPECIFICATION MSpec
CONSTANTS
  Tasks = {"t1", "t2", "t3"}
  Keys = {1, 2}
  MaxOps = 12
INVARIANT OneHolder
INVARIANT QueueIsWaiters
INVARIANT UncommittedBelongsToHolder
PROPERTY CommitOnly
PROPERTY FreshStart
PROPERTY Fifo
PROPERTY NoBarging
CHECK_DEADLOCK FALSE
