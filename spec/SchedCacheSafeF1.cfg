SPECIFICATION MSpec
CONSTANTS
  N = 3
  MaxDirty = 2
  States = {"P", "R", "F"}
  Needs = {2}
  MaxHold = 1
  EnableOut = FALSE
  EnableCons = FALSE
  UseMin = TRUE
  FlagProducerOnEdgeLoss = TRUE
INVARIANT CacheExactSafe
INVARIANT CacheExactAfter
INVARIANT CacheExactReady
INVARIANT TreeWellFormed
CHECK_DEADLOCK FALSE
