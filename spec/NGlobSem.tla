------------------------------- MODULE NGlobSem -------------------------------
(***************************************************************************)
(* C17: named glob matching is consistent with the file system and with    *)
(* itself.                                                                 *)
(*                                                                         *)
(* The specification gives the meaning of a named glob pattern directly on *)
(* path components (no regular expressions, no string surgery):            *)
(*                                                                         *)
(*   pattern   = sequence of components, optionally closed by a separator  *)
(*   component = the recursive wildcard `**`, or a sequence of tokens      *)
(*   token     = literal character | `*` | `?` | `[...]` | `${*name}`      *)
(*                                                                         *)
(* A token sequence is matched against ONE path component (components are  *)
(* never empty and never contain the separator); `**` stands for any       *)
(* number of components, including none; a named wildcard stands for what  *)
(* its substitution (default `*`) matches and every occurrence of the same *)
(* name stands for the same string.  A directory is a path like any other; *)
(* a pattern that is closed by a separator, or whose `**` is matched by    *)
(* nothing at the very end, only accepts directories.  Hidden entries are  *)
(* ordinary entries.  This is the standard recursive glob (Python's        *)
(* glob(recursive=True, include_hidden=True)) extended with names.         *)
(*                                                                         *)
(* Mode "vectors": TLC evaluates Accept for every pattern of the input     *)
(* file on a universe of paths and writes the accepted sets; checks/c17.py *)
(* replays them into the real NamedGlob on real directory trees.           *)
(* Mode "model" (NGlobModel.cfg): the incremental maintenance of a match   *)
(* set (extend/reduce) is model checked against a fresh scan.              *)
(***************************************************************************)
EXTENDS Naturals, Sequences, FiniteSets, TLC

Chr(s, i) == SubSeq(s, i, i)
Rest(s, k) == SubSeq(s, k + 1, Len(s))
NoEnv == [n \in {} |-> ""]
InCls(c, cs) == \E i \in 1..Len(cs) : Chr(cs, i) = c
Star == [t |-> "star"]

\* the substitution of a named wildcard: a token sequence without names; default `*`
SubOf(subs, n) ==
  IF \E i \in DOMAIN subs : subs[i][1] = n
  THEN subs[CHOOSE i \in DOMAIN subs : subs[i][1] = n][2]
  ELSE <<Star>>

(* Tokens against one component.  The result is the set of bindings of names *)
(* (functions name -> string) under which the component is matched.          *)
RECURSIVE MT(_, _, _, _)
MT(toks, s, env, subs) ==
  IF toks = <<>> THEN (IF Len(s) = 0 THEN {env} ELSE {})
  ELSE LET h == Head(toks)
           tl == Tail(toks)
       IN CASE h.t = "lit" ->
                 IF Len(s) >= 1 /\ Chr(s, 1) = h.c THEN MT(tl, Rest(s, 1), env, subs) ELSE {}
            [] h.t = "q" ->
                 IF Len(s) >= 1 THEN MT(tl, Rest(s, 1), env, subs) ELSE {}
            [] h.t = "cls" ->
                 IF Len(s) >= 1 /\ (InCls(Chr(s, 1), h.cs) # h.neg) THEN MT(tl, Rest(s, 1), env, subs) ELSE {}
            [] h.t = "star" ->
                 UNION {MT(tl, Rest(s, k), env, subs) : k \in 0..Len(s)}
            [] h.t = "name" ->
                 IF h.n \in DOMAIN env
                 THEN LET v == env[h.n]
                      IN IF Len(s) >= Len(v) /\ SubSeq(s, 1, Len(v)) = v
                         THEN MT(tl, Rest(s, Len(v)), env, subs) ELSE {}
                 ELSE UNION {IF MT(SubOf(subs, h.n), SubSeq(s, 1, k), NoEnv, <<>>) # {}
                             THEN MT(tl, Rest(s, k), env @@ (h.n :> SubSeq(s, 1, k)), subs)
                             ELSE {} : k \in 0..Len(s)}

(* Components against a path (a non-empty sequence of components) of the given kind *)
RECURSIVE MC(_, _, _, _, _)
MC(comps, pc, kind, env, subs) ==
  IF comps = <<>> THEN pc = <<>>
  ELSE LET h == Head(comps)
           tl == Tail(comps)
       IN IF h.d
          THEN \/ \E k \in 1..Len(pc) : MC(tl, SubSeq(pc, k + 1, Len(pc)), kind, env, subs)
               \* `**` stands for nothing: fine in the middle of a path; at its end it denotes
               \* the directory reached so far
               \/ /\ pc # <<>> \/ kind = "dir"
                  /\ MC(tl, pc, kind, env, subs)
          ELSE /\ pc # <<>>
               /\ \E e \in MT(h.toks, Head(pc), env, subs) : MC(tl, Tail(pc), kind, e, subs)

Accept(P, pc, kind) ==
  /\ Len(pc) >= 1
  /\ P.tslash => kind = "dir"
  /\ MC(P.comps, pc, kind, NoEnv, P.subs)

(* ------------------------- named deviations of the implementation ------------------------- *)
(* F18 (known finding): the implementation records a directory only for a pattern that is      *)
(* closed by a separator, ends in `**`, or whose last token is a `*` or the first occurrence   *)
(* of a name with the default substitution; for any other ending (`?`, a class, a literal, a   *)
(* substituted or repeated name) the standard glob returns the directory and it is dropped.    *)
LastComp(P) == P.comps[Len(P.comps)]
TokNames(toks) == {toks[i].n : i \in {i \in DOMAIN toks : toks[i].t = "name"}}
NamesBeforeLast(P) ==
  UNION {TokNames(P.comps[i].toks) : i \in {i \in 1..(Len(P.comps) - 1) : ~P.comps[i].d}}
  \cup (IF LastComp(P).d THEN {} ELSE TokNames(SubSeq(LastComp(P).toks, 1, Len(LastComp(P).toks) - 1)))
DirRecordable(P) ==
  \/ P.tslash
  \/ LastComp(P).d
  \/ LET toks == LastComp(P).toks
         t == toks[Len(toks)]
     IN \/ t.t = "star"
        \/ t.t = "name" /\ SubOf(P.subs, t.n) = <<Star>> /\ t.n \notin NamesBeforeLast(P)
AcceptBuilt(P, pc, kind) == Accept(P, pc, kind) /\ (kind = "dir" => DirRecordable(P))

\* the bindings of the names of P under which the path is accepted (for repeated names)
RECURSIVE MCE(_, _, _, _, _)
MCE(comps, pc, kind, env, subs) ==
  IF comps = <<>> THEN (IF pc = <<>> THEN {env} ELSE {})
  ELSE LET h == Head(comps)
           tl == Tail(comps)
       IN IF h.d
          THEN UNION {MCE(tl, SubSeq(pc, k + 1, Len(pc)), kind, env, subs) : k \in 1..Len(pc)}
               \cup (IF pc # <<>> \/ kind = "dir" THEN MCE(tl, pc, kind, env, subs) ELSE {})
          ELSE IF pc = <<>> THEN {}
               ELSE UNION {MCE(tl, Tail(pc), kind, e, subs) : e \in MT(h.toks, Head(pc), env, subs)}

(* F19 (known finding): the matcher (regular expression) of a pattern whose last component is  *)
(* made of two or more wildcards that can all be empty also accepts the directory that the     *)
(* rest of the pattern denotes, as if that last component were empty: `a?/*${*y}` accepts      *)
(* `ab/`.  A scan never returns such a path; extend()/matches_any_glob() do accept it.         *)
StarLikeFirst(P, t) == t.t = "star" \/ (t.t = "name" /\ SubOf(P.subs, t.n) = <<Star>> /\ t.n \notin NamesBeforeLast(P))
EmptyTailDir(P, pc) ==
  /\ ~P.tslash /\ Len(P.comps) >= 2 /\ ~LastComp(P).d
  \* the one case the translation protects: a lone `*` / unsubstituted first name after a literal separator
  /\ ~(Len(LastComp(P).toks) = 1 /\ StarLikeFirst(P, LastComp(P).toks[1]) /\ ~P.comps[Len(P.comps) - 1].d)
  /\ \E e \in MCE(SubSeq(P.comps, 1, Len(P.comps) - 1), pc, "dir", NoEnv, P.subs) :
        MT(LastComp(P).toks, "", e, P.subs) # {}

(* --------------------------- the matcher as built (regular expression) --------------------------- *)
(* convert_nglob_to_regex turns the pattern into one regular expression over the whole path      *)
(* string (separators included; a directory carries a trailing separator).  AM transcribes that  *)
(* translation item by item, including the places where it departs from the meaning above:      *)
(*   - a lone `*` / unsubstituted first name gets a lower bound of one character only when it is  *)
(*     enclosed by literal separators or ends the pattern after one (F19: every other way of     *)
(*     matching a component by nothing is accepted);                                              *)
(*   - a negated class is `[^...]` and therefore also matches the separator (F20);               *)
(*   - the optional trailing separator of a directory is only allowed after a `*`-like last      *)
(*     token (F18).                                                                               *)
NoSlash(s) == \A i \in 1..Len(s) : Chr(s, i) # "/"
NComps(P) == Len(P.comps)

\* the pattern as a flat sequence of tokens with the context the translation looks at
RECURSIVE FlatFrom(_, _)
FlatFrom(P, i) ==
  IF i > NComps(P) THEN (IF P.tslash /\ ~P.comps[NComps(P)].d THEN <<[t |-> "sep"]>> ELSE <<>>)
  ELSE LET c == P.comps[i] IN
       IF c.d
       THEN IF i = NComps(P) THEN (IF P.tslash THEN <<[t |-> "anydirs"]>> ELSE <<[t |-> "any"]>>)
            ELSE <<[t |-> "anydirs"]>> \o FlatFrom(P, i + 1)
       ELSE [j \in 1..Len(c.toks) |->
               [t |-> "tok", tok |-> c.toks[j],
                solo |-> Len(c.toks) = 1,
                encl |-> i > 1 /\ ~P.comps[i - 1].d /\ (i < NComps(P) \/ P.tslash),
                final |-> i = NComps(P) /\ ~P.tslash /\ j = Len(c.toks),
                prevtext |-> i > 1 /\ ~P.comps[i - 1].d]]
            \o (IF i < NComps(P) THEN <<[t |-> "sep"]>> ELSE <<>>)
            \o FlatFrom(P, i + 1)

\* a literal "/" precedes `**/` in the source text but belongs to the text part before it
StarMin(r) == IF r.solo /\ r.encl THEN 1 ELSE IF r.final /\ r.solo /\ r.prevtext THEN 1 ELSE 0

RECURSIVE SubItems(_)
SubItems(toks) ==
  IF toks = <<>> THEN <<>>
  ELSE LET h == Head(toks) IN
       <<CASE h.t = "lit" -> [k |-> "lit", c |-> h.c]
           [] h.t = "q" -> [k |-> "q"]
           [] h.t = "cls" -> [k |-> "cls", cs |-> h.cs, neg |-> h.neg]
           [] h.t = "star" -> [k |-> "star", min |-> 0]>> \o SubItems(Tail(toks))

RECURSIVE Conv(_, _, _)
Conv(flat, seen, subs) ==
  IF flat = <<>> THEN <<>>
  ELSE LET r == Head(flat)
           rest == Tail(flat)
       IN CASE r.t = "sep" -> <<[k |-> "sep"]>> \o Conv(rest, seen, subs)
            [] r.t = "any" -> <<[k |-> "any"]>> \o Conv(rest, seen, subs)
            [] r.t = "anydirs" ->
                 \* `**/`: the separator after it is part of the item
                 <<[k |-> "anydirs"]>> \o Conv(IF rest # <<>> /\ Head(rest).t = "sep" THEN Tail(rest) ELSE rest, seen, subs)
            [] r.t = "tok" ->
                 LET h == r.tok IN
                 CASE h.t = "lit" -> <<[k |-> "lit", c |-> h.c]>> \o Conv(rest, seen, subs)
                   [] h.t = "q" -> <<[k |-> "q"]>> \o Conv(rest, seen, subs)
                   [] h.t = "cls" -> <<[k |-> "cls", cs |-> h.cs, neg |-> h.neg]>> \o Conv(rest, seen, subs)
                   [] h.t = "star" ->
                        <<[k |-> "star", min |-> StarMin(r)]>>
                        \o (IF r.final THEN <<[k |-> "opt"]>> ELSE <<>>) \o Conv(rest, seen, subs)
                   [] h.t = "name" ->
                        IF h.n \in seen THEN <<[k |-> "ref", n |-> h.n]>> \o Conv(rest, seen, subs)
                        ELSE LET starlike == SubOf(subs, h.n) = <<Star>> IN
                             <<[k |-> "name", n |-> h.n,
                                sub |-> IF starlike THEN <<[k |-> "star", min |-> StarMin(r)]>>
                                        ELSE SubItems(SubOf(subs, h.n))]>>
                             \o (IF starlike /\ r.final THEN <<[k |-> "opt"]>> ELSE <<>>)
                             \o Conv(rest, seen \cup {h.n}, subs)

Items(P) == Conv(FlatFrom(P, 1), {}, P.subs)

\* full match of the items against the string; the result is the set of bindings
RECURSIVE MF(_, _, _)
MF(items, s, env) ==
  IF items = <<>> THEN (IF Len(s) = 0 THEN {env} ELSE {})
  ELSE LET h == Head(items)
           tl == Tail(items)
           One(ok) == IF Len(s) >= 1 /\ ok THEN MF(tl, Rest(s, 1), env) ELSE {}
       IN CASE h.k = "sep" -> One(Len(s) >= 1 /\ Chr(s, 1) = "/")
            [] h.k = "lit" -> One(Len(s) >= 1 /\ Chr(s, 1) = h.c)
            [] h.k = "q" -> One(Len(s) >= 1 /\ Chr(s, 1) # "/")
            [] h.k = "cls" -> One(Len(s) >= 1 /\ (InCls(Chr(s, 1), h.cs) # h.neg))
            [] h.k = "star" -> UNION {IF NoSlash(SubSeq(s, 1, k)) THEN MF(tl, Rest(s, k), env) ELSE {} : k \in h.min..Len(s)}
            [] h.k = "any" -> UNION {MF(tl, Rest(s, k), env) : k \in 0..Len(s)}
            [] h.k = "anydirs" -> UNION {IF k = 0 \/ Chr(s, k) = "/" THEN MF(tl, Rest(s, k), env) ELSE {} : k \in 0..Len(s)}
            [] h.k = "opt" -> MF(tl, s, env) \cup (IF Len(s) >= 1 /\ Chr(s, 1) = "/" THEN MF(tl, Rest(s, 1), env) ELSE {})
            [] h.k = "ref" -> LET v == env[h.n] IN
                              IF Len(s) >= Len(v) /\ SubSeq(s, 1, Len(v)) = v THEN MF(tl, Rest(s, Len(v)), env) ELSE {}
            [] h.k = "name" -> UNION {IF MF(h.sub, SubSeq(s, 1, k), NoEnv) # {}
                                      THEN MF(tl, Rest(s, k), env @@ (h.n :> SubSeq(s, 1, k))) ELSE {} : k \in 0..Len(s)}

AM(P, s) == MF(Items(P), s, NoEnv)
=============================================================================
