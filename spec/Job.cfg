SPECIFICATION Spec
CONSTANTS
  MaxV = 4
  MaxB = 3
  Cap = 2
  Envs = {0, 1, 2}
  CheckOut = TRUE
  DropHash = TRUE
POSTCONDITION Consumed
CHECK_DEADLOCK FALSE
