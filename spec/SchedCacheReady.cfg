SPECIFICATION MSpec
CONSTANTS
  N = 3
  MaxDirty = 1
  States = {"P", "S"}
  Needs = {2}
  MaxHold = 0
  EnableOut = TRUE
  EnableCons = TRUE
  UseMin = FALSE
  FlagProducerOnEdgeLoss = TRUE
INVARIANT CacheExactSafe
INVARIANT CacheExactAfter
INVARIANT CacheExactReady
INVARIANT TreeWellFormed
CHECK_DEADLOCK FALSE
