----------------------------- MODULE TraceCheck -----------------------------
(***************************************************************************)
(* Trace validation of recorded executions of the real StepUp director     *)
(* (Layer B: in process; Layer P: real processes) against the property     *)
(* monitors of Props.tla.                                                  *)
(*                                                                         *)
(* The trace file (IOEnv.TRACE_FILE, NDJSON) is a batch of many recorded   *)
(* executions; every line carries "tid".  The behaviour of this spec is    *)
(* deterministic: one step per line.  Violations are accumulated in `bad`  *)
(* (never stopping TLC) and written to IOEnv.VERDICT_FILE when the last    *)
(* line has been consumed, together with the per-clause evaluation counts  *)
(* (a clause that was never evaluated is vacuous, and the harness treats   *)
(* that as a machinery failure, not as a pass).                            *)
(***************************************************************************)
EXTENDS Props, Json, IOUtils

TraceLog == ndJsonDeserialize(IOEnv.TRACE_FILE)
N == Len(TraceLog)

VARIABLES l,      \* number of lines consumed
          st,     \* last committed database state of the current trace (or NoState)
          aux,    \* ghost state of the current trace
          bad,    \* sequence of [tid, line, prop, clause, info]
          cnt     \* evaluation counters: [name -> Nat]
vars == <<l, st, aux, bad, cnt>>

NoState == [nodes |-> [r \in {ROOT} |-> [kind |-> "none"]], deps |-> <<>>, none |-> TRUE]
IsNoState(s) == "none" \in DOMAIN s

EmptyFn == [x \in {} |-> 0]
MemInit == [targets |-> {}, targetDirs |-> {}, avail |-> EmptyFn, njob |-> 1, cap |-> 100,
            clean |-> TRUE, keepGoing |-> FALSE]
AuxInit == [tid |-> "", mem |-> MemInit,
            running |-> {},      \* {<<job, stepKey>>} commands in flight
            inflight |-> {},     \* step keys popped and not yet settled
            neededAtPop |-> {},  \* step keys that were needed (by definition) when they were dispatched
            readyAtPop |-> {},   \* step keys whose inputs were all available when they were dispatched
            redefInflight |-> {},  \* step keys whose row was re-created by define_step while their job was in flight (F25)
            holdDepth |-> EmptyFn,   \* stepKey -> open holds (>0 only)
            heldBy |-> EmptyFn,      \* child stepKey -> holding creator stepKey
            rpcOpen |-> EmptyFn,     \* task -> number of state-changing commits so far
            rpcDepth |-> EmptyFn,    \* task -> nesting depth of request handlers
            decl |-> EmptyFn,        \* stepKey -> declaration of the last accepted define_step
            cmdStartAt |-> EmptyFn,  \* job -> line of its cmd_start
            jobStep |-> EmptyFn,     \* job -> stepKey
            succeededAt |-> EmptyFn, \* stepKey -> line of the commit that made it SUCCEEDED (this lifetime)
            cmdEndedAt |-> EmptyFn,  \* stepKey -> line of the last end of its command (this lifetime)
            reads |-> EmptyFn,       \* job -> set of <<path, content>> read by the running command
            finalReads |-> EmptyFn,  \* stepKey -> reads of its last successful command in this phase
            tainted |-> {},          \* jobs whose declared/amended input changed while they ran
            taintPath |-> EmptyFn,   \* job -> path whose change tainted it
            refreshed |-> {},        \* paths whose recorded content was replaced while a tainted job ran
            refreshedPhase |-> {},   \* the same, kept until the end of the phase
            inputChanged |-> FALSE,  \* an input changed underneath a running step in this phase
            produced |-> EmptyFn,    \* path -> content last written by the step that declared it as output
            volatileEver |-> {},     \* paths ever declared volatile
            diskBefore |-> EmptyFn,  \* files on disk when the last phase ended (before clean-up)
            recordedBefore |-> EmptyFn,  \* path -> content StepUp had recorded for it when the last phase ended
            phaseRc |-> 0,
            released |-> {},         \* steps that closed their outermost hold in this lifetime
            lostEdge |-> {},         \* files that lost a consumer edge in this trace
            inTxn |-> FALSE,
            txnSubmits |-> <<>>,     \* paths for which a hash job was queued inside the open transaction
            draining |-> FALSE,
            dispatchedAfterFail |-> FALSE,
            failedOnChange |-> FALSE,
            failReporter |-> EmptyFn]   \* stepKey -> the task that reported its failure in this phase   \* a step failed in this phase after one of its inputs changed while it ran

CounterNames == {"amend", "read", "final_reads_checked", "tainted", "finalize_end", "removed_files", "write", "commit", "wellformed", "transition", "pop_dispatch", "pop_none", "cmd_start",
                 "phase_end", "rpc_reject", "rpc_ok", "hold", "traces", "pop_none_with_eligible", "hash_submit"}
CntInit == [c \in CounterNames |-> 0]
Bump(c, name) == [c EXCEPT ![name] = @ + 1]

StepKey(label) == "step:" \o label
SeqToSet(s) == {s[i] : i \in DOMAIN s}
SeqSet2(s) == {s[i] : i \in DOMAIN s}
FnOf(pairs) == \* sequence of <<name, units>> -> function
  [n \in {pairs[i][1] : i \in DOMAIN pairs} |->
      pairs[CHOOSE i \in DOMAIN pairs : pairs[i][1] = n][2]]
Restrict(f, D) == [x \in (DOMAIN f) \cap D |-> f[x]]
Put(f, k, v) == [x \in (DOMAIN f) \cup {k} |-> IF x = k THEN v ELSE f[x]]
Drop(f, k) == [x \in (DOMAIN f) \ {k} |-> f[x]]

Mk(e, lineNo, prop, clauses) ==
  \* one record per violated clause, in a deterministic order
  LET RECURSIVE ToSeq(_)
      ToSeq(S) == IF S = {} THEN <<>>
                  ELSE LET x == CHOOSE x \in S : TRUE
                       IN <<[tid |-> e.tid, line |-> e.k, prop |-> prop, clause |-> x[1],
                              subj |-> ToString(x[2]), kf |-> IF Len(x) > 2 THEN x[3] ELSE ""]>>
                          \o ToSeq(S \ {x})
  IN ToSeq(clauses)

(* ----------------------------- event handlers ---------------------------- *)

MemOf(e) ==
  [targets |-> SeqToSet(e.cfg.targets),
   targetDirs |-> SeqToSet(e.cfg.target_dirs),
   avail |-> FnOf(e.cfg.avail),
   njob |-> e.cfg.njob, cap |-> e.cfg.defer_cap,
   clean |-> e.cfg.clean, keepGoing |-> e.cfg.keep_going]

OnProcStart(e) ==
  /\ aux' = [AuxInit EXCEPT !.tid = e.tid, !.mem = MemOf(e),
                            !.lostEdge = IF e.tid = aux.tid /\ ~e.fresh THEN aux.lostEdge ELSE {},
                            !.decl = IF e.tid = aux.tid /\ ~e.fresh THEN aux.decl ELSE EmptyFn,
                            !.produced = IF e.tid = aux.tid /\ ~e.fresh THEN aux.produced ELSE EmptyFn,
                            !.volatileEver = IF e.tid = aux.tid /\ ~e.fresh THEN aux.volatileEver ELSE {}]
  /\ st' = IF e.tid = aux.tid /\ ~e.fresh THEN st ELSE NoState
  /\ bad' = bad
  /\ cnt' = IF e.tid = aux.tid THEN cnt ELSE Bump(cnt, "traces")

(* ---- known-finding shapes (see known_findings.json; a shape only labels, it never hides) ---- *)
RECURSIVE Ancestors(_, _)
Ancestors(db, s) ==
  LET c == Up(db, s) IN IF c = NULL \/ ~IsStepKey(db, c) THEN {} ELSE {c} \cup Ancestors(db, c)

\* F1: after release(), a step below a child of the former holder keeps a stale _safe = 0
ShapeStaleSafeAfterRelease(db, s) ==
  /\ s \in Steps(db) /\ ~db.nodes[s].safe /\ SafeDef(db, s)
  /\ \E a \in Ancestors(db, s) \cap aux.released :
        db.nodes[a].sstate = "RUNNING" /\ a # Up(db, s)

\* F2: a producer keeps an elevated _implied_need after a consumer edge of its output was dropped
ShapeStaleNeedAfterEdgeLoss(db, s) ==
  /\ s \in Steps(db)
  /\ NeedRank(db.nodes[s].impliedNeed) >
       ImpliedNeedDef(db, aux.mem, s, Cardinality(Steps(db)) + 1)
  /\ \E f \in Sinks(db, s) : f \in aux.lostEdge

Classify(db, viols) ==
  {IF v[1] \in {"cache_safe", "cache_weak_safe"} /\ ShapeStaleSafeAfterRelease(db, v[2])
     THEN <<v[1], v[2], "F1-stale-safe-after-release">>
   ELSE IF v[1] = "cache_implied_need" /\ ShapeStaleNeedAfterEdgeLoss(db, v[2])
     THEN <<v[1], v[2], "F2-stale-implied-need-after-edge-loss">>
   ELSE v : v \in viols}

\* F25, second consequence: the completion of the job that was in flight is applied to the row
\* that define_step re-created meanwhile: PENDING -> SUCCEEDED/FAILED without a dispatch, and a
\* SUCCEEDED step whose re-created outputs are not BUILT
LabelRedef(old, new, viols) ==
  {IF /\ v[2] \in aux.redefInflight
      /\ \/ v[1] = "succeeded_outputs_built"
         \/ /\ v[1] = "step_move" /\ ~IsNoState(old) /\ v[2] \in Keys(old)
            /\ old.nodes[v[2]].sstate = "PENDING" /\ new.nodes[v[2]].sstate \in {"SUCCEEDED", "FAILED"}
   THEN <<v[1], v[2], "F25-step-redefined-while-its-job-is-in-flight">> ELSE v : v \in viols}

SettleInflight(old, new, infl) ==
  {s \in infl : s \in Keys(new) /\ s \in Keys(old)
       /\ ~(old.nodes[s].sstate \in {"RUNNING", "CHECKING"}
            /\ new.nodes[s].sstate \notin {"RUNNING", "CHECKING"})
       /\ ~(old.nodes[s].sstate = "PENDING" /\ new.nodes[s].sstate \in {"SUCCEEDED", "FAILED"})}

OnCommit(e, lineNo) ==
  IF e.same THEN
    /\ UNCHANGED <<st, bad>>
    /\ aux' = [aux EXCEPT !.inTxn = FALSE,
                           \* (the watch on a reported failure ends with the reporting task's next commit)
                           !.failReporter = Restrict(@, {s \in DOMAIN @ : @[s] # e.task})]
    /\ cnt' = Bump(cnt, "commit")
  ELSE
    LET new == e.state
        wf == WellFormedViolations(new)
        own == OwnershipViolations(new)
        cw == CacheWeakViolations(new)
        tr == IF IsNoState(st) THEN {} ELSE TransitionViolations(st, new, aux.inflight)
        df == IF IsNoState(st) THEN {} ELSE DeferViolations(st, new, aux.mem.cap)
        task == e.task
        \* steps that became SUCCEEDED in this commit
        nowOk == IF IsNoState(st) THEN {} ELSE
                 {s \in Steps(new) : new.nodes[s].sstate = "SUCCEEDED"
                      /\ (s \notin Keys(st) \/ st.nodes[s].sstate # "SUCCEEDED")}
        jobsOf(s) == {j \in DOMAIN aux.jobStep : aux.jobStep[j] = s}
        \* C03: an input changed underneath the running command => the step must not succeed
        lastJob(s) == CHOOSE j \in jobsOf(s) : \A i \in jobsOf(s) : j >= i
        \* F10: the recorded content of the changed input was replaced by another step's
        \* completion while this command was still running, which hides the change from its own
        \* re-hash at completion
        c03 == {<<"succeeded_although_input_changed_while_running", s,
                  IF lastJob(s) \in DOMAIN aux.taintPath /\ aux.taintPath[lastJob(s)] \in aux.refreshed
                  THEN "F10-input-change-masked-by-concurrent-refresh" ELSE "">> :
                   s \in {s \in nowOk : jobsOf(s) # {} /\ lastJob(s) \in aux.tainted}}
    IN
    /\ st' = new
    /\ bad' = bad \o Mk(e, lineNo, "C09", LabelRedef(st, new, wf \cup tr)) \o Mk(e, lineNo, "C08", own)
                  \o Mk(e, lineNo, "C10", Classify(new, cw) \cup df)
                  \o Mk(e, lineNo, "C03", c03)
    /\ aux' = [aux EXCEPT
          !.inTxn = FALSE,
          !.failReporter = Restrict(@, {s \in DOMAIN @ : @[s] # e.task}),
          !.failedOnChange = @ \/ (~IsNoState(st) /\ \E s \in Steps(new) :
                                      /\ new.nodes[s].sstate = "FAILED" /\ (s \notin Keys(st) \/ st.nodes[s].sstate # "FAILED")
                                      \* (tainted by an external edit, not by a refused amendment)
                                      /\ jobsOf(s) # {} /\ lastJob(s) \in DOMAIN aux.taintPath),
          !.inflight = IF IsNoState(st) THEN @ ELSE SettleInflight(st, new, @),
          !.redefInflight = IF IsNoState(st) \/ e.fn # "define_step" THEN @
                            ELSE @ \cup {s \in aux.inflight : s \in Keys(st) /\ s \in Keys(new)
                                            /\ st.nodes[s].sstate \in {"RUNNING", "CHECKING"} /\ new.nodes[s].sstate = "PENDING"},
          !.heldBy = Restrict(@, {c \in DOMAIN @ :
                        @[c] \in Keys(new) /\ new.nodes[@[c]].sstate = "RUNNING"
                        /\ new.nodes[@[c]].holding > 0}),
          !.holdDepth = Restrict(@, {c \in DOMAIN @ :
                        c \in Keys(new) /\ new.nodes[c].sstate = "RUNNING"}),
          !.refreshed = IF IsNoState(st) THEN @ ELSE
                        @ \cup {aux.taintPath[j] : j \in {j \in DOMAIN aux.taintPath :
                              LET f == "file:" \o aux.taintPath[j] IN
                                f \in Keys(st) /\ f \in Keys(new) /\ st.nodes[f].fhash # new.nodes[f].fhash}},
          !.refreshedPhase = IF IsNoState(st) THEN @ ELSE
                        @ \cup {aux.taintPath[j] : j \in {j \in DOMAIN aux.taintPath :
                              LET f == "file:" \o aux.taintPath[j] IN
                                f \in Keys(st) /\ f \in Keys(new) /\ st.nodes[f].fhash # new.nodes[f].fhash}}
                        \* the same mechanism when the change is not an external edit (a command overwrote the
                        \* file): the recorded content of an input is replaced while a consumer of it is running
                          \cup {st.nodes[f].label : f \in {f \in Keys(st) \cap Keys(new) :
                                /\ st.nodes[f].kind = "file" /\ st.nodes[f].fhash # NULL
                                /\ new.nodes[f].fhash # NULL /\ st.nodes[f].fhash # new.nodes[f].fhash
                                /\ \E c \in Steps(st) \cap Steps(new) : /\ <<f, c>> \in Deps(st)
                                                                      /\ st.nodes[c].sstate = "RUNNING"
                                                                      /\ new.nodes[c].sstate = "RUNNING"}},
          !.succeededAt = [x \in (DOMAIN @) \cup nowOk |-> IF x \in nowOk THEN e.k ELSE @[x]],
          !.finalReads = [x \in (DOMAIN @) \cup {s \in nowOk : jobsOf(s) # {}} |->
                            IF x \in nowOk /\ jobsOf(x) # {}
                            THEN LET j == CHOOSE j \in jobsOf(x) : \A i \in jobsOf(x) : j >= i
                                 IN {r \in aux.reads[j] : <<"file:" \o r[1], x>> \in Deps(new)}
                            ELSE @[x]],
          !.lostEdge = IF IsNoState(st) THEN @
                       ELSE @ \cup {d[1] : d \in {x \in Deps(st) \ Deps(new) :
                                     x[1] \in Keys(st) /\ st.nodes[x[1]].kind = "file"}},
          !.rpcOpen = IF task \in DOMAIN @ THEN [@ EXCEPT ![task] = @ + 1] ELSE @]
    /\ cnt' = Bump(Bump(Bump(cnt, "commit"), "wellformed"),
                   IF IsNoState(st) THEN "commit" ELSE "transition")

OnBegin(e, lineNo) ==
  /\ bad' = bad \o Mk(e, lineNo, "C15", IF aux.inTxn THEN {<<"transactions_interleave", "">>} ELSE {})
  /\ aux' = [aux EXCEPT !.inTxn = TRUE, !.txnSubmits = <<>>]
  /\ UNCHANGED <<st, cnt>>

\* C15: a transaction that is rolled back leaves the stored workflow as it was; work it handed to
\* the hash queue meanwhile is not taken back by the rollback and changes the stored state later
OnRollback(e, lineNo) ==
  /\ bad' = bad \o Mk(e, lineNo, "C15", IF aux.txnSubmits # <<>>
                                         THEN {<<"rolled_back_request_left_hash_jobs_queued", aux.txnSubmits>>} ELSE {})
  /\ aux' = [aux EXCEPT !.inTxn = FALSE, !.txnSubmits = <<>>]
  /\ UNCHANGED <<st, cnt>>

OnHashSubmit(e) ==
  /\ aux' = IF aux.inTxn /\ e.new THEN [aux EXCEPT !.txnSubmits = Append(@, e.path)] ELSE aux
  /\ cnt' = Bump(cnt, "hash_submit")
  /\ UNCHANGED <<st, bad>>

OnPop(e, lineNo) ==
  IF IsNoState(st) THEN UNCHANGED <<st, aux, bad, cnt>> ELSE
  IF e.step # NULL THEN
    LET s == StepKey(e.step)
        \* the decision was taken on the state in which s was still PENDING: the dispatch
        \* transaction only adds the state change of s (and the flag its trigger raises)
        pre == IF s \in Keys(st)
               THEN [st EXCEPT !.nodes[s].sstate = "PENDING", !.nodes[s].chkSafe = FALSE]
               ELSE st
        dv == DispatchViolations(pre, aux.mem, s, e.kind)
              \cup (IF s \in Keys(st) /\ st.nodes[s].sstate #
                        (IF st.nodes[s].hasStepHash THEN "CHECKING" ELSE "RUNNING")
                    THEN {<<"dispatch_state", s>>} ELSE {})
        cv == CacheViolations(pre, aux.mem)
        lim == IF e.nrunning >= aux.mem.njob THEN {<<"job_slot_overcommitted", "">>} ELSE {}
        drn == IF e.draining THEN {<<"dispatch_while_draining", "">>} ELSE {}
        c03 == (IF s \in Keys(pre) /\ ~ReadyDef(pre, s) THEN {<<"dispatched_with_unavailable_input", s>>} ELSE {})
               \* "... makes it fail and stops further dispatch": nothing is dispatched once the failure of a step
               \* whose input was edited under it is committed (the report of that failure is a round trip)
               \cup (IF aux.failedOnChange THEN {<<"step_dispatched_after_an_input_changed_under_a_running_step", s>>} ELSE {})
        c11 == IF s \in Keys(pre) /\ ~pre.nodes[s].detached /\ ~NeededStep(pre, aux.mem, s)
               THEN {<<"dispatched_step_that_is_not_needed", s>>} ELSE {}
    IN /\ bad' = bad \o Mk(e, lineNo, "C10", dv \cup Classify(pre, cv) \cup drn)
                     \o Mk(e, lineNo, "C12", lim) \o Mk(e, lineNo, "C03", c03) \o Mk(e, lineNo, "C11", c11)
       /\ aux' = [aux EXCEPT !.inflight = @ \cup {s},
                              !.neededAtPop = IF s \in Keys(pre) /\ NeededStep(pre, aux.mem, s) THEN @ \cup {s} ELSE @ \ {s},
                              !.readyAtPop = IF s \in Keys(pre) /\ ReadyDef(pre, s) THEN @ \cup {s} ELSE @ \ {s}]
       /\ cnt' = Bump(cnt, "pop_dispatch")
       /\ UNCHANGED st
  ELSE IF e.draining THEN UNCHANGED <<st, aux, bad, cnt>>
  ELSE
    LET cv == CacheViolations(st, aux.mem)
        \* an eligible step at an idle decision is only counted (the property demands it at
        \* the end of a phase, see OnPhaseEnd); it is never a verdict here
        left == EligibleSteps(st, aux.mem) # {}
    IN /\ bad' = bad \o Mk(e, lineNo, "C10", Classify(st, cv))
       /\ cnt' = IF left THEN Bump(Bump(cnt, "pop_none"), "pop_none_with_eligible")
                 ELSE Bump(cnt, "pop_none")
       /\ UNCHANGED <<st, aux>>

RunningSteps == {p[2] : p \in aux.running}

\* what a step requires is what its plan declared (the last accepted define_step), not what
\* the database happens to store for it
DeclUnits(s, r) ==
  IF s \in DOMAIN aux.decl
  THEN LET rs == aux.decl[s].res
           hits == {i \in DOMAIN rs : rs[i][1] = r}
       IN IF hits = {} THEN 0 ELSE rs[CHOOSE i \in hits : TRUE][2]
  ELSE IF ~IsNoState(st) /\ s \in Keys(st) THEN ResUnits(st, s, r) ELSE 0
DeclNames(s) ==
  IF s \in DOMAIN aux.decl THEN {aux.decl[s].res[i][1] : i \in DOMAIN aux.decl[s].res}
  ELSE IF ~IsNoState(st) /\ s \in Keys(st) THEN ResNames(st, s) ELSE {}
RECURSIVE SumDecl(_, _)
SumDecl(S, r) == IF S = {} THEN 0
                 ELSE LET x == CHOOSE x \in S : TRUE IN DeclUnits(x, r) + SumDecl(S \ {x}, r)

OnCmdStart(e, lineNo) ==
  LET s == StepKey(e.step)
      others == aux.running
      over == IF Cardinality(others) + 1 > aux.mem.njob THEN {<<"job_limit_exceeded", "">>} ELSE {}
      known == ~IsNoState(st) /\ s \in Keys(st)
      res ==
        {<<"undefined_resource_runs", r>> : r \in {r \in DeclNames(s) : r \notin DOMAIN aux.mem.avail}}
        \cup {<<"resource_limit_exceeded", r>> : r \in {r \in DeclNames(s) : r \in DOMAIN aux.mem.avail /\
               SumDecl(RunningSteps \cup {s}, r) > aux.mem.avail[r]}}
      held == IF s \in DOMAIN aux.heldBy THEN {<<"started_while_creator_holds", "">>} ELSE {}
      \* availability is decided at dispatch (checked there as dispatch_input_unavailable); a plan that
      \* runs at the same time may re-declare a static input (UNCONFIRMED until its hash job is done) or
      \* make a producer pending before the command starts -- the completion re-hash deals with that
      avail == IF ~known \/ s \in aux.readyAtPop THEN {} ELSE
        {<<"started_with_unavailable_input", f>> : f \in {f \in Sources(st, s) :
              st.nodes[f].fstate \notin Available}}
      \* F25: the creator re-created the row of s (changed declaration) while the job of s was in flight
      state == IF known /\ st.nodes[s].sstate # "RUNNING"
               THEN {<<"command_without_running_state", "",
                       IF s \in aux.redefInflight THEN "F25-step-redefined-while-its-job-is-in-flight" ELSE "">>} ELSE {}
      \* the decision to execute is taken at dispatch; plans running at the same time may make the
      \* step unneeded before its command starts (its output is then reverted at the end)
      need == IF known /\ ~st.nodes[s].detached /\ ~NeededStep(st, aux.mem, s) /\ s \notin aux.neededAtPop
              THEN {<<"executed_step_that_is_not_needed", s>>} ELSE {}
  IN /\ bad' = bad \o Mk(e, lineNo, "C12", over \cup res \cup held)
                   \o Mk(e, lineNo, "C03", avail) \o Mk(e, lineNo, "C09", state)
                   \o Mk(e, lineNo, "C11", need)
     /\ aux' = [aux EXCEPT !.running = @ \cup {<<e.job, s>>},
                            !.cmdStartAt = Put(@, e.job, e.k),
                            !.jobStep = Put(@, e.job, s),
                            !.reads = Put(@, e.job, {})]
     /\ cnt' = Bump(cnt, "cmd_start")
     /\ UNCHANGED st

OnCmdEnd(e) ==
  /\ aux' = [aux EXCEPT !.running = {p \in @ : p[1] # e.job},
                        !.cmdEndedAt = Put(@, StepKey(e.step), e.k)]
  /\ UNCHANGED <<st, bad, cnt>>

MutatingRpc == {"declare_static", "register_glob", "define_step", "amend_step",
                "hold_dispatch", "release_dispatch"}

OnRpcBegin(e) ==
  /\ aux' = IF e.name \in MutatingRpc
            THEN [aux EXCEPT
                    !.rpcOpen = IF e.task \in DOMAIN @ THEN @ ELSE Put(@, e.task, 0),
                    !.rpcDepth = Put(@, e.task, (IF e.task \in DOMAIN @ THEN @[e.task] ELSE 0) + 1)]
            ELSE aux
  /\ UNCHANGED <<st, bad, cnt>>

DefinedLabel(args) ==
  IF args[6] = "." THEN args[1] ELSE args[1] \o "  # wd=" \o args[6]

DefineEffect(db, d, creator) ==
  LET s == StepKey(d.label) IN
  IF s \notin Keys(db) THEN {<<"defined_step_missing", s>>} ELSE
    (IF db.nodes[s].creator # creator THEN {<<"defined_step_wrong_creator", s>>} ELSE {})
    \cup (IF db.nodes[s].need # d.need THEN {<<"defined_step_wrong_need", s>>} ELSE {})
    \cup (IF {<<db.nodes[s].resources[i][1], db.nodes[s].resources[i][2]>> : i \in DOMAIN db.nodes[s].resources}
              # {<<d.res[i][1], d.res[i][2]>> : i \in DOMAIN d.res}
          THEN {<<"defined_step_wrong_resources", s>>} ELSE {})
    \cup (IF {x[1] : x \in {y \in DepT(db) : y[2] = s /\ ~y[3]}} # {"file:" \o d.inp[i] : i \in DOMAIN d.inp}
          THEN {<<"defined_step_wrong_inputs", s>>} ELSE {})
    \* (the outputs it owns: a former output keeps a stale edge but has no creator any more; when the
    \* defining creator is itself detached -- still running after its own creator failed -- everything
    \* it defines is detached too)
    \cup (IF {x[2] : x \in {y \in DepT(db) : y[1] = s /\ ~y[3] /\ db.nodes[y[2]].creator = s}}
              # {"file:" \o d.out[i] : i \in DOMAIN d.out} \cup {"file:" \o d.vol[i] : i \in DOMAIN d.vol}
          THEN {<<"defined_step_wrong_outputs", s>>} ELSE {})
    \cup (IF {db.nodes[s].envVars[i][1] : i \in {j \in DOMAIN db.nodes[s].envVars : ~db.nodes[s].envVars[j][3]}}
              # {d.env[i] : i \in DOMAIN d.env}
          THEN {<<"defined_step_wrong_env", s>>} ELSE {})

OnRpcEnd(e, lineNo) ==
  IF e.name \notin MutatingRpc THEN UNCHANGED <<st, aux, bad, cnt>> ELSE
  LET nchg == IF e.task \in DOMAIN aux.rpcOpen THEN aux.rpcOpen[e.task] ELSE 0
      c == StepKey(e.step)
      depth == IF c \in DOMAIN aux.holdDepth THEN aux.holdDepth[c] ELSE 0
      nested == e.task \in DOMAIN aux.rpcDepth /\ aux.rpcDepth[e.task] > 1
      atom == IF nested THEN {}
              ELSE IF e.outcome # "ok" /\ nchg > 0 THEN {<<"rejected_request_changed_state", "">>}
              ELSE IF e.outcome = "ok" /\ nchg > 1 THEN {<<"request_split_over_commits", "">>} ELSE {}
      internal == IF e.outcome # "ok" /\ ~e.usage THEN {<<"internal_error_on_request", "">>} ELSE {}
      \* an accepted define_step takes full effect: the stored step is what was declared
      effect == IF e.outcome = "ok" /\ e.name = "define_step" /\ ~IsNoState(st)
                THEN DefineEffect(st, e.decl, c) ELSE {}
      globp == IF e.outcome = "ok" /\ ~IsNoState(st) /\ e.name \in {"define_step", "amend_step", "register_glob", "declare_static"}
               THEN GlobProductViolations(st) ELSE {}
      \* C08: a declaration that was accepted claims its paths: none of them is (still) somebody else's
      claimed == IF e.outcome = "ok" /\ e.name = "define_step" /\ ~IsNoState(st) /\ StepKey(e.decl.label) \in Keys(st)
                 THEN {<<"accepted_declaration_of_a_path_that_another_creator_owns", p>> :
                         p \in {p \in {e.decl.out[i] : i \in DOMAIN e.decl.out} \cup {e.decl.vol[i] : i \in DOMAIN e.decl.vol} :
                                  LET f == "file:" \o p IN
                                  /\ f \in Keys(st) /\ ~st.nodes[f].detached /\ ~st.nodes[StepKey(e.decl.label)].detached
                                  /\ st.nodes[f].creator # StepKey(e.decl.label)}}
                 ELSE {}
  IN /\ bad' = bad \o Mk(e, lineNo, "C15", atom \cup effect) \o Mk(e, lineNo, "C09", internal)
                   \o Mk(e, lineNo, "C08", globp \cup claimed)
     /\ aux' = [aux EXCEPT
           \* a handler that calls another handler is still one request of one client
           !.rpcOpen = IF nested THEN @ ELSE Drop(@, e.task),
           !.rpcDepth = IF nested THEN Put(@, e.task, @[e.task] - 1) ELSE Drop(@, e.task),
           !.holdDepth = IF e.outcome # "ok" THEN @
                         ELSE IF e.name = "hold_dispatch" THEN Put(@, c, depth + 1)
                         ELSE IF e.name = "release_dispatch" THEN
                               (IF depth <= 1 THEN Drop(@, c) ELSE Put(@, c, depth - 1))
                         ELSE @,
           !.decl = IF e.outcome = "ok" /\ e.name = "define_step"
                    THEN Put(@, StepKey(e.decl.label), e.decl) ELSE @,
           !.released = IF e.outcome = "ok" /\ e.name = "release_dispatch" /\ depth <= 1
                        THEN @ \cup {c} ELSE @,
           !.heldBy = IF e.outcome # "ok" THEN @
                      ELSE IF e.name = "define_step" /\ depth > 0
                           THEN Put(@, StepKey(DefinedLabel(e.args)), c)
                      ELSE IF e.name = "release_dispatch" /\ depth <= 1
                           THEN Restrict(@, {t \in DOMAIN @ : @[t] # c})
                      ELSE @]
     /\ cnt' = Bump(cnt, IF e.outcome = "ok" THEN
                            (IF e.name \in {"hold_dispatch", "release_dispatch"} THEN "hold" ELSE "rpc_ok")
                         ELSE "rpc_reject")
     /\ UNCHANGED st

HasBit(rc, bit) == (rc \div bit) % 2 = 1
RC_FAILED == 4
RC_WARNING == 8
RC_PENDING == 16
RC_DRAINED == 32

OnPhaseEnd(e, lineNo) ==
  IF IsNoState(st) THEN UNCHANGED <<st, aux, bad, cnt>> ELSE
  LET failed == AttachedFailed(st) # {}
      reqp == RequiredPending(st, aux.mem)
      left == IF ~e.draining /\ EligibleSteps(st, aux.mem) # {}
              THEN {<<"phase_ended_with_eligible_step", "">>} ELSE {}
      c19 ==
        {<<"failed_bit_without_cause", x>> : x \in {1} \ {i \in {1} :
             HasBit(e.rc, RC_FAILED) => (failed \/ GlobBuildsProduct(st))}}
        \cup {<<"failed_step_without_failed_bit", x>> : x \in {1} \ {i \in {1} :
             failed => HasBit(e.rc, RC_FAILED)}}
        \cup {<<"glob_product_without_failed_bit", x>> : x \in {1} \ {i \in {1} :
             (GlobBuildsProduct(st) /\ ~e.draining) => e.rc # 0}}
        \cup {<<"pending_bit_mismatch", x>> : x \in {1} \ {i \in {1} :
             HasBit(e.rc, RC_PENDING) <=> (~e.draining /\ reqp # {})}}
        \cup {<<"zero_rc_with_unfinished_step", x>> : x \in {1} \ {i \in {1} :
             e.rc = 0 => \A s \in Steps(st) : (~st.nodes[s].detached /\
                  NeedRank(st.nodes[s].impliedNeed) > Threshold(aux.mem))
                  => st.nodes[s].sstate = "SUCCEEDED"}}
        \cup {<<"summary_total", x>> : x \in {1} \ {i \in {1} :
             e.draining \/ e.summary.ntotal = Cardinality(reqp)}}
        \cup {<<"summary_partition", x>> : x \in {1} \ {i \in {1} :
             e.draining \/ e.summary.ntotal = 0 \/
             e.summary.attr_sum + e.summary.cyclic = e.summary.ntotal}}
        \* what is shown accounts for every pending step (rows of different dead-end files may overlap,
        \* so the shown counts may exceed the total, never fall short of it)
        \cup {<<"summary_leaves_steps_unexplained", x>> : x \in {1} \ {i \in {1} :
             e.draining \/ e.summary.ntotal = 0 \/ e.summary.shown_sum >= e.summary.ntotal}}
        \cup {<<"summary_exactly_one_cause", x>> : x \in {1} \ {i \in {1} :
             e.draining \/ e.summary.ntotal = 0 \/ e.summary.attr_unique}}
      c11 == IF e.rc = 0 \/ e.rc = 8
             THEN {<<"needed_step_not_built", s>> : s \in {s \in Steps(st) : ~st.nodes[s].detached
                      /\ NeededStep(st, aux.mem, s) /\ st.nodes[s].sstate # "SUCCEEDED"}}
             ELSE {}
      \* C03: a step that is SUCCEEDED at the end of the phase read, for each of its inputs, the
      \* content that the file has (and is recorded with) at the end of the phase
      c03 == {<<"succeeded_step_read_content_that_is_not_final", <<s, r[1]>>>> :
                 s \in {s \in DOMAIN aux.finalReads : s \in Keys(st) /\ st.nodes[s].sstate = "SUCCEEDED"},
                 r \in {} } \cup
             UNION {{<<"succeeded_step_read_content_that_is_not_final", <<s, r[1]>>,
                        IF r[1] \in aux.refreshedPhase THEN "F10-input-change-masked-by-concurrent-refresh" ELSE "">> :
                        r \in {r \in aux.finalReads[s] :
                                 <<"file:" \o r[1], s>> \in Deps(st) /\
                                 \* "the content recorded for that file at the end of the build";
                                 \* a file that the graph itself marks as not up to date (OUTDATED,
                                 \* PLANNED, MISSING) re-pends its consumers when it comes back
                                 \* (an OUTDATED file carries a recorded content as well: the one a failed
                                 \* run left behind, or found when it re-hashed its inputs)
                                 st.nodes["file:" \o r[1]].fstate \in Available \cup {"OUTDATED"} /\
                                 st.nodes["file:" \o r[1]].fhash # NULL /\
                                 st.nodes["file:" \o r[1]].fhash # r[2]}} :
                    s \in {s \in DOMAIN aux.finalReads : s \in Keys(st) /\ st.nodes[s].sstate = "SUCCEEDED"}}
      \* C03: "an input that changes underneath a running step makes it fail and stops further dispatch":
      \* the phase in which that happened ends with the scheduler drained, keep-going or not
      c03d == IF aux.failedOnChange /\ ~e.draining
              THEN {<<"dispatch_not_stopped_after_an_input_changed_under_a_running_step", "">>} ELSE {}
  IN /\ bad' = bad \o Mk(e, lineNo, "C10", left) \o Mk(e, lineNo, "C19", c19) \o Mk(e, lineNo, "C11", c11)
                   \o Mk(e, lineNo, "C03", c03 \cup c03d)
     /\ cnt' = [Bump(cnt, "phase_end") EXCEPT !["final_reads_checked"] = @ + Cardinality(DOMAIN aux.finalReads)]
     /\ aux' = [aux EXCEPT !.diskBefore = e.disk.files, !.phaseRc = e.rc, !.finalReads = EmptyFn,
                            !.recordedBefore = [p \in {st.nodes[f].label : f \in {f \in Keys(st) : st.nodes[f].kind = "file"
                                                                                     /\ st.nodes[f].fhash # NULL}}
                                                 |-> st.nodes["file:" \o p].fhash],
                           !.tainted = {}, !.inputChanged = FALSE, !.taintPath = EmptyFn, !.failedOnChange = FALSE,
                           !.failReporter = EmptyFn,
                           !.refreshed = {}, !.refreshedPhase = {}]
     /\ UNCHANGED st

(* ---------------------- C03: inputs are final while a command runs ----------------------- *)
OnRead(e) ==
  /\ aux' = IF e.job \in DOMAIN aux.reads /\ e.content # NULL
            THEN [aux EXCEPT !.reads = [@ EXCEPT ![e.job] = @ \cup {<<e.path, e.content>>}]]
            ELSE aux
  /\ cnt' = Bump(cnt, "read")
  /\ UNCHANGED <<st, bad>>

OnAmendResult(e, lineNo) ==
  IF IsNoState(st) \/ e.job \notin DOMAIN aux.cmdStartAt THEN UNCHANGED <<st, aux, bad, cnt>> ELSE
  LET s == StepKey(e.step)
      inp == {e.inp[i] : i \in DOMAIN e.inp}
      f(p) == "file:" \o p
      unavailable == {p \in inp : f(p) \notin Keys(st) \/ st.nodes[f(p)].detached
                                   \/ st.nodes[f(p)].fstate \notin Available}
      \* BUILT by a step that was still running after this command started
      unfresh == {p \in inp \ unavailable : st.nodes[f(p)].fstate = "BUILT"
                    /\ Up(st, f(p)) \in DOMAIN aux.cmdEndedAt
                    /\ aux.cmdEndedAt[Up(st, f(p))] > aux.cmdStartAt[e.job]}
      v == IF e.carry_on
           THEN {<<"amended_unavailable_input_accepted", p>> : p \in unavailable}
                \cup {<<"amended_input_of_still_running_producer_accepted", p>> : p \in unfresh}
           ELSE {}
  IN /\ bad' = bad \o Mk(e, lineNo, "C03", v)
     /\ aux' = IF ~e.carry_on THEN [aux EXCEPT !.tainted = @ \cup {e.job}] ELSE aux
     /\ cnt' = Bump(cnt, "amend")
     /\ UNCHANGED st

\* an external edit (or a write by another command) of a path that a running command uses as input
OnExtEdit(e) ==
  IF IsNoState(st) \/ e.path = "" \/ ~e.changed THEN UNCHANGED <<st, aux, bad, cnt>> ELSE
  LET hit == {p[1] : p \in {q \in aux.running : <<"file:" \o e.path, q[2]>> \in Deps(st)}}
  IN /\ aux' = [aux EXCEPT !.tainted = @ \cup hit,
                           !.taintPath = [j \in (DOMAIN @) \cup hit |-> IF j \in hit THEN e.path ELSE @[j]],
                           !.inputChanged = @ \/ hit # {}]
     /\ cnt' = IF hit # {} THEN Bump(cnt, "tainted") ELSE cnt
     /\ UNCHANGED <<st, bad>>

(* ------------------- C06 / C07 / C11: clean-up and need at the end of a phase ------------- *)
OnWrite(e) ==
  LET f == "file:" \o e.path
      s == StepKey(e.step)
      declared == ~IsNoState(st) /\ f \in Keys(st) /\ <<s, f>> \in Deps(st)
  IN /\ aux' = IF declared
               THEN [aux EXCEPT !.produced = Put(@, e.path, e.content),
                                !.volatileEver = IF st.nodes[f].fstate = "VOLATILE" THEN @ \cup {e.path} ELSE @]
               ELSE aux
     /\ cnt' = Bump(cnt, "write")
     /\ UNCHANGED <<st, bad>>

FilesOf(disk) == DOMAIN disk.files
ContentOf(disk, p) == disk.files[p][1]
CleanupAllowed(rc, mem) ==
  /\ (rc = 0 \/ rc = 8) /\ mem.targets = {} /\ mem.targetDirs = {} /\ mem.clean
IsPrefixDir(d, p) == Len(p) > Len(d) + 1 /\ SubSeq(p, 1, Len(d) + 1) = d \o "/"

\* F9: a cycle of creator and dependency edges inside the detached part of the graph is a fixed
\* point of the clean-up loop (a step that amended a product of its own sub-step as input)
RECURSIVE DetachedClosure(_, _, _)
DetachedClosure(db, frontier, seen) ==
  IF frontier = {} THEN seen
  ELSE LET nxt == {k \in Keys(db) : db.nodes[k].detached /\
                     \E n \in frontier : Up(db, k) = n \/ <<n, k>> \in Deps(db)} \ (seen \cup frontier)
       IN DetachedClosure(db, nxt, seen \cup frontier)
ShapeDetachedCycle(db, p) ==
  LET f == "file:" \o p IN
    f \in Keys(db) /\ db.nodes[f].detached /\
    \E s \in Sinks(db, f) : db.nodes[s].detached /\ f \in DetachedClosure(db, {s}, {})

OnFinalizeEnd(e, lineNo) ==
  IF IsNoState(st) THEN UNCHANGED <<st, aux, bad, cnt>> ELSE
  LET before == aux.diskBefore
      after == e.disk
      removed == (DOMAIN before) \ FilesOf(after)
      allowed == CleanupAllowed(aux.phaseRc, aux.mem)
      isStatic(p) == ("file:" \o p) \in Keys(st) /\ ~st.nodes["file:" \o p].detached
                        /\ Role(st.nodes["file:" \o p].fstate) = "STATIC"
      c06 ==
        {<<"removed_although_cleanup_disabled", p>> : p \in {p \in removed : ~allowed}}
        \cup {<<"removed_file_never_produced_by_a_step", p>> : p \in {p \in removed : p \notin DOMAIN aux.produced}}
        \* modified after StepUp last recorded it: against the recorded content when there is one (a
        \* rehash after a failed run also records), else against what the declaring step last wrote
        \cup {<<"removed_modified_output", p>> : p \in {p \in removed : p \in DOMAIN aux.produced
                 /\ p \notin aux.volatileEver
                 /\ before[p][1] # (IF p \in DOMAIN aux.recordedBefore THEN aux.recordedBefore[p] ELSE aux.produced[p])}}
        \cup {<<"removed_static_file", p>> : p \in {p \in removed : isStatic(p)}}
      activeOutput(p) ==
        LET f == "file:" \o p IN
          f \in Keys(st) /\ ~st.nodes[f].detached /\ Role(st.nodes[f].fstate) \in {"OUTPUT", "VOLATILE"}
          /\ Up(st, f) \in Steps(st) /\ NeededStep(st, aux.mem, Up(st, f))
      usedByActive(p) ==
        LET f == "file:" \o p IN
          f \in Keys(st) /\ \E t \in Sinks(st, f) : t \in Steps(st) /\ ~st.nodes[t].detached
      orphan(p) == /\ p \in FilesOf(after) /\ ContentOf(after, p) = aux.produced[p]
                   /\ ~activeOutput(p) /\ ~usedByActive(p) /\ ~isStatic(p)
      c07 == IF ~allowed THEN {} ELSE
        {<<"orphaned_output_left_on_disk", p,
           IF ShapeDetachedCycle(st, p) THEN "F9-detached-creator-dependency-cycle" ELSE "">> :
              p \in {p \in DOMAIN aux.produced : orphan(p)}}
        \cup {<<"orphaned_output_left_in_graph", p>> : p \in {p \in DOMAIN aux.produced :
                 ("file:" \o p) \in Keys(st) /\ st.nodes["file:" \o p].detached
                 /\ ~usedByActive(p) /\ p \notin FilesOf(after)}}
        \cup {<<"empty_directory_left", d>> : d \in {d \in {after.dirs[i] : i \in DOMAIN after.dirs} :
                 /\ (\E p \in DOMAIN aux.produced : IsPrefixDir(d, p))
                 /\ ~(\E q \in FilesOf(after) : IsPrefixDir(d, q))
                 /\ ~(\E j \in DOMAIN after.dirs : IsPrefixDir(d, after.dirs[j]))}}
      c11 == IF ~allowed THEN {} ELSE
        {<<"unneeded_optional_step_not_reverted", s>> : s \in {s \in Steps(st) : ~st.nodes[s].detached
                 /\ ~NeededStep(st, aux.mem, s) /\ st.nodes[s].sstate # "PENDING"}}
        \cup {<<"output_of_unneeded_step_left", f>> : f \in {f \in Files(st) : ~st.nodes[f].detached
                 /\ Role(st.nodes[f].fstate) = "OUTPUT" /\ Up(st, f) \in Steps(st)
                 /\ ~NeededStep(st, aux.mem, Up(st, f))
                 /\ (st.nodes[f].fstate # "PLANNED"
                     \/ (st.nodes[f].label \in FilesOf(after) /\ st.nodes[f].label \in DOMAIN aux.produced
                         /\ ContentOf(after, st.nodes[f].label) = aux.produced[st.nodes[f].label]))}}
  IN /\ bad' = bad \o Mk(e, lineNo, "C06", c06) \o Mk(e, lineNo, "C07", c07) \o Mk(e, lineNo, "C11", c11)
     /\ cnt' = [Bump(cnt, "finalize_end") EXCEPT !["removed_files"] = @ + Cardinality(removed)]
     /\ UNCHANGED <<st, aux>>

OnFault(e, lineNo) ==
  LET c == IF e.ev = "hang" THEN {<<"build_phase_never_ends", "">>}
           ELSE IF e.ev = "director_exc" THEN
             \* F25: the second completion of a step whose row was re-created while its job was in
             \* flight is refused by update_file_hashes and the director dies
             {<<"director_raised", e.exc,
                IF e.second_completion_of # "" /\ StepKey(e.second_completion_of) \in aux.redefInflight
                THEN "F25-step-redefined-while-its-job-is-in-flight" ELSE "">>}
           ELSE IF e.ev = "step_exc" /\ ~e.usage THEN {<<"internal_error_in_step", e.exc>>}
           ELSE {}
      p == IF e.ev = "hang" THEN "C10" ELSE "C09"
  IN /\ bad' = bad \o Mk(e, lineNo, p, c)
     /\ UNCHANGED <<st, aux, cnt>>

\* C19: "... or a requested target was invalid".  A process that refuses its targets as invalid must not
\* do so for a path that the plan, as it is on disk now, has a step build (the project description says so).
OnProcEnd(e, lineNo) ==
  LET built == {r[1] : r \in {x \in SeqSet2(e.target_roles) : x[2] = "output"}}
      c == IF e.invalid_target /\ e.target_roles # <<>> /\ \A i \in DOMAIN e.target_roles : e.target_roles[i][2] = "output"
           THEN {<<"target_called_invalid_although_the_current_plan_builds_it", built>>} ELSE {}
  IN /\ bad' = bad \o Mk(e, lineNo, "C19", c)
     /\ UNCHANGED <<st, aux, cnt>>

Handle(e, lineNo) ==
  CASE e.ev = "proc_start" -> OnProcStart(e)
    [] e.ev = "proc_end" -> OnProcEnd(e, lineNo)
    [] e.ev = "report_fail" -> /\ aux' = [aux EXCEPT !.failReporter = Put(@, StepKey(e.step), e.task)]
                               /\ UNCHANGED <<st, bad, cnt>>
    [] e.ev = "commit" -> OnCommit(e, lineNo)
    [] e.ev = "begin" -> OnBegin(e, lineNo)
    [] e.ev = "rollback" -> OnRollback(e, lineNo)
    [] e.ev = "hash_submit" -> OnHashSubmit(e)
    [] e.ev = "pop" -> OnPop(e, lineNo)
    [] e.ev = "cmd_start" -> OnCmdStart(e, lineNo)
    [] e.ev = "cmd_end" -> OnCmdEnd(e)
    [] e.ev = "rpc_begin" -> OnRpcBegin(e)
    [] e.ev = "rpc_end" -> OnRpcEnd(e, lineNo)
    [] e.ev = "phase_end" -> OnPhaseEnd(e, lineNo)
    [] e.ev = "write" -> OnWrite(e)
    [] e.ev = "read" -> OnRead(e)
    [] e.ev = "amend_result" -> OnAmendResult(e, lineNo)
    [] e.ev = "ext_edit" -> OnExtEdit(e)
    [] e.ev = "finalize_end" -> OnFinalizeEnd(e, lineNo)
    [] e.ev \in {"hang", "director_exc", "step_exc"} -> OnFault(e, lineNo)
    [] OTHER -> UNCHANGED <<st, aux, bad, cnt>>

Init == /\ l = 0 /\ st = NoState /\ aux = AuxInit /\ bad = <<>> /\ cnt = CntInit

Next ==
  /\ l < N
  /\ l' = l + 1
  /\ Handle(TraceLog[l + 1], l + 1)
  /\ (l' = N) => JsonSerialize(IOEnv.VERDICT_FILE, [bad |-> bad', cnt |-> cnt', lines |-> N])

Spec == Init /\ [][Next]_vars

Consumed == TLCGet("stats").diameter - 1 = N
=============================================================================
