SPECIFICATION MSpec
CONSTANTS
  CancelPairs = TRUE
VIEW MView
CONSTRAINT MBound
INVARIANT Complete
INVARIANT DeletedAbsent
INVARIANT UpdatedPresent
INVARIANT Disjoint
CHECK_DEADLOCK FALSE
