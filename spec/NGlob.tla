-------------------------------- MODULE NGlob --------------------------------
(***************************************************************************)
(* C17, mode "vectors": TLC evaluates NGlobSem!Accept for every pattern of *)
(* the input file on a universe of paths (each both as a file and as a     *)
(* directory) and writes the accepted sets; checks/c17.py replays them     *)
(* into the real NamedGlob on real directory trees.                        *)
(* Line 1 of the input: [universe |-> <<path, ...>>], a path being a       *)
(* sequence of component strings.  Every other line is a pattern:          *)
(*   [id, comps |-> <<[d |-> TRUE] | [d |-> FALSE, toks |-> <<tok..>>]>>,   *)
(*    subs |-> <<<<name, <<tok..>>>>, ..>>, tslash |-> BOOLEAN]              *)
(***************************************************************************)
EXTENDS NGlobSem, Json, IOUtils

Lines == ndJsonDeserialize(IOEnv.TRACE_FILE)
N == Len(Lines)
U == Lines[1].universe            \* sequence of paths, each a sequence of component strings

\* index 2j-1: path j as a file, 2j: path j as a directory
AcceptSet(P) == {2 * j - 1 : j \in {j \in DOMAIN U : Accept(P, U[j], "file")}}
                \cup {2 * j : j \in {j \in DOMAIN U : Accept(P, U[j], "dir")}}

\* the path string of universe entry j as a file / as a directory
RECURSIVE JoinC(_)
JoinC(pc) == IF Len(pc) = 1 THEN pc[1] ELSE pc[1] \o "/" \o JoinC(Tail(pc))
PathStr(j, kind) == JoinC(U[j]) \o (IF kind = "dir" THEN "/" ELSE "")
Idx(j, kind) == IF kind = "file" THEN 2 * j - 1 ELSE 2 * j
Entries == {<<j, k>> : j \in DOMAIN U, k \in {"file", "dir"}}

\* the matcher as built, and the bindings it admits
MatcherSet(P) == {Idx(x[1], x[2]) : x \in {x \in Entries : AM(P, PathStr(x[1], x[2])) # {}}}
EnvPairs(e) == {<<n, e[n]>> : n \in DOMAIN e}
BindSet(P) ==
  IF ~P.bind THEN {}
  ELSE {<<Idx(x[1], x[2]), {EnvPairs(e) : e \in AM(P, PathStr(x[1], x[2]))}>> :
          x \in {x \in Entries : AM(P, PathStr(x[1], x[2])) # {}}}
\* named deviations, for the classification of the differences between meaning and matcher
EmptyTailSet(P) == {2 * j : j \in {j \in DOMAIN U : EmptyTailDir(P, U[j])}}

VARIABLES l, out
vars == <<l, out>>
Init == l = 1 /\ out = <<>>
Next ==
  /\ l < N
  /\ l' = l + 1
  /\ out' = Append(out, [id |-> Lines[l + 1].id, acc |-> AcceptSet(Lines[l + 1]), pre |-> AcceptSet(Lines[l + 1].anon),
                            am |-> MatcherSet(Lines[l + 1]), dirok |-> DirRecordable(Lines[l + 1]),
                            etail |-> EmptyTailSet(Lines[l + 1]), bind |-> BindSet(Lines[l + 1])])
  /\ (l' = N) => JsonSerialize(IOEnv.VERDICT_FILE, [vectors |-> out', n |-> N - 1])
Spec == Init /\ [][Next]_vars
Consumed == TLCGet("stats").diameter = N
=============================================================================
