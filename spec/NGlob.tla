-------------------------------- MODULE NGlob --------------------------------
(***************************************************************************)
(* C17: named glob matching is consistent with the file system and with    *)
(* itself.                                                                 *)
(*                                                                         *)
(* The specification gives the meaning of a named glob pattern directly on *)
(* path components (no regular expressions, no string surgery):            *)
(*                                                                         *)
(*   pattern   = sequence of components, optionally closed by a separator  *)
(*   component = the recursive wildcard `**`, or a sequence of tokens      *)
(*   token     = literal character | `*` | `?` | `[...]` | `${*name}`      *)
(*                                                                         *)
(* A token sequence is matched against ONE path component (components are  *)
(* never empty and never contain the separator); `**` stands for any       *)
(* number of components, including none; a named wildcard stands for what  *)
(* its substitution (default `*`) matches and every occurrence of the same *)
(* name stands for the same string.  A directory is a path like any other; *)
(* a pattern that is closed by a separator, or whose `**` is matched by    *)
(* nothing at the very end, only accepts directories.  Hidden entries are  *)
(* ordinary entries.  This is the standard recursive glob (Python's        *)
(* glob(recursive=True, include_hidden=True)) extended with names.         *)
(*                                                                         *)
(* Mode "vectors": TLC evaluates Accept for every pattern of the input     *)
(* file on a universe of paths and writes the accepted sets; checks/c17.py *)
(* replays them into the real NamedGlob on real directory trees.           *)
(* Mode "model" (NGlobModel.cfg): the incremental maintenance of a match   *)
(* set (extend/reduce) is model checked against a fresh scan.              *)
(***************************************************************************)
EXTENDS Naturals, Sequences, FiniteSets, TLC, Json, IOUtils

Chr(s, i) == SubSeq(s, i, i)
Rest(s, k) == SubSeq(s, k + 1, Len(s))
NoEnv == [n \in {} |-> ""]
InCls(c, cs) == \E i \in 1..Len(cs) : Chr(cs, i) = c
Star == [t |-> "star"]

\* the substitution of a named wildcard: a token sequence without names; default `*`
SubOf(subs, n) ==
  IF \E i \in DOMAIN subs : subs[i][1] = n
  THEN subs[CHOOSE i \in DOMAIN subs : subs[i][1] = n][2]
  ELSE <<Star>>

(* Tokens against one component.  The result is the set of bindings of names *)
(* (functions name -> string) under which the component is matched.          *)
RECURSIVE MT(_, _, _, _)
MT(toks, s, env, subs) ==
  IF toks = <<>> THEN (IF Len(s) = 0 THEN {env} ELSE {})
  ELSE LET h == Head(toks)
           tl == Tail(toks)
       IN CASE h.t = "lit" ->
                 IF Len(s) >= 1 /\ Chr(s, 1) = h.c THEN MT(tl, Rest(s, 1), env, subs) ELSE {}
            [] h.t = "q" ->
                 IF Len(s) >= 1 THEN MT(tl, Rest(s, 1), env, subs) ELSE {}
            [] h.t = "cls" ->
                 IF Len(s) >= 1 /\ (InCls(Chr(s, 1), h.cs) # h.neg) THEN MT(tl, Rest(s, 1), env, subs) ELSE {}
            [] h.t = "star" ->
                 UNION {MT(tl, Rest(s, k), env, subs) : k \in 0..Len(s)}
            [] h.t = "name" ->
                 IF h.n \in DOMAIN env
                 THEN LET v == env[h.n]
                      IN IF Len(s) >= Len(v) /\ SubSeq(s, 1, Len(v)) = v
                         THEN MT(tl, Rest(s, Len(v)), env, subs) ELSE {}
                 ELSE UNION {IF MT(SubOf(subs, h.n), SubSeq(s, 1, k), NoEnv, <<>>) # {}
                             THEN MT(tl, Rest(s, k), env @@ (h.n :> SubSeq(s, 1, k)), subs)
                             ELSE {} : k \in 0..Len(s)}

(* Components against a path (a non-empty sequence of components) of the given kind *)
RECURSIVE MC(_, _, _, _, _)
MC(comps, pc, kind, env, subs) ==
  IF comps = <<>> THEN pc = <<>>
  ELSE LET h == Head(comps)
           tl == Tail(comps)
       IN IF h.d
          THEN \/ \E k \in 1..Len(pc) : MC(tl, SubSeq(pc, k + 1, Len(pc)), kind, env, subs)
               \* `**` stands for nothing: fine in the middle of a path; at its end it denotes
               \* the directory reached so far
               \/ /\ pc # <<>> \/ kind = "dir"
                  /\ MC(tl, pc, kind, env, subs)
          ELSE /\ pc # <<>>
               /\ \E e \in MT(h.toks, Head(pc), env, subs) : MC(tl, Tail(pc), kind, e, subs)

Accept(P, pc, kind) ==
  /\ Len(pc) >= 1
  /\ P.tslash => kind = "dir"
  /\ MC(P.comps, pc, kind, NoEnv, P.subs)

\* the bindings of the names of P under which the path is accepted (for repeated names)
RECURSIVE MCE(_, _, _, _, _)
MCE(comps, pc, kind, env, subs) ==
  IF comps = <<>> THEN (IF pc = <<>> THEN {env} ELSE {})
  ELSE LET h == Head(comps)
           tl == Tail(comps)
       IN IF h.d
          THEN UNION {MCE(tl, SubSeq(pc, k + 1, Len(pc)), kind, env, subs) : k \in 1..Len(pc)}
               \cup (IF pc # <<>> \/ kind = "dir" THEN MCE(tl, pc, kind, env, subs) ELSE {})
          ELSE IF pc = <<>> THEN {}
               ELSE UNION {MCE(tl, Tail(pc), kind, e, subs) : e \in MT(h.toks, Head(pc), env, subs)}

(* ------------------------------ mode "vectors" ------------------------------ *)
Lines == ndJsonDeserialize(IOEnv.TRACE_FILE)
N == Len(Lines)
U == Lines[1].universe            \* sequence of paths, each a sequence of component strings

\* index 2j-1: path j as a file, 2j: path j as a directory
AcceptSet(P) == {2 * j - 1 : j \in {j \in DOMAIN U : Accept(P, U[j], "file")}}
                \cup {2 * j : j \in {j \in DOMAIN U : Accept(P, U[j], "dir")}}

VARIABLES l, out
vars == <<l, out>>
Init == l = 1 /\ out = <<>>
Next ==
  /\ l < N
  /\ l' = l + 1
  /\ out' = Append(out, [id |-> Lines[l + 1].id, acc |-> AcceptSet(Lines[l + 1])])
  /\ (l' = N) => JsonSerialize(IOEnv.VERDICT_FILE, [vectors |-> out', n |-> N - 1])
Spec == Init /\ [][Next]_vars
Consumed == TLCGet("stats").diameter = N
=============================================================================
