SPECIFICATION OSpec
VIEW OView
POSTCONDITION OInjective
CONSTANTS
  Part = "All"
  Labels = {"a", "__env_vars__", ""}
  Paths = {"a", "b", "__env_vars__"}
  EnvNames = {"a", "__env_overrides__", ""}
  EnvValues = {"a", "", "__env_overrides__"}
  OvrNames = {"a", "__env_overrides__"}
  OvrValues = {"a", "__env_overrides__", ""}
  HashChoice = "two"
CHECK_DEADLOCK FALSE
