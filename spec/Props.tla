------------------------------- MODULE Props -------------------------------
(***************************************************************************)
(* Property monitors over the projected workflow state of StepUp Core.    *)
(*                                                                         *)
(* A "db" is the projection of the database produced by                    *)
(* harness/projection.py:                                                  *)
(*   db.nodes : [key -> node record]   key = "kind:label"                  *)
(*   db.deps  : sequence of <<sourceKey, sinkKey, isDynamic>>              *)
(* Every operator here is written from the documentation of the state     *)
(* machines and of the scheduling attributes (definitions), NOT from the  *)
(* SQL that maintains the cached columns, so that the code is judged       *)
(* against the definitions and not against itself.                         *)
(*                                                                         *)
(* Monitors return SETS OF VIOLATED CLAUSE NAMES, so that a verdict always *)
(* names its failing clause and TLC never has to stop at the first one.    *)
(***************************************************************************)
EXTENDS Naturals, Sequences, FiniteSets, TLC

NULL == "NULL"
ROOT == "root:"

Range(f) == {f[i] : i \in DOMAIN f}

NeedRank(n) == CASE n = "OPTIONAL" -> 1 [] n = "DEFAULT" -> 2 [] n = "TARGET" -> 3
                 [] n = "PLAN" -> 4 [] OTHER -> 0
Max2(a, b) == IF a >= b THEN a ELSE b
SetMax(S) == IF S = {} THEN 0 ELSE CHOOSE x \in S : \A y \in S : x >= y

StaticStates == {"UNCONFIRMED", "MISSING", "CONFIRMED"}
OutputStates == {"PLANNED", "BUILT", "OUTDATED"}
VolatileStates == {"VOLATILE"}
Role(fs) == IF fs \in StaticStates THEN "STATIC"
            ELSE IF fs \in OutputStates THEN "OUTPUT"
            ELSE IF fs \in VolatileStates THEN "VOLATILE" ELSE "NONE"
Available == {"BUILT", "CONFIRMED"}

(* ------------------------------ accessors ------------------------------ *)
Keys(db) == DOMAIN db.nodes
Nd(db, k) == db.nodes[k]
Steps(db) == {k \in Keys(db) : db.nodes[k].kind = "step"}
Files(db) == {k \in Keys(db) : db.nodes[k].kind = "file"}
Trees(db) == {k \in Keys(db) : db.nodes[k].kind = "st"}
Attached(db, k) == ~db.nodes[k].detached
DepT(db) == Range(db.deps)
Deps(db) == {<<d[1], d[2]>> : d \in DepT(db)}
IsDyn(db, a, b) == \E d \in DepT(db) : d[1] = a /\ d[2] = b /\ d[3]
Sources(db, n) == {d[1] : d \in {x \in DepT(db) : x[2] = n}}
Sinks(db, n) == {d[2] : d \in {x \in DepT(db) : x[1] = n}}
Products(db, n) == {k \in Keys(db) : db.nodes[k].creator = n /\ k # n}
Up(db, k) == db.nodes[k].creator

(* Byte-for-byte "p lies under directory d" (d carries its trailing slash). *)
Under(d, p) == Len(p) > Len(d) /\ SubSeq(p, 1, Len(d)) = d

(* ------------------------- C09: well-formedness ------------------------- *)
RECURSIVE ReachFrom(_, _, _)
ReachFrom(db, frontier, seen) ==
  IF frontier = {} THEN seen
  ELSE LET nxt == {k \in Keys(db) : Up(db, k) \in frontier} \ (seen \cup frontier)
       IN ReachFrom(db, nxt, seen \cup frontier)
Reach(db) == ReachFrom(db, {ROOT}, {})

RECURSIVE DownClosure(_, _, _)
DownClosure(db, frontier, seen) ==
  IF frontier = {} THEN seen
  ELSE LET nxt == UNION {Sinks(db, k) : k \in frontier} \ (seen \cup frontier)
       IN DownClosure(db, nxt, seen \cup frontier)
(* all nodes reachable from n along dependency edges (n excluded unless on a cycle) *)
Downstream(db, n) == DownClosure(db, Sinks(db, n), {})
Acyclic(db) == \A n \in Keys(db) : n \notin Downstream(db, n)

CreatorKindOK(ck, k) ==
  \/ k = "file" /\ ck \in {"step", "st", "root"}
  \/ k = "step" /\ ck \in {"step", "root"}
  \/ k = "st" /\ ck = "step"
DepKindOK(a, b) ==
  \/ a = "file" /\ b = "step"
  \/ a = "step" /\ b = "file"
  \/ a = "st" /\ b = "file"

WellFormedViolations(db) ==
  LET reach == Reach(db) IN
    {<<"root_present", x>> : x \in {1} \ {i \in {1} : ROOT \in Keys(db) /\ ~db.nodes[ROOT].detached}}
  \cup {<<"detached_iff_unreachable", k>> : k \in {k \in Keys(db) :
            db.nodes[k].detached = (k \in reach)}}
  \cup {<<"null_creator_is_detached", k>> : k \in {k \in Keys(db) :
            k # ROOT /\ Up(db, k) = NULL /\ ~db.nodes[k].detached}}
  \cup {<<"creator_exists", k>> : k \in {k \in Keys(db) :
            Up(db, k) # NULL /\ Up(db, k) \notin Keys(db)}}
  \cup {<<"creator_kind", k>> : k \in {k \in Keys(db) : k # ROOT /\ Up(db, k) \in Keys(db)
            /\ ~CreatorKindOK(db.nodes[Up(db, k)].kind, db.nodes[k].kind)}}
  \cup {<<"dep_endpoints_exist", d>> : d \in {d \in Deps(db) :
            d[1] \notin Keys(db) \/ d[2] \notin Keys(db)}}
  \cup {<<"dep_kind", d>> : d \in {d \in Deps(db) : d[1] \in Keys(db) /\ d[2] \in Keys(db)
            /\ ~DepKindOK(db.nodes[d[1]].kind, db.nodes[d[2]].kind)}}
  \cup {<<"deps_acyclic", x>> : x \in {1} \ {i \in {1} : Acyclic(db)}}
  \cup {<<"undeclared_is_detached", f>> : f \in {f \in Files(db) :
            db.nodes[f].fstate = "UNDECLARED" /\ ~db.nodes[f].detached}}
  \cup {<<"hash_required", f>> : f \in {f \in Files(db) :
            db.nodes[f].fstate \in {"CONFIRMED", "BUILT", "OUTDATED"} /\ db.nodes[f].fhash = NULL}}
  \cup {<<"hash_forbidden", f>> : f \in {f \in Files(db) :
            db.nodes[f].fstate \in {"MISSING", "PLANNED", "VOLATILE"} /\ db.nodes[f].fhash # NULL}}
  \cup {<<"file_row_present", f>> : f \in {f \in Files(db) : db.nodes[f].fstate = NULL}}
  \cup {<<"step_row_present", s>> : s \in {s \in Steps(db) : db.nodes[s].sstate = NULL}}
  \cup {<<"deferred_implies_pending", s>> : s \in {s \in Steps(db) :
            db.nodes[s].deferred /\ db.nodes[s].sstate # "PENDING"}}
  \cup {<<"holding_implies_running", s>> : s \in {s \in Steps(db) :
            db.nodes[s].holding > 0 /\ db.nodes[s].sstate # "RUNNING"}}
  \cup {<<"failed_has_no_hash", s>> : s \in {s \in Steps(db) :
            db.nodes[s].sstate = "FAILED" /\ db.nodes[s].hasStepHash}}
  \cup {<<"succeeded_outputs_built", s>> : s \in {s \in Steps(db) :
            db.nodes[s].sstate = "SUCCEEDED" /\
            \E f \in Sinks(db, s) : ~db.nodes[f].detached
                 /\ db.nodes[f].fstate \notin {"BUILT", "VOLATILE"}}}
  \cup {<<"has_hash_column", s>> : s \in {s \in Steps(db) :
            db.nodes[s].hasHashCol # db.nodes[s].hasStepHash}}
  \cup {<<"safe_nh_weaker", s>> : s \in {s \in Steps(db) : db.nodes[s].safe /\ ~db.nodes[s].safeNH}}
  \cup {<<"attached_file_has_role", f>> : f \in {f \in Files(db) :
            ~db.nodes[f].detached /\ Role(db.nodes[f].fstate) = "NONE"}}
  \cup {<<"output_created_by_step", f>> : f \in {f \in Files(db) : ~db.nodes[f].detached
            /\ Role(db.nodes[f].fstate) \in {"OUTPUT", "VOLATILE"}
            /\ Up(db, f) \in Keys(db) /\ db.nodes[Up(db, f)].kind # "step"}}
  \cup {<<"output_is_sink_of_creator", f>> : f \in {f \in Files(db) : ~db.nodes[f].detached
            /\ Role(db.nodes[f].fstate) \in {"OUTPUT", "VOLATILE"}
            /\ <<Up(db, f), f>> \notin Deps(db)}}
  \cup {<<"volatile_has_no_consumer", f>> : f \in {f \in Files(db) : ~db.nodes[f].detached
            /\ db.nodes[f].fstate = "VOLATILE"
            /\ \E t \in Sinks(db, f) : ~db.nodes[t].detached}}

(* --------------------------- C08: ownership ----------------------------- *)
OwnershipViolations(db) ==
    {<<"tree_owns_all", f>> : f \in {f \in Files(db) : ~db.nodes[f].detached /\
         \E t \in Trees(db) : ~db.nodes[t].detached
              /\ Under(db.nodes[t].label, db.nodes[f].label) /\ Up(db, f) # t}}
  \cup {<<"tree_contains_only_static", f>> : f \in {f \in Files(db) : ~db.nodes[f].detached /\
         Role(db.nodes[f].fstate) # "STATIC" /\
         \E t \in Trees(db) : ~db.nodes[t].detached /\ Under(db.nodes[t].label, db.nodes[f].label)}}
  \cup {<<"trees_disjoint", t>> : t \in {t \in Trees(db) : ~db.nodes[t].detached /\
         \E u \in Trees(db) : u # t /\ ~db.nodes[u].detached
              /\ Under(db.nodes[u].label, db.nodes[t].label)}}
  \cup {<<"step_output_single_producer", f>> : f \in {f \in Files(db) :
         Cardinality({s \in Sources(db, f) : db.nodes[s].kind = "step"}) > 1}}

(* recorded matches of attached patterns never include an attached build product;            *)
(* evaluated right after an accepted declaration (the startup rescan may record such a match  *)
(* before the owner of the pattern reruns and is rejected)                                    *)
GlobProductViolations(db) ==
  {<<"glob_match_is_a_build_product", s>> : s \in {s \in Steps(db) : ~db.nodes[s].detached /\
         db.nodes[s].sstate # "PENDING" /\
         \E i \in DOMAIN db.nodes[s].nglobs : \E j \in DOMAIN db.nodes[s].nglobs[i][3] :
            LET f == "file:" \o db.nodes[s].nglobs[i][3][j] IN
              f \in Keys(db) /\ ~db.nodes[f].detached /\ Role(db.nodes[f].fstate) \in {"OUTPUT", "VOLATILE"}}}

GlobBuildsProduct(db) ==
  \E s \in Steps(db) : ~db.nodes[s].detached /\
     \E i \in DOMAIN db.nodes[s].nglobs :
        \E j \in DOMAIN db.nodes[s].nglobs[i][3] :
           LET f == "file:" \o db.nodes[s].nglobs[i][3][j] IN
             f \in Keys(db) /\ ~db.nodes[f].detached
               /\ Role(db.nodes[f].fstate) \in {"OUTPUT", "VOLATILE"}

(* -------------------- C10: scheduling attributes (definitions) ---------- *)
IsStepKey(db, k) == k \in Keys(db) /\ db.nodes[k].kind = "step"

RECURSIVE SafeDef(_, _), SafeNHDef(_, _)
SafeDef(db, s) ==
  LET c == Up(db, s) IN
    IF c = NULL \/ ~IsStepKey(db, c) THEN TRUE
    ELSE SafeDef(db, c) /\ db.nodes[c].sstate \in {"RUNNING", "SUCCEEDED"}
           /\ db.nodes[c].holding = 0
SafeNHDef(db, s) ==
  LET c == Up(db, s) IN
    IF c = NULL \/ ~IsStepKey(db, c) THEN TRUE
    ELSE SafeNHDef(db, c) /\ db.nodes[c].sstate \in {"RUNNING", "SUCCEEDED"}

Blocks(db, f, s) ==
  \/ db.nodes[f].fstate = "VOLATILE"
  \/ IsDyn(db, f, s) /\ ~db.nodes[f].detached /\ db.nodes[f].fstate \in {"PLANNED", "OUTDATED"}
  \/ ~IsDyn(db, f, s) /\ (db.nodes[f].detached \/ db.nodes[f].fstate \notin Available)
ReadyDef(db, s) == \A f \in Sources(db, s) : ~Blocks(db, f, s)

RegularOutputs(db, s) ==
  {f \in Sinks(db, s) : ~db.nodes[f].detached /\ db.nodes[f].fstate # "VOLATILE"}
TargetElev(db, mem, s) ==
  IF \E f \in RegularOutputs(db, s) : db.nodes[f].label \in mem.targets THEN 3
  ELSE IF db.nodes[s].need = "DEFAULT" /\
          \E f \in RegularOutputs(db, s) : \E d \in mem.targetDirs : Under(d, db.nodes[f].label)
       THEN 3 ELSE 1
Consumers(db, s) ==
  {t \in Steps(db) : ~db.nodes[t].detached /\ \E f \in Sinks(db, s) : <<f, t>> \in Deps(db)}

RECURSIVE ImpliedNeedDef(_, _, _, _)
(* fuel bounds the recursion on (erroneously) cyclic graphs *)
ImpliedNeedDef(db, mem, s, fuel) ==
  IF fuel = 0 THEN NeedRank(db.nodes[s].need)
  ELSE SetMax({NeedRank(db.nodes[s].need), TargetElev(db, mem, s)}
              \cup {ImpliedNeedDef(db, mem, t, fuel - 1) : t \in Consumers(db, s)})

Threshold(mem) == IF mem.targets # {} \/ mem.targetDirs # {} THEN 2 ELSE 1

ResUnits(db, s, r) ==
  LET hits == {i \in DOMAIN db.nodes[s].resources : db.nodes[s].resources[i][1] = r}
  IN IF hits = {} THEN 0 ELSE db.nodes[s].resources[CHOOSE i \in hits : TRUE][2]
ResNames(db, s) == {db.nodes[s].resources[i][1] : i \in DOMAIN db.nodes[s].resources}

RECURSIVE SumUnits(_, _, _)
SumUnits(db, S, r) ==
  IF S = {} THEN 0
  ELSE LET x == CHOOSE x \in S : TRUE IN ResUnits(db, x, r) + SumUnits(db, S \ {x}, r)

(* running = steps whose state is RUNNING, excluding "self" *)
ResourcesFree(db, mem, s) ==
  \A r \in ResNames(db, s) :
     /\ r \in DOMAIN mem.avail
     /\ mem.avail[r] - SumUnits(db, {t \in Steps(db) : t # s /\ db.nodes[t].sstate = "RUNNING"
                                        /\ r \in ResNames(db, t)}, r) >= ResUnits(db, s, r)

(* Eligibility of s, reading s's own state as PENDING when asIfPending *)
Eligible(db, mem, s, asIfPending) ==
  LET inr == ImpliedNeedDef(db, mem, s, Cardinality(Steps(db)) + 1) IN
  /\ (asIfPending \/ db.nodes[s].sstate = "PENDING")
  /\ ~db.nodes[s].detached
  /\ ~db.nodes[s].deferred
  /\ inr > 1 /\ inr > Threshold(mem)
  /\ (SafeDef(db, s) \/ (db.nodes[s].hasStepHash /\ SafeNHDef(db, s)))
  /\ ReadyDef(db, s)
  /\ (db.nodes[s].hasStepHash \/ ResourcesFree(db, mem, s))

(* C11: a step is needed when its need, by definition, exceeds the threshold of this build *)
NeededStep(db, mem, s) ==
  LET inr == ImpliedNeedDef(db, mem, s, Cardinality(Steps(db)) + 1) IN inr > 1 /\ inr > Threshold(mem)

EligibleSteps(db, mem) == {s \in Steps(db) : Eligible(db, mem, s, FALSE)}

(* why a dispatched step was not eligible: names the failing conjunct *)
DispatchViolations(db, mem, s, kind) ==
  IF s \notin Steps(db) THEN {<<"dispatch_unknown_step", s>>} ELSE
  LET inr == ImpliedNeedDef(db, mem, s, Cardinality(Steps(db)) + 1) IN
    {<<"dispatch_detached", x>> : x \in {1} \ {i \in {1} : ~db.nodes[s].detached}}
  \cup {<<"dispatch_deferred", x>> : x \in {1} \ {i \in {1} : ~db.nodes[s].deferred}}
  \cup {<<"dispatch_not_needed", x>> : x \in {1} \ {i \in {1} : inr > 1 /\ inr > Threshold(mem)}}
  \cup {<<"dispatch_unsafe_creator", x>> : x \in {1} \ {i \in {1} :
           SafeDef(db, s) \/ (db.nodes[s].hasStepHash /\ SafeNHDef(db, s))}}
  \cup {<<"dispatch_input_unavailable", x>> : x \in {1} \ {i \in {1} : ReadyDef(db, s)}}
  \cup {<<"dispatch_resources_busy", x>> : x \in {1} \ {i \in {1} :
           db.nodes[s].hasStepHash \/ ResourcesFree(db, mem, s)}}

(* cached columns agree with their definitions; evaluated when a decision is taken *)
CacheViolations(db, mem) ==
  LET fuel == Cardinality(Steps(db)) + 1 IN
    {<<"cache_flags_pending", s>> : s \in {s \in Steps(db) :
         ~db.nodes[s].detached /\
         (db.nodes[s].chkSafe \/ db.nodes[s].chkReady \/ db.nodes[s].chkAfter)}}
  \cup {<<"cache_safe", s>> : s \in {s \in Steps(db) : ~db.nodes[s].detached /\ db.nodes[s].safe # SafeDef(db, s)}}
  \cup {<<"cache_safe_nh", s>> : s \in {s \in Steps(db) : ~db.nodes[s].detached /\ db.nodes[s].safeNH # SafeNHDef(db, s)}}
  \cup {<<"cache_ready", s>> : s \in {s \in Steps(db) : ~db.nodes[s].detached /\ db.nodes[s].ready # ReadyDef(db, s)}}
  \cup {<<"cache_implied_need", s>> : s \in {s \in Steps(db) : ~db.nodes[s].detached /\
         NeedRank(db.nodes[s].impliedNeed) # ImpliedNeedDef(db, mem, s, fuel)}}

(* weaker form that must hold after EVERY commit: unflagged values are exact *)
RECURSIVE AncFlagged(_, _)
AncFlagged(db, s) ==
  db.nodes[s].chkSafe \/
    (LET c == Up(db, s) IN c # NULL /\ IsStepKey(db, c) /\ AncFlagged(db, c))
CacheWeakViolations(db) ==
    {<<"cache_weak_safe", s>> : s \in {s \in Steps(db) : ~db.nodes[s].detached /\
         ~AncFlagged(db, s) /\ db.nodes[s].safe # SafeDef(db, s)}}
  \cup {<<"cache_weak_safe_nh", s>> : s \in {s \in Steps(db) : ~db.nodes[s].detached /\
         ~AncFlagged(db, s) /\ db.nodes[s].safeNH # SafeNHDef(db, s)}}
  \cup {<<"cache_weak_ready", s>> : s \in {s \in Steps(db) : ~db.nodes[s].detached /\
         ~db.nodes[s].chkReady /\ db.nodes[s].ready # ReadyDef(db, s)}}

(* ------------------------ C09: transition relations ---------------------- *)
StepMoveOK(old, new, inflight) ==
  \/ old = new
  \/ new = "PENDING"
  \/ old = "PENDING" /\ new \in {"RUNNING", "CHECKING"}
  \/ old = "RUNNING" /\ new = "FAILED"            \* completion, or the reset of an interrupted step
  \/ old = "RUNNING" /\ new = "SUCCEEDED" /\ inflight  \* only the job that was dispatched completes it
  \/ old = "CHECKING" /\ new \in {"SUCCEEDED", "FAILED"} /\ inflight
  \/ old = "PENDING" /\ new \in {"SUCCEEDED", "FAILED"} /\ inflight   \* CompletionAfterRedeclare

HashTableMoves ==
  { <<"MISSING", "CONFIRMED">>, <<"CONFIRMED", "CONFIRMED">>, <<"CONFIRMED", "MISSING">>,
    <<"BUILT", "PLANNED">>, <<"OUTDATED", "PLANNED">>, <<"OUTDATED", "BUILT">>,
    <<"PLANNED", "BUILT">>, <<"BUILT", "OUTDATED">>, <<"PLANNED", "OUTDATED">>,
    <<"UNCONFIRMED", "CONFIRMED">>, <<"UNCONFIRMED", "MISSING">>,
    <<"MISSING", "MISSING">> }
(* one commit may compose two documented moves (e.g. PLANNED->BUILT->OUTDATED) *)
Compose2 ==
  {<<q[1][1], q[2][2]>> : q \in {p \in HashTableMoves \X HashTableMoves : p[1][2] = p[2][1]}}
AttachedMoves == HashTableMoves \cup Compose2

FileMoveOK(oldS, newS, oldDetached, oldCreatorKind) ==
  \/ oldS = newS
  \/ <<oldS, newS>> \in AttachedMoves
  (* re-declaration of a detached node (Trellis.create partial recycle) *)
  \/ oldDetached /\ newS \in {"UNCONFIRMED", "PLANNED", "VOLATILE", "UNDECLARED", "OUTDATED",
                              "CONFIRMED", "MISSING"}

TransitionViolations(old, new, inflight) ==
  LET common == Keys(old) \cap Keys(new) IN
    {<<"step_move", s>> : s \in {s \in common : old.nodes[s].kind = "step" /\ new.nodes[s].kind = "step"
         /\ ~StepMoveOK(old.nodes[s].sstate, new.nodes[s].sstate, s \in inflight)}}
  \cup {<<"file_move", f>> : f \in {f \in common : old.nodes[f].kind = "file" /\ new.nodes[f].kind = "file"
         /\ ~FileMoveOK(old.nodes[f].fstate, new.nodes[f].fstate, old.nodes[f].detached,
                        IF Up(old, f) \in Keys(old) THEN old.nodes[Up(old, f)].kind ELSE NULL)}}
  \cup {<<"file_role_change_while_attached", f>> : f \in {f \in common :
         old.nodes[f].kind = "file" /\ new.nodes[f].kind = "file"
         /\ ~old.nodes[f].detached /\ ~new.nodes[f].detached
         /\ Role(old.nodes[f].fstate) # Role(new.nodes[f].fstate)}}
  \cup {<<"new_step_pending", s>> : s \in {s \in Keys(new) \ Keys(old) :
         new.nodes[s].kind = "step" /\ new.nodes[s].sstate # "PENDING"}}
  \cup {<<"new_file_state", f>> : f \in {f \in Keys(new) \ Keys(old) : new.nodes[f].kind = "file"
         /\ new.nodes[f].fstate \notin {"UNDECLARED", "UNCONFIRMED", "PLANNED", "VOLATILE"}
         /\ ~(Up(new, f) = ROOT /\ new.nodes[f].fstate \in {"CONFIRMED", "MISSING"})}}
  \cup {<<"deleted_was_detached", k>> : k \in {k \in Keys(old) \ Keys(new) :
         ~old.nodes[k].detached
         /\ ~(old.nodes[k].kind = "file" /\ Up(old, k) \in Keys(old)
              /\ old.nodes[Up(old, k)].kind = "st"
              /\ ~\E t \in Sinks(old, k) : ~old.nodes[t].detached)}}
  \cup {<<"kind_immutable", k>> : k \in {k \in common : old.nodes[k].kind # new.nodes[k].kind}}

DeferViolations(old, new, cap) ==
  {<<"defer_cap_exceeded_not_failed", s>> : s \in {s \in Keys(old) \cap Keys(new) :
      new.nodes[s].kind = "step" /\ old.nodes[s].kind = "step"
      /\ new.nodes[s].deferCount > old.nodes[s].deferCount
      /\ new.nodes[s].deferCount > cap /\ new.nodes[s].sstate # "FAILED"}}

(* ---------------------- C19: return code at phase end -------------------- *)
RequiredPending(db, mem) ==
  {s \in Steps(db) : ~db.nodes[s].detached /\ db.nodes[s].sstate = "PENDING"
       /\ NeedRank(db.nodes[s].impliedNeed) > Threshold(mem)}
AttachedFailed(db) ==
  {s \in Steps(db) : ~db.nodes[s].detached /\ db.nodes[s].sstate = "FAILED"}

(* ------------- canonical forms for relational properties (C01 C02 C04 C05 C14) ---------- *)
(* The active workflow: attached nodes with kind, creator, state, need, implied need, deferred, *)
(* recorded content; edges between attached nodes with their dynamic flag; satellites.         *)
NodeTuple(db, k) ==
  LET n == db.nodes[k] IN
    IF n.kind = "file" THEN <<k, n.creator, n.fstate, n.fhash, n.fmode>>
    ELSE IF n.kind = "step" THEN
      \* (the deferred flag and the defer count are scheduling memory -- how often a waiting step happened
      \* to be retried -- not part of what the plans define; they are compared by the C10 monitors)
      <<k, n.creator, n.sstate, n.need, n.impliedNeed, FALSE, n.shell,
        {<<n.envVars[i][1], n.envVars[i][3]>> : i \in DOMAIN n.envVars},   \* name, dynamic
        n.nglobs, n.resources, n.overrides>>
    ELSE <<k, n.creator>>
AttachedKeys(db) == {k \in Keys(db) : ~db.nodes[k].detached}
CanonNodes(db) == {NodeTuple(db, k) : k \in AttachedKeys(db)}
CanonEdges(db) == {d \in DepT(db) : d[1] \in AttachedKeys(db) /\ d[2] \in AttachedKeys(db)}
(* full rendering: detached nodes and the edges touching them included *)
NodeTuple2(db, k) == <<NodeTuple(db, k), db.nodes[k].detached,
                       IF db.nodes[k].kind = "step" THEN db.nodes[k].hasStepHash ELSE FALSE>>
Canon2Nodes(db) == {NodeTuple2(db, k) : k \in Keys(db)}
Canon2Edges(db) == DepT(db)

OutputPaths(db) ==
  {db.nodes[f].label : f \in {f \in Files(db) : ~db.nodes[f].detached
                                 /\ Role(db.nodes[f].fstate) \in {"OUTPUT", "VOLATILE"}}}
DiskContent(disk, p) == IF p \in DOMAIN disk.files THEN disk.files[p][1] ELSE "<absent>"

SymDiff(A, B) == (A \ B) \cup (B \ A)
PickOne(S) == IF S = {} THEN "" ELSE CHOOSE x \in S : TRUE

(* "Relaxed" canon: the dynamic memory of PENDING steps (amended inputs/outputs, dynamic     *)
(* env vars, patterns) is dropped.  After a successful build a PENDING attached step is an    *)
(* optional step that is not needed; what it amended in an earlier life is not part of what   *)
(* the current plans define.  (Known finding F3 labels differences that are only of this kind.) *)
PendingStep(db, s) == s \in Steps(db) /\ db.nodes[s].sstate = "PENDING"
DynMemoryEdge(db, d) ==
  d[3] /\ ((d[2] \in Keys(db) /\ PendingStep(db, d[2])) \/ (d[1] \in Keys(db) /\ PendingStep(db, d[1])))
DynOutputOfPending(db, f) ==
  f \in Files(db) /\ \E d \in DepT(db) : d[2] = f /\ d[3] /\ PendingStep(db, d[1])
RelaxedNodeTuple(db, k) ==
  LET n == db.nodes[k] IN
    IF n.kind = "step" /\ n.sstate = "PENDING" THEN
      <<k, n.creator, n.sstate, n.need, n.impliedNeed, FALSE, n.shell,
        {<<n.envVars[i][1], n.envVars[i][3]>> : i \in {j \in DOMAIN n.envVars : ~n.envVars[j][3]}},
        <<>>, n.resources, n.overrides>>
    ELSE NodeTuple(db, k)
\* a file of a static tree exists as a node only while something uses it: one that is used by
\* nothing but the dynamic memory of PENDING steps belongs to that memory
TreeFileOfDynMemory(db, f) ==
  /\ f \in Files(db) /\ db.nodes[f].creator \in Keys(db) /\ db.nodes[db.nodes[f].creator].kind = "st"
  /\ \A d \in DepT(db) : d[1] = f => DynMemoryEdge(db, d)
RelaxedNodes(db) ==
  {RelaxedNodeTuple(db, k) : k \in {k \in AttachedKeys(db) : ~DynOutputOfPending(db, k) /\ ~TreeFileOfDynMemory(db, k)}}
RelaxedEdges(db) ==
  {d \in CanonEdges(db) : ~DynMemoryEdge(db, d) /\ ~DynOutputOfPending(db, d[1])
                          /\ ~DynOutputOfPending(db, d[2])}

(* attached graphs equal + declared (non-volatile) outputs have equal content on disk *)
CanonDiff(a, da, b, db_) ==
  LET strictN == SymDiff(CanonNodes(a), CanonNodes(b))
      strictE == SymDiff(CanonEdges(a), CanonEdges(b))
      relN == SymDiff(RelaxedNodes(a), RelaxedNodes(b))
      relE == SymDiff(RelaxedEdges(a), RelaxedEdges(b))
  IN
     {<<"active_nodes_differ", x>> : x \in relN}
  \cup {<<"active_edges_differ", x>> : x \in relE}
  \cup (IF relN = {} /\ relE = {} /\ (strictN # {} \/ strictE # {})
        THEN {<<"dynamic_memory_of_pending_step_differs", PickOne(strictN \cup strictE),
                "F3-dynamic-memory-of-reverted-optional-step">>}
        ELSE {})
  \cup {<<"output_content_differs", p>> : p \in {p \in OutputPaths(a) \cup OutputPaths(b) :
          ~(("file:" \o p) \in Keys(a) /\ a.nodes["file:" \o p].fstate = "VOLATILE")
          /\ ~(("file:" \o p) \in Keys(a) /\ DynOutputOfPending(a, "file:" \o p))
          /\ ~(("file:" \o p) \in Keys(b) /\ DynOutputOfPending(b, "file:" \o p))
          /\ DiskContent(da, p) # DiskContent(db_, p)}}
\* F23: the two graphs differ only in whether the remembered state of a DETACHED former output
\* (kept because an attached step still names it as input) is BUILT or OUTDATED
DetachedMemoryOnly(a, b) ==
  /\ Keys(a) = Keys(b)
  /\ \A k \in Keys(a) : NodeTuple2(a, k) # NodeTuple2(b, k) =>
        /\ a.nodes[k].kind = "file" /\ a.nodes[k].detached /\ b.nodes[k].detached
        /\ a.nodes[k].creator = b.nodes[k].creator
        /\ {a.nodes[k].fstate, b.nodes[k].fstate} \subseteq {"BUILT", "OUTDATED"}
Canon2Diff(a, b) ==
     {<<"graph_nodes_differ", PickOne(SymDiff(Canon2Nodes(a), Canon2Nodes(b))),
        IF DetachedMemoryOnly(a, b) THEN "F23-detached-output-memory-depends-on-schedule" ELSE "">> :
          x \in {1} \ {i \in {1} : Canon2Nodes(a) = Canon2Nodes(b)}}
  \cup {<<"graph_edges_differ", PickOne(SymDiff(Canon2Edges(a), Canon2Edges(b)))>> :
          x \in {1} \ {i \in {1} : Canon2Edges(a) = Canon2Edges(b)}}

\* bits: 1 INTERNAL, 2 INTERRUPTED, 4 FAILED, 8 WARNING, 16 PENDING, 32 DRAINED.  DRAINED means the build
\* was cut short after a failure (the failed step itself may have been detached or re-created since)
RcClass(rc) == IF rc = 0 \/ rc = 8 THEN "success"
               ELSE IF (rc \div 4) % 2 = 1 \/ (rc \div 32) % 2 = 1 THEN "failed"
               ELSE IF (rc \div 16) % 2 = 1 THEN "pending" ELSE "other"

=============================================================================
