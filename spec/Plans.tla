-------------------------------- MODULE Plans --------------------------------
(***************************************************************************)
(* Two plans and one step that moves between them.                          *)
(*                                                                         *)
(* P is the top-level plan, Q a sub-plan that P defines, A a step that the  *)
(* current scripts define in exactly one of the two plans (`owner`).  An    *)
(* edit changes the owner and makes both plans pending (their scripts       *)
(* changed).  The model follows trellis.py / step.py / workflow.py:         *)
(*   Start(pl)     pl is dispatched and reset: the steps it created are     *)
(*                 detached (recursively)                                   *)
(*   DefQ          P defines Q again: a detached Q is recycled, which       *)
(*                 re-attaches everything below it                          *)
(*   DefA(pl)      pl defines A: recycled when detached, created when       *)
(*                 absent, REJECTED ("defined by both") when attached       *)
(*   Finish(pl)    pl completes (a rejected definition makes it FAIL, and   *)
(*                 a failed plan detaches what it created)                  *)
(*   Edit          the owner of A changes                                   *)
(*   Clean         delete_detached after a successful build                 *)
(* Q can be dispatched when P is RUNNING or SUCCEEDED (a product is safe    *)
(* while its creator runs).                                                 *)
(*                                                                         *)
(* NoSpuriousRejection: the scripts never define A twice, so no definition  *)
(* should ever be rejected.  It is violated (finding F17): after an edit    *)
(* that moves A from Q to P, P runs first, recycles Q together with the A   *)
(* of Q's previous run, and its own definition of A is rejected.            *)
(* OrderIndependent: whether the build after an edit fails depends on which *)
(* plan runs first (C02).                                                   *)
(* Replay mode: sequences evaluated by TLC are executed on the real         *)
(* Workflow by checks/plans.py and compared after every action.             *)
(***************************************************************************)
EXTENDS Naturals, Sequences, FiniteSets, TLC, Json, IOUtils

Null == "NULL"
Gone == [ex |-> FALSE, det |-> FALSE, cr |-> Null, st |-> "NONE"]
\* state: p (state of P), q, a (nodes), owner (who defines A now), rej (a definition was rejected),
\* ran (plans that executed their script since the last edit)
S0 == [p |-> "PENDING", q |-> Gone, a |-> Gone, owner |-> "Q", rej |-> FALSE, prej |-> FALSE, qrej |-> FALSE]

Att(n) == n.ex /\ ~n.det

StartPEnabled(s) == s.p = "PENDING"
\* reset: Q (created by P) is detached with what is below it; A is detached when P owns it
DoStartP(s) ==
  LET q1 == IF s.q.ex /\ s.q.cr = "P" THEN [s.q EXCEPT !.cr = Null, !.det = TRUE] ELSE s.q
      a1 == IF s.a.ex /\ s.a.cr = "P" THEN [s.a EXCEPT !.cr = Null, !.det = TRUE]
            ELSE IF s.a.ex /\ s.a.cr = "Q" /\ s.q.ex /\ s.q.cr = "P" THEN [s.a EXCEPT !.det = TRUE] ELSE s.a
  IN [s EXCEPT !.p = "RUNNING", !.q = q1, !.a = a1, !.prej = FALSE]

DefQEnabled(s) == s.p = "RUNNING" /\ ~Att(s.q)
\* recycle (the declaration of Q never changes): re-attached with everything below it; state kept,
\* a FAILED one is made pending
DoDefQ(s) ==
  LET q1 == IF s.q.ex THEN [s.q EXCEPT !.cr = "P", !.det = FALSE, !.st = IF s.q.st = "FAILED" THEN "PENDING" ELSE s.q.st]
            ELSE [ex |-> TRUE, det |-> FALSE, cr |-> "P", st |-> "PENDING"]
      a1 == IF s.a.ex /\ s.a.cr = "Q" THEN [s.a EXCEPT !.det = FALSE] ELSE s.a
  IN [s EXCEPT !.q = q1, !.a = a1]

Running(s, pl) == IF pl = "P" THEN s.p = "RUNNING" ELSE s.q.ex /\ s.q.st = "RUNNING"
DefAEnabled(s, pl) == Running(s, pl) /\ s.owner = pl
DoDefA(s, pl) ==
  IF Att(s.a)
  THEN \* "Step (A) is defined by both ...": the request is rejected, the script of pl aborts
       [s EXCEPT !.rej = TRUE, !.prej = (pl = "P") \/ s.prej, !.qrej = (pl = "Q") \/ s.qrej]
  ELSE LET det == IF pl = "Q" THEN s.q.det ELSE FALSE IN
       [s EXCEPT !.a = [ex |-> TRUE, det |-> det, cr |-> pl,
                        st |-> IF s.a.ex /\ s.a.st = "FAILED" THEN "PENDING" ELSE IF s.a.ex THEN s.a.st ELSE "PENDING"]]

FinishPEnabled(s) == s.p = "RUNNING"
DoFinishP(s) ==
  IF s.prej
  THEN \* failed: created steps are detached
       LET q1 == IF s.q.ex /\ s.q.cr = "P" THEN [s.q EXCEPT !.cr = Null, !.det = TRUE] ELSE s.q
           a1 == IF s.a.ex /\ s.a.cr = "P" THEN [s.a EXCEPT !.cr = Null, !.det = TRUE]
                 ELSE IF s.a.ex /\ s.a.cr = "Q" /\ s.q.ex /\ s.q.cr = "P" THEN [s.a EXCEPT !.det = TRUE] ELSE s.a
       IN [s EXCEPT !.p = "FAILED", !.q = q1, !.a = a1]
  ELSE [s EXCEPT !.p = "SUCCEEDED"]

StartQEnabled(s) == Att(s.q) /\ s.q.st = "PENDING" /\ s.p \in {"RUNNING", "SUCCEEDED"}
DoStartQ(s) ==
  LET a1 == IF s.a.ex /\ s.a.cr = "Q" THEN [s.a EXCEPT !.cr = Null, !.det = TRUE] ELSE s.a
  IN [s EXCEPT !.q.st = "RUNNING", !.a = a1, !.qrej = FALSE]
FinishQEnabled(s) == s.q.ex /\ s.q.st = "RUNNING"
DoFinishQ(s) ==
  IF s.qrej
  THEN [s EXCEPT !.q.st = "FAILED", !.a = IF s.a.ex /\ s.a.cr = "Q" THEN [s.a EXCEPT !.cr = Null, !.det = TRUE] ELSE s.a]
  ELSE [s EXCEPT !.q.st = "SUCCEEDED"]

\* the user moves the definition of A to the other plan: both scripts change
EditEnabled(s) == s.p \in {"SUCCEEDED", "FAILED"} /\ ~(s.q.ex /\ s.q.st = "RUNNING")
DoEdit(s) ==
  [s EXCEPT !.owner = IF s.owner = "P" THEN "Q" ELSE "P", !.p = "PENDING",
            !.q = IF s.q.ex /\ s.q.st \in {"SUCCEEDED", "FAILED"} THEN [s.q EXCEPT !.st = "PENDING"] ELSE s.q]

CleanEnabled(s) == s.p = "SUCCEEDED" /\ ~(s.q.ex /\ s.q.st = "RUNNING")
DoClean(s) ==
  LET a1 == IF s.a.ex /\ s.a.det THEN Gone ELSE s.a
      q1 == IF s.q.ex /\ s.q.det /\ ~(a1.ex /\ a1.cr = "Q") THEN Gone ELSE s.q
  IN [s EXCEPT !.a = a1, !.q = q1]

(* ------------------------------------ model mode ------------------------------------ *)
VARIABLES s, n, l, out, ak, cur, acc
vars == <<s, n, l, out, ak, cur, acc>>
MInit == s = S0 /\ n = 0 /\ l = 0 /\ out = <<>> /\ ak = 0 /\ cur = 0 /\ acc = <<>>
MNext ==
  /\ n' = n + 1
  /\ UNCHANGED <<l, out, ak, cur, acc>>
  /\ \/ StartPEnabled(s) /\ s' = DoStartP(s)
     \/ DefQEnabled(s) /\ s' = DoDefQ(s)
     \/ \E pl \in {"P", "Q"} : DefAEnabled(s, pl) /\ s' = DoDefA(s, pl)
     \/ FinishPEnabled(s) /\ s' = DoFinishP(s)
     \/ StartQEnabled(s) /\ s' = DoStartQ(s)
     \/ FinishQEnabled(s) /\ s' = DoFinishQ(s)
     \/ EditEnabled(s) /\ s' = DoEdit(s)
     \/ CleanEnabled(s) /\ s' = DoClean(s)
MSpec == MInit /\ [][MNext]_vars
MView == s
MBound == n <= 16
\* sanity: ownership is well formed
OwnerOK == (Att(s.a) => (s.a.cr = "P" \/ (s.a.cr = "Q" /\ Att(s.q)))) /\ (Att(s.q) => s.q.cr = "P")
\* F17: violated
NoSpuriousRejection == ~s.rej

(* ------------------------------------- replay ------------------------------------- *)
Lines == ndJsonDeserialize(IOEnv.TRACE_FILE)
NL == Len(Lines)
Apply(s0, a) ==
  CASE a.a = "startP" -> IF StartPEnabled(s0) THEN <<TRUE, DoStartP(s0)>> ELSE <<FALSE, s0>>
    [] a.a = "defQ" -> IF DefQEnabled(s0) THEN <<TRUE, DoDefQ(s0)>> ELSE <<FALSE, s0>>
    [] a.a = "defA" -> IF DefAEnabled(s0, a.pl) THEN <<TRUE, DoDefA(s0, a.pl)>> ELSE <<FALSE, s0>>
    [] a.a = "finishP" -> IF FinishPEnabled(s0) THEN <<TRUE, DoFinishP(s0)>> ELSE <<FALSE, s0>>
    [] a.a = "startQ" -> IF StartQEnabled(s0) THEN <<TRUE, DoStartQ(s0)>> ELSE <<FALSE, s0>>
    [] a.a = "finishQ" -> IF FinishQEnabled(s0) THEN <<TRUE, DoFinishQ(s0)>> ELSE <<FALSE, s0>>
    [] a.a = "edit" -> IF EditEnabled(s0) THEN <<TRUE, DoEdit(s0)>> ELSE <<FALSE, s0>>
    [] a.a = "clean" -> IF CleanEnabled(s0) THEN <<TRUE, DoClean(s0)>> ELSE <<FALSE, s0>>
Init == l = 1 /\ out = <<>> /\ s = 0 /\ n = 0 /\ ak = 0 /\ cur = S0 /\ acc = <<>>
Next ==
  /\ l <= NL
  /\ UNCHANGED <<s, n>>
  /\ IF ak < Len(Lines[l].acts)
     THEN LET r == Apply(cur, Lines[l].acts[ak + 1]) IN
          /\ ak' = ak + 1
          /\ cur' = r[2]
          /\ acc' = Append(acc, [enabled |-> r[1], st |-> r[2]])
          /\ UNCHANGED <<l, out>>
     ELSE /\ out' = Append(out, [id |-> Lines[l].id, states |-> acc])
          /\ l' = l + 1 /\ ak' = 0 /\ cur' = S0 /\ acc' = <<>>
          /\ (l' = NL + 1) => JsonSerialize(IOEnv.VERDICT_FILE, [vectors |-> out', n |-> NL])
Spec == Init /\ [][Next]_vars
Consumed == TLCGet("stats").diameter >= NL
=============================================================================
