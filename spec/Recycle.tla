------------------------------- MODULE Recycle -------------------------------
(***************************************************************************)
(* Re-execution of a plan: detach, re-declare (recycle or re-create),      *)
(* finish, clean up.  The part of the workflow that decides what survives  *)
(* a plan edit (trellis.py: Node.detach / reattach / Trellis.create /      *)
(* try_recycle / delete_detached; step.py: reset_for_rerun, can_recycle,   *)
(* after_recycle, after_lost_product, mark_completed; file.py:             *)
(* initialize_row; workflow.py: define_step, declare_static_files,         *)
(* _supply_files).                                                          *)
(*                                                                         *)
(* Universe: the plan P (always attached), two steps A and B it may        *)
(* define, a static file x it may declare, one output per step (oa, ob).   *)
(* A declaration of a step names its inputs: A: {} or {x}; B: a subset of  *)
(* {x, oa}.  One action per transaction:                                    *)
(*   StartP        P is dispatched and reset (its products are detached)    *)
(*   Static        P declares x static (and it is confirmed on disk)        *)
(*   Define(s, I)  P defines step s with inputs I                           *)
(*   FinishP(ok)   P completes                                              *)
(*   PendP         something makes P pending again (its script changed)     *)
(*   Start/Succeed/Fail(s)  a child runs                                    *)
(*   Clean         delete_detached at the end of a successful build         *)
(* Replay mode: TLC evaluates action sequences proposed by                  *)
(* checks/recycle.py and writes the state after every action; the harness   *)
(* executes the same calls on the real Workflow and compares every node.    *)
(***************************************************************************)
EXTENDS Naturals, Sequences, FiniteSets, TLC, Json, IOUtils

Steps == {"A", "B"}
Out(s) == IF s = "A" THEN "oa" ELSE "ob"
Files == {"x", "oa", "ob"}
Nodes == Steps \cup Files
Null == "NULL"
Gone == [ex |-> FALSE, det |-> FALSE, cr |-> Null, st |-> "NONE", hash |-> FALSE, inp |-> {}]

\* st: [p : [st, hash], n : node -> record]
\* j: jobs in flight per step (dispatched, completion not yet recorded); crash: the director died
Init0 == [p |-> [st |-> "PENDING", hash |-> FALSE], n |-> [k \in Nodes |-> Gone], j |-> [s \in Steps |-> 0], crash |-> FALSE]

IsFile(k) == k \in Files
Products(st, k) == {m \in Nodes : st.n[m].ex /\ st.n[m].cr = k}
Consumers(st, f) == {s \in Steps : st.n[s].ex /\ f \in st.n[s].inp}
Available(st, f) == st.n[f].ex /\ st.n[f].st \in {"CONFIRMED", "BUILT"}

\* Node.detach of k: creator forgotten, detached flag set on k and, recursively, on its products
RECURSIVE Below(_, _)
Below(st, k) == {k} \cup UNION {Below(st, m) : m \in Products(st, k)}
Detach(st, k) ==
  IF ~st.n[k].ex THEN st
  ELSE [st EXCEPT !.n = [m \in Nodes |->
          IF m = k THEN [st.n[m] EXCEPT !.cr = Null, !.det = TRUE]
          ELSE IF m \in Below(st, k) THEN [st.n[m] EXCEPT !.det = TRUE] ELSE st.n[m]]]
SetAttached(st, k) ==   \* the detached flag of k and everything below it is cleared
  [st EXCEPT !.n = [m \in Nodes |-> IF m \in Below(st, k) THEN [st.n[m] EXCEPT !.det = FALSE] ELSE st.n[m]]]

(* mark_step_pending with its cascade (detached nodes included), as in FileStep.tla *)
RECURSIVE Cascade(_, _, _)
Cascade(st, P, W) ==
  IF W = {} THEN P
  ELSE LET s == CHOOSE s \in W : TRUE IN
       IF s \in P \/ ~st.n[s].ex \/ st.n[s].st = "RUNNING" THEN Cascade(st, P, W \ {s})
       ELSE IF st.n[s].st \in {"SUCCEEDED", "FAILED"}
            THEN Cascade(st, P \cup {s}, (W \ {s}) \cup (IF st.n[Out(s)].ex /\ st.n[Out(s)].st = "BUILT" /\ st.n[Out(s)].cr = s
                                                          THEN Consumers(st, Out(s)) ELSE {}))
            ELSE Cascade(st, P \cup {s}, W \ {s})
MarkPending(st, seeds) ==
  LET P == Cascade(st, {}, seeds)
      outd == {Out(s) : s \in {s \in P : st.n[s].st \in {"SUCCEEDED", "FAILED"} /\ st.n[Out(s)].ex
                                         /\ st.n[Out(s)].st = "BUILT" /\ st.n[Out(s)].cr = s}}
  IN [st EXCEPT !.n = [m \in Nodes |->
        IF m \in outd THEN [st.n[m] EXCEPT !.st = "OUTDATED"]
        ELSE IF m \in P THEN [st.n[m] EXCEPT !.st = "PENDING"] ELSE st.n[m]]]

(* ------------------------------------ the plan ------------------------------------ *)
StartPEnabled(st) == ~st.crash /\ st.p.st = "PENDING"
DoStartP(st) ==
  \* reset_for_rerun: created steps and static declarations are detached
  LET s1 == [st EXCEPT !.p.st = "RUNNING"]
      RECURSIVE DetAll(_, _)
      DetAll(s, ks) == IF ks = {} THEN s ELSE LET k == CHOOSE k \in ks : TRUE IN DetAll(Detach(s, k), ks \ {k})
  IN DetAll(s1, {k \in Nodes : st.n[k].ex /\ st.n[k].cr = "P"
                              /\ (k \in Steps \/ st.n[k].st \in {"CONFIRMED", "MISSING", "UNCONFIRMED"})})

StaticEnabled(st) == ~st.crash /\ st.p.st = "RUNNING" /\ ~(st.n["x"].ex /\ ~st.n["x"].det)
DoStatic(st) ==
  \* declared (a detached node is re-used) and confirmed: consumers of a file that (re)appears are made pending
  LET s1 == [st EXCEPT !.n["x"] = [ex |-> TRUE, det |-> FALSE, cr |-> "P", st |-> "CONFIRMED", hash |-> FALSE, inp |-> {}]]
  IN MarkPending(s1, Consumers(st, "x"))

DefineEnabled(st, s, I) == ~st.crash /\ st.p.st = "RUNNING" /\ ~(st.n[s].ex /\ ~st.n[s].det)
\* an input that nothing declares gets a detached placeholder
\* (a detached node that nobody owns is re-created as such a placeholder: it forgets its state, unless
\* it remembers having been built)
Placeholders(st, I) ==
  [st EXCEPT !.n = [m \in Nodes |->
      IF m \in I /\ (~st.n[m].ex \/ (st.n[m].det /\ st.n[m].cr = Null /\ st.n[m].st \notin {"BUILT", "OUTDATED"}))
      THEN [ex |-> TRUE, det |-> TRUE, cr |-> Null, st |-> "UNDECLARED", hash |-> FALSE, inp |-> {}]
      ELSE st.n[m]]]
DeclareOutput(st, s) ==
  \* a detached former output is taken over; a remembered BUILT/OUTDATED state is restored
  LET o == Out(s)
      old == st.n[o]
      keep == old.ex /\ old.st \in {"BUILT", "OUTDATED"}
      \* ... but the new owner has not built it: a remembered BUILT becomes OUTDATED, consumers pending
      s1 == [st EXCEPT !.n[o] = [ex |-> TRUE, det |-> FALSE, cr |-> s, st |-> IF keep THEN "OUTDATED" ELSE "PLANNED", hash |-> FALSE, inp |-> {}]]
  IN IF old.ex /\ old.st = "BUILT" THEN MarkPending(s1, Consumers(st, o) \ {s}) ELSE s1
DoDefine(st, s, I) ==
  IF st.n[s].ex /\ st.n[s].inp = I
  THEN \* try_recycle: re-attached with everything below it; state and hash are kept, except that a
       \* FAILED step, or a SUCCEEDED one without hash, is made pending
       LET s1 == SetAttached([st EXCEPT !.n[s].cr = "P"], s)
       IN IF s1.n[s].st = "FAILED" \/ (s1.n[s].st = "SUCCEEDED" /\ ~s1.n[s].hash) THEN MarkPending(s1, {s}) ELSE s1
  ELSE \* a new row (an incompatible detached step is re-used as an empty shell)
       LET s0 == IF st.n[s].ex THEN Detach(st, Out(s)) ELSE st     \* products of a re-created node are detached
           \* (the stored hash of the old row survives in the shell; it no longer matches the inputs)
           s1 == [s0 EXCEPT !.n[s] = [ex |-> TRUE, det |-> FALSE, cr |-> "P", st |-> "PENDING",
                                      hash |-> st.n[s].ex /\ st.n[s].hash, inp |-> I]]
       IN DeclareOutput(Placeholders(s1, I), s)

FinishPEnabled(st) == ~st.crash /\ st.p.st = "RUNNING"
DoFinishP(st, ok) ==
  IF ok THEN [st EXCEPT !.p = [st |-> "SUCCEEDED", hash |-> TRUE]]
  ELSE LET s1 == [st EXCEPT !.p = [st |-> "FAILED", hash |-> FALSE]]
           RECURSIVE DetAll(_, _)
           DetAll(s, ks) == IF ks = {} THEN s ELSE LET k == CHOOSE k \in ks : TRUE IN DetAll(Detach(s, k), ks \ {k})
       IN DetAll(s1, {k \in Steps : st.n[k].ex /\ st.n[k].cr = "P"})

PendPEnabled(st) == ~st.crash /\ st.p.st \in {"SUCCEEDED", "FAILED"}
DoPendP(st) == [st EXCEPT !.p.st = "PENDING"]

(* ----------------------------------- the children ----------------------------------- *)
StartEnabled(st, s) ==
  /\ ~st.crash
  /\ st.n[s].ex /\ ~st.n[s].det /\ st.n[s].st = "PENDING" /\ st.p.st \in {"RUNNING", "SUCCEEDED"}
  /\ \A f \in st.n[s].inp : Available(st, f) /\ ~st.n[f].det
DoStart(st, s) == [st EXCEPT !.n[s].st = "RUNNING", !.j[s] = @ + 1]

\* the completion of a job is recorded on whatever row carries the label now: when the creator
\* re-created the row while the job was in flight (F25), that is a fresh PENDING row
SucceedEnabled(st, s) == ~st.crash /\ st.n[s].ex /\ st.j[s] > 0
DoSucceed(st, s) ==
  LET o == Out(s)
      mine == st.n[o].ex /\ st.n[o].cr = s
  IN IF mine /\ st.n[o].st = "BUILT"
     \* a second completion of the same step: "Unexpected file hash update: cause=SUCCEEDED state=BUILT"
     THEN [st EXCEPT !.crash = TRUE, !.j[s] = @ - 1]
     ELSE LET s1 == [st EXCEPT !.n[s].st = "SUCCEEDED", !.n[s].hash = TRUE, !.j[s] = @ - 1,
                               !.n[o].st = IF mine THEN "BUILT" ELSE st.n[o].st]
          IN MarkPending(s1, Consumers(st, o) \ {s})

FailEnabled(st, s) == ~st.crash /\ st.n[s].ex /\ st.j[s] > 0
DoFail(st, s) ==
  LET o == Out(s)
      mine == st.n[o].ex /\ st.n[o].cr = s
      s1 == [st EXCEPT !.n[s].st = "FAILED", !.n[s].hash = FALSE, !.j[s] = @ - 1,
                       !.n[o].st = IF mine /\ st.n[o].st \in {"BUILT", "OUTDATED", "PLANNED"} THEN "PLANNED" ELSE st.n[o].st]
  IN IF mine /\ st.n[o].st = "BUILT" THEN MarkPending(s1, Consumers(st, o) \ {s}) ELSE s1

(* ------------------------------------- clean-up ------------------------------------- *)
CleanEnabled(st) == ~st.crash /\ st.p.st = "SUCCEEDED" /\ \A s \in Steps : st.j[s] = 0 /\ ~(st.n[s].ex /\ st.n[s].st = "RUNNING")
\* delete_detached: a detached node without products and without sinks is deleted, repeatedly;
\* the (detached) creator of a deleted node loses its hash
RECURSIVE CleanFix(_)
CleanFix(st) ==
  LET del == {k \in Nodes : st.n[k].ex /\ st.n[k].det /\ Products(st, k) = {}
                            /\ (IsFile(k) => Consumers(st, k) = {})
                            /\ (~IsFile(k) => ~(st.n[Out(k)].ex /\ st.n[Out(k)].cr = k))}
  IN IF del = {} THEN st
     ELSE LET k == CHOOSE k \in del : TRUE
              c == st.n[k].cr
              s1 == [st EXCEPT !.n[k] = Gone]
              s2 == IF c \in Steps /\ s1.n[c].ex THEN [s1 EXCEPT !.n[c].hash = FALSE] ELSE s1
              \* a deleted step no longer consumes its inputs
          IN CleanFix(s2)
DoClean(st) == CleanFix(st)

(* ------------------------------------ model mode ------------------------------------ *)
InpChoices(s) == IF s = "A" THEN {{}, {"x"}} ELSE {{}, {"x"}, {"oa"}, {"x", "oa"}}
VARIABLES st, n, l, out, ak, cur, acc
mvars == <<st, n>>
MInit == st = Init0 /\ n = 0 /\ l = 0 /\ out = <<>> /\ ak = 0 /\ cur = 0 /\ acc = <<>>
MNext ==
  /\ n' = n + 1
  /\ UNCHANGED <<l, out, ak, cur, acc>>
  /\ \/ StartPEnabled(st) /\ st' = DoStartP(st)
     \/ StaticEnabled(st) /\ st' = DoStatic(st)
     \/ \E s \in Steps : \E I \in InpChoices(s) : DefineEnabled(st, s, I) /\ st' = DoDefine(st, s, I)
     \/ \E ok \in BOOLEAN : FinishPEnabled(st) /\ st' = DoFinishP(st, ok)
     \/ PendPEnabled(st) /\ st' = DoPendP(st)
     \/ \E s \in Steps : StartEnabled(st, s) /\ st' = DoStart(st, s)
     \/ \E s \in Steps : SucceedEnabled(st, s) /\ st' = DoSucceed(st, s)
     \/ \E s \in Steps : FailEnabled(st, s) /\ st' = DoFail(st, s)
     \/ CleanEnabled(st) /\ st' = DoClean(st)
MSpec == MInit /\ [][MNext]_<<st, n, l, out, ak, cur, acc>>
MView == st
MBound == n <= 14

Attached(k) == st.n[k].ex /\ ~st.n[k].det
\* ownership is well formed: an attached node has an attached owner; a detached step owns only detached nodes
OwnerAttached == \A k \in Nodes : Attached(k) => (st.n[k].cr = "P" \/ (st.n[k].cr \in Steps /\ Attached(st.n[k].cr)))
\* an attached BUILT output belongs to a SUCCEEDED step
BuiltMeansDone == \A s \in Steps : (Attached(Out(s)) /\ st.n[Out(s)].st = "BUILT" /\ st.n[Out(s)].cr = s) => st.n[s].st = "SUCCEEDED"
\* an attached SUCCEEDED step has its output BUILT
DoneMeansBuilt == \A s \in Steps : (Attached(s) /\ st.n[s].st = "SUCCEEDED") =>
   (st.n[Out(s)].ex /\ st.n[Out(s)].cr = s /\ st.n[Out(s)].st = "BUILT")
\* F15 (known finding): an attached step that is considered done although one of its inputs is
\* no longer declared by anybody (detached) -- holds only up to the static file x
DoneMeansInputsDeclared == (st.p.st = "SUCCEEDED" /\ \A s \in Steps : Attached(s) => st.n[s].st = "SUCCEEDED") =>
   \A s \in Steps : Attached(s) => \A f \in st.n[s].inp : Available(st, f) /\ ~st.n[f].det
\* evaluated when the build is complete: the plan and every attached step are SUCCEEDED (while a build
\* is going on, a running consumer may complete after its producer was made pending again: its
\* input is OUTDATED then, and it is made pending again when the producer completes)
Complete == st.p.st = "SUCCEEDED" /\ \A s \in Steps : Attached(s) => st.n[s].st = "SUCCEEDED"
DoneMeansInputsDeclaredUpToF15 == Complete => \A s \in Steps : Attached(s) =>
   \A f \in st.n[s].inp : st.n[f].det \/ Available(st, f)
\* a SUCCEEDED step that is skippable (has a hash) owns its output
HashMeansOutput == \A s \in Steps : (st.n[s].ex /\ st.n[s].st = "SUCCEEDED" /\ st.n[s].hash) => (st.n[Out(s)].ex /\ st.n[Out(s)].cr = s)

\* F25 (known finding): violated in the model -- a step re-created by its creator while its job is in
\* flight is dispatched again, and the second completion kills the director
OneJobPerStep == \A s \in Steps : st.j[s] <= 1
DirectorSurvives == ~st.crash

(* ------------------------------------- replay ------------------------------------- *)
Lines == ndJsonDeserialize(IOEnv.TRACE_FILE)
NL == Len(Lines)
SetOf(q) == {q[i] : i \in DOMAIN q}
Apply(s0, a) ==
  CASE a.a = "startP" -> IF StartPEnabled(s0) THEN <<TRUE, DoStartP(s0)>> ELSE <<FALSE, s0>>
    [] a.a = "static" -> IF StaticEnabled(s0) THEN <<TRUE, DoStatic(s0)>> ELSE <<FALSE, s0>>
    [] a.a = "define" -> IF DefineEnabled(s0, a.s, SetOf(a.inp)) THEN <<TRUE, DoDefine(s0, a.s, SetOf(a.inp))>> ELSE <<FALSE, s0>>
    [] a.a = "finishP" -> IF FinishPEnabled(s0) THEN <<TRUE, DoFinishP(s0, a.ok)>> ELSE <<FALSE, s0>>
    [] a.a = "pendP" -> IF PendPEnabled(s0) THEN <<TRUE, DoPendP(s0)>> ELSE <<FALSE, s0>>
    [] a.a = "start" -> IF StartEnabled(s0, a.s) THEN <<TRUE, DoStart(s0, a.s)>> ELSE <<FALSE, s0>>
    [] a.a = "succeed" -> IF SucceedEnabled(s0, a.s) THEN <<TRUE, DoSucceed(s0, a.s)>> ELSE <<FALSE, s0>>
    [] a.a = "fail" -> IF FailEnabled(s0, a.s) THEN <<TRUE, DoFail(s0, a.s)>> ELSE <<FALSE, s0>>
    [] a.a = "clean" -> IF CleanEnabled(s0) THEN <<TRUE, DoClean(s0)>> ELSE <<FALSE, s0>>
\* one TLC step per action (linear in the length of the sequences)
vars == <<l, out, st, n, ak, cur, acc>>
Init == l = 1 /\ out = <<>> /\ st = 0 /\ n = 0 /\ ak = 0 /\ cur = Init0 /\ acc = <<>>
Next ==
  /\ l <= NL
  /\ UNCHANGED <<st, n>>
  /\ IF ak < Len(Lines[l].acts)
     THEN LET r == Apply(cur, Lines[l].acts[ak + 1]) IN
          /\ ak' = ak + 1
          /\ cur' = r[2]
          /\ acc' = Append(acc, [enabled |-> r[1], p |-> r[2].p, n |-> r[2].n, crash |-> r[2].crash])
          /\ UNCHANGED <<l, out>>
     ELSE /\ out' = Append(out, [id |-> Lines[l].id, states |-> acc])
          /\ l' = l + 1 /\ ak' = 0 /\ cur' = Init0 /\ acc' = <<>>
          /\ (l' = NL + 1) => JsonSerialize(IOEnv.VERDICT_FILE, [vectors |-> out', n |-> NL])
Spec == Init /\ [][Next]_vars
Consumed == TLCGet("stats").diameter >= NL
=============================================================================
