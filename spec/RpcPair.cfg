SPECIFICATION Spec
POSTCONDITION Consumed
CHECK_DEADLOCK FALSE
