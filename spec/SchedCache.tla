----------------------------- MODULE SchedCache -----------------------------
(***************************************************************************)
(* Incremental maintenance of the scheduler's cached step attributes.      *)
(*                                                                         *)
(* The scheduler (scheduler.py) never evaluates "is it safe to queue this  *)
(* step", "how much is this step needed" and "how long is the chain of     *)
(* work behind it" from their definitions.  It keeps them in columns       *)
(* (_safe, _safe_ignoring_hold, _implied_need, _tail_time), and every      *)
(* modification of the graph FLAGS the rows whose value may be stale       *)
(* (_check_safe, _check_after: SQL triggers in step.py plus the explicit   *)
(* recursive flagging in Step.detach / reattach / hold / release).  Before *)
(* each dispatch decision pop_next_job recomputes the flagged rows only:   *)
(*   UpdateSafe   FILL_SAFE_UPDATE: seeded at the flagged rows with the    *)
(*                CACHED value of their creator, walks the products        *)
(*                recursively, keeps per row the result of the longest     *)
(*                chain (the topmost flagged ancestor)                     *)
(*   UpdateAfter  UPDATE_CHECK_AFTER / PROPAGATE_CHECK_AFTER: recompute    *)
(*                the flagged attached rows from the CACHED values of      *)
(*                their consumers, then iterate over the producers of the  *)
(*                rows that changed                                        *)
(* Dispatch exactness (C10), "exactly the needed steps run" (C11) and the  *)
(* hold limit (C12) rest on: whenever no row is flagged, every attached    *)
(* row's cache equals the definition (CacheExact).  This module states the *)
(* graph modifications the code performs as actions, with the flags each   *)
(* one sets, transcribes the two recomputations, and lets TLC explore      *)
(* every sequence over a small universe.  With UseMin = TRUE the           *)
(* recomputation merges chains by MIN as it did before the repair of F1:   *)
(* TLC then finds the stale _safe below a child of a released holder.      *)
(* With FlagProducerOnEdgeLoss = FALSE the edge-deletion trigger does not  *)
(* flag the producer, as before the repair of F2: TLC finds the stale      *)
(* _implied_need.                                                          *)
(*                                                                         *)
(* A step s owns one output file o_s; <<p, c>> \in cons means that c       *)
(* consumes o_p (the two dependency hops p -> o_p -> c of the code).       *)
(* Replay mode: action sequences evaluated by TLC are executed on the real *)
(* Workflow + Scheduler by checks/schedcache.py and every column is        *)
(* compared after every action, the flags included.                        *)
(***************************************************************************)
EXTENDS Naturals, Integers, Sequences, FiniteSets, TLC, Json, IOUtils

CONSTANTS N,                       \* number of step ids
          MaxDirty,                \* modifications between two recomputations (model mode)
          States, Needs, MaxHold,  \* step states (P R S F), need ranks (1 OPTIONAL, 2 DEFAULT, 4 PLAN), nesting of hold()
          EnableCons,              \* FALSE: no consumer edges (the _safe side alone)
          EnableOut,               \* FALSE: outputs stay PLANNED, no dynamic edges (no _ready side)
          UseMin,                  \* pre-F1 variant of FILL_SAFE_UPDATE
          FlagProducerOnEdgeLoss   \* FALSE: pre-F2 variant of the dependency delete trigger

Steps == 1..N
ROOT == 0       \* creator of the boot step: has no step row
NONE == -1      \* creator NULL (a detached top)
Live == {"R", "S"}                 \* RUNNING, SUCCEEDED

Max2(a, b) == IF a >= b THEN a ELSE b
SetMax(S) == CHOOSE x \in S : \A y \in S : x >= y

(* ------------------------------ the graph ------------------------------ *)
\* the boot step 1 exists from the start, created by ROOT with _safe = 1 and no flag
G0 == [ex   |-> [s \in Steps |-> s = 1],
       cr   |-> [s \in Steps |-> IF s = 1 THEN ROOT ELSE NONE],
       det  |-> [s \in Steps |-> FALSE],
       st   |-> [s \in Steps |-> "P"],
       hold |-> [s \in Steps |-> 0],
       need |-> [s \in Steps |-> IF s = 1 THEN 4 ELSE 2],
       cons |-> {},
       safe |-> [s \in Steps |-> s = 1],
       nh   |-> [s \in Steps |-> s = 1],
       impl |-> [s \in Steps |-> IF s = 1 THEN 4 ELSE 2],
       tail |-> [s \in Steps |-> 1],
       ckS  |-> [s \in Steps |-> FALSE],
       ckA  |-> [s \in Steps |-> s = 1],
       \* the _ready side: state of the output o_s of every step, which consumer edges are dynamic
       \* (amended), the cached _ready and its flag
       fo    |-> [s \in Steps |-> "PLANNED"],
       dynE  |-> {},
       ready |-> [s \in Steps |-> FALSE],
       ckR   |-> [s \in Steps |-> s = 1]]

Kids(g, s) == {x \in Steps : g.ex[x] /\ g.cr[x] = s}
RECURSIVE Sub(_, _)
Sub(g, s) == {s} \cup UNION {Sub(g, x) : x \in Kids(g, s)}     \* s and its recursive product steps
RECURSIVE Anc(_, _)
Anc(g, s) == IF g.cr[s] \in Steps THEN {g.cr[s]} \cup Anc(g, g.cr[s]) ELSE {}
Consumers(g, p) == {c \in Steps : <<p, c>> \in g.cons /\ g.ex[c] /\ ~g.det[c]}
Producers(g, c) == {p \in Steps : <<p, c>> \in g.cons}
ConsumersAll(g, p) == {c \in Steps : <<p, c>> \in g.cons /\ g.ex[c]}      \* detached ones included
RECURSIVE Reach(_, _)
Reach(g, p) == LET d == {c \in Steps : <<p, c>> \in g.cons} IN d \cup UNION {Reach(g, c) : c \in d}

(* ---------------------------- the definitions --------------------------- *)
RECURSIVE SafeDef(_, _)
SafeDef(g, s) == LET c == g.cr[s] IN
  IF c \notin Steps THEN TRUE ELSE SafeDef(g, c) /\ g.st[c] \in Live /\ g.hold[c] = 0
RECURSIVE NhDef(_, _)
NhDef(g, s) == LET c == g.cr[s] IN
  IF c \notin Steps THEN TRUE ELSE NhDef(g, c) /\ g.st[c] \in Live
RECURSIVE ImplDef(_, _)
ImplDef(g, s) == SetMax({g.need[s]} \cup {ImplDef(g, c) : c \in Consumers(g, s)})
RECURSIVE TailDef(_, _)
TailDef(g, s) == 1 + SetMax({0} \cup {TailDef(g, c) : c \in Consumers(g, s)})

\* UNAVAILABLE_INPUT_WHERE (step.py) for the input o_p of c: a dynamic input blocks only while it is an
\* attached PLANNED / OUTDATED output, an initial input unless it is attached and BUILT
Blocks(g, p, c) ==
  IF <<p, c>> \in g.dynE THEN ~g.det[p] /\ g.fo[p] \in {"PLANNED", "OUTDATED"}
  ELSE g.det[p] \/ g.fo[p] # "BUILT"
ReadyDef(g, c) == \A p \in Producers(g, c) : ~Blocks(g, p, c)

(* ------------------------------- flagging ------------------------------ *)
FlagS(g, S) == [g EXCEPT !.ckS = [x \in Steps |-> @[x] \/ (x \in S /\ g.ex[x])]]
FlagA(g, S) == [g EXCEPT !.ckA = [x \in Steps |-> @[x] \/ (x \in S /\ g.ex[x])]]
FlagBoth(g, S) == FlagA(FlagS(g, S), S)     \* RECURSIVE_CHECK_WITH_PRODUCTS
FlagR(g, S) == [g EXCEPT !.ckR = [x \in Steps |-> @[x] \/ (x \in S /\ g.ex[x])]]
\* triggers on file.state / node.detached of the output of the steps in X: their consumers
FlagRConsumers(g, X) == FlagR(g, UNION {ConsumersAll(g, x) : x \in X})

\* Workflow.mark_step_pending, closed under its cascade (mark_file_outdated ->
\* mark_consuming_steps_pending): RUNNING steps ignore it; a step that was SUCCEEDED or FAILED has its
\* BUILT output outdated, whose consumers (detached ones included) are marked in turn.  set_state fires
\* the _check_safe trigger also when the state was PENDING already.
RECURSIVE Cascade(_, _, _)
Cascade(g, P, W) ==
  IF W = {} THEN P
  ELSE LET s == CHOOSE s \in W : TRUE IN
       IF s \in P \/ ~g.ex[s] \/ g.st[s] = "R" THEN Cascade(g, P, W \ {s})
       ELSE IF g.st[s] \in {"S", "F"} /\ g.fo[s] = "BUILT"
            THEN Cascade(g, P \cup {s}, (W \ {s}) \cup ConsumersAll(g, s))
            ELSE Cascade(g, P \cup {s}, W \ {s})
MarkPending(g, seeds) ==
  LET P == Cascade(g, {}, seeds)
      outd == {s \in P : g.st[s] \in {"S", "F"} /\ g.fo[s] = "BUILT"}
      h == [g EXCEPT !.st = [x \in Steps |-> IF x \in P THEN "P" ELSE @[x]],
                     !.hold = [x \in Steps |-> IF x \in P THEN 0 ELSE @[x]],
                     !.fo = [x \in Steps |-> IF x \in outd THEN "OUTDATED" ELSE @[x]]]
  IN FlagRConsumers(FlagS(h, P), outd)

(* ---------------------- the graph modifications ------------------------ *)
\* Trellis.create + Step.initialize_row (a step that never existed): a fresh PENDING row, unsafe and
\* flagged; it inherits the detached flag of its creator
CreateEn(g, s, c, n) == ~g.ex[s] /\ c \in Steps /\ g.ex[c] /\ c # s /\ n \in Needs
DoCreate(g, s, c, n) ==
  [g EXCEPT !.ex[s] = TRUE, !.cr[s] = c, !.det[s] = g.det[c], !.st[s] = "P", !.hold[s] = 0,
            !.need[s] = n, !.safe[s] = FALSE, !.nh[s] = FALSE, !.impl[s] = n, !.tail[s] = 1,
            !.ckS[s] = TRUE, !.ckA[s] = TRUE, !.fo[s] = "PLANNED", !.ready[s] = FALSE, !.ckR[s] = TRUE]

\* Step.set_state: trigger step_flag_check_safe flags the row itself; trigger step_reset_holding drops
\* the holds of a step that leaves RUNNING (without flagging anything else)
SetStateEn(g, s, new) == g.ex[s] /\ new \in States /\ new # g.st[s]
DoSetState(g, s, new) ==
  FlagS([g EXCEPT !.st[s] = new, !.hold[s] = IF new # "R" THEN 0 ELSE @], {s})

\* Step.hold / Step.release: only the 0 <-> 1 transitions flag (the step and its recursive products)
HoldEn(g, s) == g.ex[s] /\ g.st[s] = "R" /\ g.hold[s] < MaxHold
DoHold(g, s) == LET h == [g EXCEPT !.hold[s] = @ + 1] IN IF h.hold[s] = 1 THEN FlagBoth(h, Sub(g, s)) ELSE h
ReleaseEn(g, s) == g.ex[s] /\ g.hold[s] > 0
DoRelease(g, s) == LET h == [g EXCEPT !.hold[s] = @ - 1] IN IF h.hold[s] = 0 THEN FlagBoth(h, Sub(g, s)) ELSE h

\* Step.detach: creator NULL, the subtree becomes detached; flags the subtree, and the attached
\* producers of the subtree (RECURSIVE_CHECK_AFTER_SOURCES, evaluated after the flip)
DetachEn(g, s) == g.ex[s] /\ g.cr[s] # NONE /\ s # 1
DoDetach(g, s) ==
  LET sub == Sub(g, s)
      h == [g EXCEPT !.cr[s] = NONE, !.det = [x \in Steps |-> @[x] \/ x \in sub]]
      src == {p \in Steps : h.ex[p] /\ ~h.det[p] /\ \E x \in sub : <<p, x>> \in h.cons}
      flipped == {x \in sub : ~g.det[x]}
  IN FlagRConsumers(FlagA(FlagBoth(h, sub), src), flipped)

\* Trellis.try_recycle: Node.reattach (the subtree inherits the detached flag of the new creator, the
\* subtree is flagged) + Step.after_recycle (need replaced, holds dropped, FAILED or SUCCEEDED-without-
\* hash -> PENDING through mark_step_pending -> set_state)
RecycleEn(g, s, c, n) == g.ex[s] /\ g.det[s] /\ c \in Steps /\ g.ex[c] /\ c \notin Sub(g, s) /\ n \in Needs
DoRecycle(g, s, c, n) ==
  LET sub == Sub(g, s)
      h == [g EXCEPT !.cr[s] = c, !.det = [x \in Steps |-> IF x \in sub THEN g.det[c] ELSE @[x]],
                     !.need[s] = n, !.hold[s] = 0]
      flipped == {x \in sub : g.det[x] # g.det[c]}
      f == FlagRConsumers(FlagBoth(h, sub), flipped)
  \* (steps of this model never have a stored step hash -- states are set directly, not through
  \* mark_completed -- so a SUCCEEDED one is "SUCCEEDED without hash" and is made PENDING as well)
  IN IF g.st[s] \in {"F", "S"} THEN MarkPending(f, {s}) ELSE f

\* Trellis.create on a detached row with an incompatible declaration: new creator, the row is
\* initialised again, every tie to its sources is cut (its output keeps its consumers), its product
\* steps are detached one by one
RecreateEn(g, s, c, n) == RecycleEn(g, s, c, n)
RECURSIVE DetachAll(_, _)
DetachAll(g, K) == IF K = {} THEN g ELSE LET x == CHOOSE x \in K : TRUE IN DetachAll(DoDetach(g, x), K \ {x})
DoRecreate(g, s, c, n) ==
  LET ps == Producers(g, s)
      h0 == [g EXCEPT !.cr[s] = c, !.det[s] = g.det[c], !.cons = {e \in @ : e[2] # s}, !.dynE = {e \in @ : e[2] # s}]
      \* delete trigger: both ends and (F2) the producer of the file that lost a consumer
      h1 == IF FlagProducerOnEdgeLoss THEN FlagA(h0, ps) ELSE h0
      h2 == DetachAll(h1, Kids(g, s))
      h3 == [h2 EXCEPT !.st[s] = "P", !.hold[s] = 0, !.need[s] = n, !.safe[s] = FALSE, !.nh[s] = FALSE,
                       !.impl[s] = n, !.tail[s] = 1, !.ckS[s] = TRUE, !.ckA[s] = TRUE, !.ready[s] = FALSE, !.ckR[s] = TRUE]
      \* the output o_s is declared again: the file node is re-created (it keeps its consumers);
      \* File.initialize_row keeps a BUILT / OUTDATED state instead of PLANNED, and a BUILT one is
      \* outdated at once (mark_file_outdated: consumers are marked pending)
      h4 == IF g.det[c] # TRUE THEN FlagRConsumers(h3, {s}) ELSE h3
  IN IF g.fo[s] = "BUILT"
     THEN MarkPending(FlagRConsumers([h4 EXCEPT !.fo[s] = "OUTDATED"], {s}), ConsumersAll(g, s))
     ELSE h4

\* Node.add_source(file of p) on c: insert trigger flags the sink step (the source is a file)
AddConsEn(g, p, c) == g.ex[p] /\ g.ex[c] /\ p # c /\ <<p, c>> \notin g.cons /\ p \notin Reach(g, c)
\* dyn: the edge is marked dynamic (dynamic_dep row: amended); both inserts flag _check_ready of the sink
DoAddCons(g, p, c, dyn) ==
  FlagR(FlagA([g EXCEPT !.cons = @ \cup {<<p, c>>}, !.dynE = IF dyn THEN @ \cup {<<p, c>>} ELSE @], {c}), {c})
\* Node.del_sources: delete trigger flags the sink step and the producer of the file
DelConsEn(g, p, c) == <<p, c>> \in g.cons
DoDelCons(g, p, c) ==
  FlagR(FlagA([g EXCEPT !.cons = @ \ {<<p, c>>}, !.dynE = @ \ {<<p, c>>}], IF FlagProducerOnEdgeLoss THEN {p, c} ELSE {c}), {c})

\* the output of p changes state:
\*   built     update_file_hashes(cause SUCCEEDED): PLANNED / OUTDATED -> BUILT, "completed": consumers pending
\*   outdate   mark_file_outdated: BUILT -> OUTDATED, consumers pending
\*   vanish    update_file_hashes(cause EXTERNAL, absent): BUILT / OUTDATED -> PLANNED, "deleted": the
\*             producer and the consumers pending
OutEn(g, p, k) == /\ EnableOut /\ g.ex[p]
                  /\ CASE k = "built" -> g.fo[p] \in {"PLANNED", "OUTDATED"}
                       [] k = "outdate" -> g.fo[p] = "BUILT"
                       [] k = "vanish" -> g.fo[p] \in {"BUILT", "OUTDATED"}
                       [] OTHER -> FALSE
DoOut(g, p, k) ==
  LET new == CASE k = "built" -> "BUILT" [] k = "outdate" -> "OUTDATED" [] OTHER -> "PLANNED"
      h == FlagRConsumers([g EXCEPT !.fo[p] = new], {p})
  IN MarkPending(h, IF k = "vanish" THEN {p} \cup ConsumersAll(g, p) ELSE ConsumersAll(g, p))

(* ------------------------- the recomputations --------------------------- *)
\* FILL_SAFE_UPDATE.  Row(a, i): the row of node i in the walk seeded at the flagged node a
\* (a = i or a is a proper ancestor of i): <<safe, chain, nh, chainNh, depth>>
RECURSIVE Row(_, _, _)
Row(g, a, i) ==
  IF i = a
  THEN LET c == g.cr[i]
           s0 == IF c \in Steps THEN g.safe[c] /\ g.st[c] \in Live /\ g.hold[c] = 0 ELSE TRUE
           n0 == IF c \in Steps THEN g.nh[c] /\ g.st[c] \in Live ELSE TRUE
       IN <<s0, s0 /\ g.st[i] \in Live /\ g.hold[i] = 0, n0, n0 /\ g.st[i] \in Live, 0>>
  ELSE LET r == Row(g, a, g.cr[i])
       IN <<r[2], r[2] /\ g.st[i] \in Live /\ g.hold[i] = 0, r[4], r[4] /\ g.st[i] \in Live, r[5] + 1>>
Seeds(g, i) == {a \in {i} \cup Anc(g, i) : g.ex[a] /\ g.ckS[a]}
DoUpdateSafe(g) ==
  LET rows(i) == {Row(g, a, i) : a \in Seeds(g, i)}
      kept(i) == IF UseMin THEN rows(i) ELSE {r \in rows(i) : \A q \in rows(i) : r[5] >= q[5]}
      upd == {i \in Steps : g.ex[i] /\ Seeds(g, i) # {}}
  IN [g EXCEPT !.safe = [i \in Steps |-> IF i \in upd THEN \A r \in kept(i) : r[1] ELSE @[i]],
               !.nh = [i \in Steps |-> IF i \in upd THEN \A r \in kept(i) : r[3] ELSE @[i]],
               !.ckS = [i \in Steps |-> FALSE]]

\* _update_meta_after: one round recomputes `check` from the cached values of the attached consumers
RECURSIVE AfterLoop(_, _, _)
AfterLoop(g, check, first) ==
  IF check = {} THEN g ELSE
  LET ni(s) == SetMax({g.need[s]} \cup {g.impl[c] : c \in Consumers(g, s)})
      nt(s) == 1 + SetMax({0} \cup {g.tail[c] : c \in Consumers(g, s)})
      changed == {s \in check : first \/ ni(s) # g.impl[s] \/ nt(s) # g.tail[s]}
      h == [g EXCEPT !.impl = [s \in Steps |-> IF s \in changed THEN ni(s) ELSE @[s]],
                     !.tail = [s \in Steps |-> IF s \in changed THEN nt(s) ELSE @[s]]]
      nxt == {p \in Steps : h.ex[p] /\ ~h.det[p] /\ \E c \in changed : <<p, c>> \in h.cons}
  IN AfterLoop(h, nxt, FALSE)
DoUpdateAfter(g) ==
  LET h == AfterLoop(g, {s \in Steps : g.ex[s] /\ ~g.det[s] /\ g.ckA[s]}, TRUE)
  IN [h EXCEPT !.ckA = [s \in Steps |-> FALSE]]
\* RECOMPUTE_READY: the flagged rows (detached ones included) from the definition
DoUpdateReady(g) ==
  [g EXCEPT !.ready = [s \in Steps |-> IF g.ex[s] /\ g.ckR[s] THEN ReadyDef(g, s) ELSE @[s]],
            !.ckR = [s \in Steps |-> FALSE]]
DoUpdate(g) == DoUpdateReady(DoUpdateAfter(DoUpdateSafe(g)))

(* ------------------------------ properties ------------------------------ *)
Clean(g) == \A s \in Steps : ~g.ckS[s] /\ ~g.ckA[s] /\ ~g.ckR[s]
Att(g) == {s \in Steps : g.ex[s] /\ ~g.det[s]}
SafeExact(g) == \A s \in Att(g) : g.safe[s] = SafeDef(g, s) /\ g.nh[s] = NhDef(g, s)
AfterExact(g) == \A s \in Att(g) : g.impl[s] = ImplDef(g, s) /\ g.tail[s] = TailDef(g, s)
ReadyExact(g) == \A s \in Steps : g.ex[s] => g.ready[s] = ReadyDef(g, s)
TreeOK(g) == \A s \in Steps : g.ex[s] =>
               /\ (g.cr[s] \in Steps => g.ex[g.cr[s]] /\ g.cr[s] # s)
               /\ (g.cr[s] = NONE => g.det[s])
               /\ (g.cr[s] \in Steps /\ g.det[g.cr[s]] => g.det[s])

(* ------------------------------ model mode ------------------------------ *)
VARIABLES g, dirty, l, out, ak, cur, acc
vars == <<g, dirty, l, out, ak, cur, acc>>
MInit == g = DoUpdate(G0) /\ dirty = 0 /\ l = 0 /\ out = <<>> /\ ak = 0 /\ cur = 0 /\ acc = <<>>
Modify(h) == dirty < MaxDirty /\ g' = h /\ dirty' = dirty + 1
MNext ==
  /\ UNCHANGED <<l, out, ak, cur, acc>>
  /\ \/ \E s \in Steps, c \in Steps, n \in Needs : CreateEn(g, s, c, n) /\ Modify(DoCreate(g, s, c, n))
     \/ \E s \in Steps, x \in States : SetStateEn(g, s, x) /\ Modify(DoSetState(g, s, x))
     \/ \E s \in Steps : HoldEn(g, s) /\ Modify(DoHold(g, s))
     \/ \E s \in Steps : ReleaseEn(g, s) /\ Modify(DoRelease(g, s))
     \/ \E s \in Steps : DetachEn(g, s) /\ Modify(DoDetach(g, s))
     \/ \E s \in Steps, c \in Steps, n \in Needs : RecycleEn(g, s, c, n) /\ Modify(DoRecycle(g, s, c, n))
     \/ \E s \in Steps, c \in Steps, n \in Needs : RecreateEn(g, s, c, n) /\ Modify(DoRecreate(g, s, c, n))
     \/ EnableCons /\ \E p \in Steps, c \in Steps, dyn \in (IF EnableOut THEN BOOLEAN ELSE {FALSE}) :
           AddConsEn(g, p, c) /\ Modify(DoAddCons(g, p, c, dyn))
     \/ \E p \in Steps, k \in {"built", "outdate", "vanish"} : OutEn(g, p, k) /\ Modify(DoOut(g, p, k))
     \/ EnableCons /\ \E p \in Steps, c \in Steps : DelConsEn(g, p, c) /\ Modify(DoDelCons(g, p, c))
     \/ dirty > 0 /\ g' = DoUpdate(g) /\ dirty' = 0
MSpec == MInit /\ [][MNext]_vars
CacheExactSafe == Clean(g) => SafeExact(g)
CacheExactAfter == Clean(g) => AfterExact(g)
CacheExactReady == Clean(g) => ReadyExact(g)
TreeWellFormed == TreeOK(g)

(* -------------------------------- replay -------------------------------- *)
Lines == ndJsonDeserialize(IOEnv.TRACE_FILE)
NL == Len(Lines)
Apply(h, a) ==
  CASE a.a = "create"   -> IF CreateEn(h, a.s, a.c, a.n) THEN <<TRUE, DoCreate(h, a.s, a.c, a.n)>> ELSE <<FALSE, h>>
    [] a.a = "state"    -> IF SetStateEn(h, a.s, a.x) THEN <<TRUE, DoSetState(h, a.s, a.x)>> ELSE <<FALSE, h>>
    [] a.a = "hold"     -> IF HoldEn(h, a.s) THEN <<TRUE, DoHold(h, a.s)>> ELSE <<FALSE, h>>
    [] a.a = "release"  -> IF ReleaseEn(h, a.s) THEN <<TRUE, DoRelease(h, a.s)>> ELSE <<FALSE, h>>
    [] a.a = "detach"   -> IF DetachEn(h, a.s) THEN <<TRUE, DoDetach(h, a.s)>> ELSE <<FALSE, h>>
    [] a.a = "recycle"  -> IF RecycleEn(h, a.s, a.c, a.n) THEN <<TRUE, DoRecycle(h, a.s, a.c, a.n)>> ELSE <<FALSE, h>>
    [] a.a = "recreate" -> IF RecreateEn(h, a.s, a.c, a.n) THEN <<TRUE, DoRecreate(h, a.s, a.c, a.n)>> ELSE <<FALSE, h>>
    [] a.a = "addcons"  -> IF AddConsEn(h, a.p, a.c) THEN <<TRUE, DoAddCons(h, a.p, a.c, a.dyn)>> ELSE <<FALSE, h>>
    [] a.a = "out"      -> IF OutEn(h, a.p, a.k) THEN <<TRUE, DoOut(h, a.p, a.k)>> ELSE <<FALSE, h>>
    [] a.a = "delcons"  -> IF DelConsEn(h, a.p, a.c) THEN <<TRUE, DoDelCons(h, a.p, a.c)>> ELSE <<FALSE, h>>
    [] a.a = "update"   -> <<TRUE, DoUpdate(h)>>
Proj(h) == [ex |-> h.ex, cr |-> h.cr, det |-> h.det, st |-> h.st, hold |-> h.hold, need |-> h.need,
            safe |-> h.safe, nh |-> h.nh, impl |-> h.impl, tail |-> h.tail, ckS |-> h.ckS, ckA |-> h.ckA,
            fo |-> h.fo, ready |-> h.ready, ckR |-> h.ckR,
            inp |-> [c \in Steps |-> {<<p, <<p, c>> \in h.dynE>> : p \in Producers(h, c)}],
            dready |-> [s \in Steps |-> h.ex[s] /\ ReadyDef(h, s)],
            \* the definitions, evaluated on the structure alone
            dsafe |-> [s \in Steps |-> h.ex[s] /\ SafeDef(h, s)], dnh |-> [s \in Steps |-> h.ex[s] /\ NhDef(h, s)],
            dimpl |-> [s \in Steps |-> IF h.ex[s] THEN ImplDef(h, s) ELSE 0],
            dtail |-> [s \in Steps |-> IF h.ex[s] THEN TailDef(h, s) ELSE 0],
            exact |-> (~Clean(h) \/ (SafeExact(h) /\ AfterExact(h) /\ ReadyExact(h)))]
Init == l = 1 /\ out = <<>> /\ g = 0 /\ dirty = 0 /\ ak = 0 /\ cur = DoUpdate(G0) /\ acc = <<>>
Next ==
  /\ l <= NL
  /\ UNCHANGED <<g, dirty>>
  /\ IF ak < Len(Lines[l].acts)
     THEN LET r == Apply(cur, Lines[l].acts[ak + 1]) IN
          /\ ak' = ak + 1
          /\ cur' = r[2]
          /\ acc' = Append(acc, [enabled |-> r[1], st |-> Proj(r[2])])
          /\ UNCHANGED <<l, out>>
     ELSE /\ out' = Append(out, [id |-> Lines[l].id, states |-> acc])
          /\ l' = l + 1 /\ ak' = 0 /\ cur' = DoUpdate(G0) /\ acc' = <<>>
          /\ (l' = NL + 1) => JsonSerialize(IOEnv.VERDICT_FILE, [vectors |-> out', n |-> NL])
Spec == Init /\ [][Next]_vars
Consumed == TLCGet("stats").diameter >= NL
=============================================================================
