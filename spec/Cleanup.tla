------------------------------- MODULE Cleanup -------------------------------
(***************************************************************************)
(* What the end-of-build clean-up takes away.                               *)
(*                                                                         *)
(* Trellis.delete_detached is the only place where nodes leave the graph:   *)
(* it repeatedly deletes detached nodes that have no product and no sink    *)
(* left.  File.before_delete queues the file of a deleted output node for   *)
(* removal (VOLATILE: unconditionally; BUILT / OUTDATED: with the recorded  *)
(* hash), finalize.remove_deletable_files removes a queued file only when   *)
(* it still holds the recorded content, and a creator that survives but     *)
(* lost a product loses its step hash (after_lost_product).                 *)
(*                                                                         *)
(* The graph: the plan P (attached), steps A and B with outputs a and b,    *)
(* an attached consumer C.  A configuration fixes who created B (P or A),   *)
(* which steps are detached, which outputs were dropped by their step       *)
(* (orphans: creator NULL), who consumes a and b, the states of the two     *)
(* files and whether the file on disk is absent, as recorded or modified.   *)
(* Clean is the transcription of the loop and of the removal.               *)
(* Properties, for every configuration (C06 / C07):                         *)
(*   OnlyDeletedAreRemoved   a file taken off disk belonged to a deleted    *)
(*                           node                                           *)
(*   ModifiedAreKept         a file that no longer holds the recorded       *)
(*                           content stays                                  *)
(*   SurvivorsAreHeld        a detached node survives only if an attached   *)
(*                           node holds it (directly or not) -- or it lies  *)
(*                           on / behind a cycle of creator and dependency  *)
(*                           edges inside the detached part (finding F9)    *)
(*   UnheldAreGone           and conversely: what nothing holds is deleted, *)
(*                           and its unmodified output is off the disk      *)
(* Replay mode: configurations evaluated by TLC are built in a real         *)
(* Workflow on a real directory by checks/cleanup.py; surviving nodes, step *)
(* hashes and files on disk are compared.                                   *)
(***************************************************************************)
EXTENDS Naturals, Sequences, FiniteSets, TLC, Json, IOUtils

StepsAB == {"A", "B"}
FilesAB == {"a", "b"}
Nodes == StepsAB \cup FilesAB
Prod(f) == IF f = "a" THEN "A" ELSE "B"
FStates == {"PLANNED", "BUILT", "OUTDATED", "VOLATILE"}
Disk == {"absent", "same", "modified"}

\* c: [crB, det, orph, cons, fst, disk]; crB: the creator of B (NULL: B was detached by itself)
WellFormed(c) ==
  /\ (c.crB = "A" => c.det["A"] = c.det["B"])           \* a product is detached with (and only with) its creator
  /\ (c.crB = "P" => ~c.det["B"]) /\ (c.crB = "NULL" => c.det["B"])
  /\ ~("B" \in c.cons["a"] /\ "A" \in c.cons["b"])        \* dependencies are acyclic
  /\ \A f \in FilesAB : c.fst[f] = "VOLATILE" => c.cons[f] = {}   \* a volatile file is nobody's input
Configs ==
  {c \in [crB : {"P", "A", "NULL"}, det : [StepsAB -> BOOLEAN], orph : [FilesAB -> BOOLEAN],
          cons : [FilesAB -> SUBSET {"A", "B", "C"}], fst : [FilesAB -> FStates], disk : [FilesAB -> Disk]] :
     /\ WellFormed(c)
     /\ "A" \notin c.cons["a"] /\ "B" \notin c.cons["b"]}

Detached(c, n) == IF n \in StepsAB THEN c.det[n] ELSE c.orph[n] \/ c.det[Prod(n)]
\* what must be gone before n can go: its products (creator edges) and its sinks (dependency edges)
Products(c, n) == IF n = "A" THEN ({"a"} \ {f \in {"a"} : c.orph[f]}) \cup (IF c.crB = "A" THEN {"B"} ELSE {})
                  ELSE IF n = "B" THEN {"b"} \ {f \in {"b"} : c.orph[f]}
                  ELSE {}
Sinks(c, n) == IF n = "A" THEN {"a"} ELSE IF n = "B" THEN {"b"} ELSE c.cons[n]
RECURSIVE Loop(_, _)
Loop(c, X) ==
  LET cand == {n \in Nodes \ X : Detached(c, n) /\ (Products(c, n) \cup Sinks(c, n)) \ X = {}}
  IN IF cand = {} THEN X ELSE Loop(c, X \cup cand)
Deleted(c) == Loop(c, {})
Removed(c) == {f \in FilesAB \cap Deleted(c) :
                 /\ c.disk[f] # "absent"
                 /\ \/ c.fst[f] = "VOLATILE"
                    \/ c.fst[f] \in {"BUILT", "OUTDATED"} /\ c.disk[f] = "same"}
\* creators that survive although one of their products was deleted
LostProduct(c) == {s \in StepsAB \ Deleted(c) : Products(c, s) \cap Deleted(c) # {}}

(* the definition the loop is measured against *)
Succ(c, n) == Products(c, n) \cup Sinks(c, n)
RECURSIVE ReachFrom(_, _, _)
ReachFrom(c, S, seen) == LET nxt == (UNION {Succ(c, n) : n \in S \cap Nodes}) \ seen
                         IN IF nxt = {} THEN seen ELSE ReachFrom(c, nxt, seen \cup nxt)
Reach(c, n) == ReachFrom(c, {n}, {})
Attached(c, n) == n = "C" \/ (n \in Nodes /\ ~Detached(c, n))
Held(c, n) == \E m \in Reach(c, n) : Attached(c, m)
OnCycle(c, n) == n \in Reach(c, n)
BehindCycle(c, n) == \E m \in Reach(c, n) \cup {n} : m \in Nodes /\ OnCycle(c, m)

(* ------------------------------ model mode ------------------------------ *)
VARIABLES c, l, out
vars == <<c, l, out>>
MInit == c \in Configs /\ l = 0 /\ out = <<>>
MNext == UNCHANGED vars
MSpec == MInit /\ [][MNext]_vars
OnlyDeletedAreRemoved == Removed(c) \subseteq Deleted(c)
ModifiedAreKept == \A f \in FilesAB : c.disk[f] = "modified" /\ c.fst[f] # "VOLATILE" => f \notin Removed(c)
AttachedAreKept == \A n \in Nodes : ~Detached(c, n) => n \notin Deleted(c)
SurvivorsAreHeld == \A n \in Nodes : Detached(c, n) /\ n \notin Deleted(c) => Held(c, n) \/ BehindCycle(c, n)
UnheldAreGone == \A n \in Nodes : Detached(c, n) /\ ~Held(c, n) /\ ~BehindCycle(c, n) => n \in Deleted(c)
\* the strict form (no exception for cycles) fails: finding F9
SurvivorsAreHeldStrict == \A n \in Nodes : Detached(c, n) /\ n \notin Deleted(c) => Held(c, n)

(* -------------------------------- replay -------------------------------- *)
Lines == ndJsonDeserialize(IOEnv.TRACE_FILE)
NL == Len(Lines)
ToSet(s) == {s[i] : i \in DOMAIN s}
Cfg(x) == [crB |-> x.crB, det |-> [s \in StepsAB |-> x.det[s]], orph |-> [f \in FilesAB |-> x.orph[f]],
           cons |-> [f \in FilesAB |-> ToSet(x.cons[f])], fst |-> [f \in FilesAB |-> x.fst[f]],
           disk |-> [f \in FilesAB |-> x.disk[f]]]
Verdict(x) == LET k == Cfg(x) IN
  [id |-> x.id,
   deleted |-> [n \in Nodes |-> n \in Deleted(k)], removed |-> [f \in FilesAB |-> f \in Removed(k)],
   lost |-> [s \in StepsAB |-> s \in LostProduct(k)],
   cycle |-> \E n \in Nodes : Detached(k, n) /\ n \notin Deleted(k) /\ ~Held(k, n)]
Init == l = 1 /\ out = <<>> /\ c = 0
Next == /\ l <= NL
        /\ out' = Append(out, Verdict(Lines[l]))
        /\ l' = l + 1
        /\ UNCHANGED c
        /\ (l' = NL + 1) => JsonSerialize(IOEnv.VERDICT_FILE, [vectors |-> out', n |-> NL])
Spec == Init /\ [][Next]_vars
Consumed == TLCGet("stats").diameter >= NL
=============================================================================
