------------------------------ MODULE PathXlate ------------------------------
(***************************************************************************)
(* C20: a path means the same file to a step and to the director.          *)
(*                                                                         *)
(* Paths are strings; their meaning is given on component sequences, the   *)
(* way POSIX resolves them lexically (no symbolic links): Resolve(base, s) *)
(* is the normalised absolute component sequence that s designates from    *)
(* the directory base.  A step runs in the directory root/here (here is    *)
(* what the executor puts in HERE); API functions take paths relative to   *)
(* an optional working directory that is itself relative to that.          *)
(*                                                                         *)
(*   Translate(root, here, workdir, path)      what the director records   *)
(*   TranslateBack(root, here, workdir, path)  what is handed back         *)
(*                                                                         *)
(* are defined by their meaning: the unique normalised root-relative       *)
(* (resp. workdir-relative) path that designates the same file; absolute   *)
(* paths stay absolute and are normalised.  For every vector of the input  *)
(* (IOEnv.TRACE_FILE, generated from a domain of roots, HERE values,       *)
(* working directories and paths with `.`/`..` components and affixes)     *)
(* TLC evaluates the definitions, checks the semantic statements below on  *)
(* them, and writes the expected strings; checks/c20.py executes the real  *)
(* translate / translate_back / api functions / executor with the same     *)
(* values on a real directory tree and compares strings and realpaths.     *)
(***************************************************************************)
EXTENDS Naturals, Sequences, FiniteSets, TLC, Json, IOUtils

Chr(s, i) == SubSeq(s, i, i)
IsAbs(s) == Len(s) >= 1 /\ Chr(s, 1) = "/"

\* components of a path string (separator "/"); empty components are kept here
RECURSIVE SplitFrom(_, _, _)
SplitFrom(s, i, cur) ==
  IF i > Len(s) THEN <<cur>>
  ELSE IF Chr(s, i) = "/" THEN <<cur>> \o SplitFrom(s, i + 1, "")
  ELSE SplitFrom(s, i + 1, cur \o Chr(s, i))
Split(s) == SplitFrom(s, 1, "")

RECURSIVE JoinC(_)
JoinC(cs) == IF cs = <<>> THEN "" ELSE IF Len(cs) = 1 THEN cs[1] ELSE cs[1] \o "/" \o JoinC(Tail(cs))

\* lexical normalisation on a stack of components
RECURSIVE NormStack(_, _, _)
NormStack(cs, st, abs) ==
  IF cs = <<>> THEN st
  ELSE LET c == Head(cs) IN
       IF c = "" \/ c = "." THEN NormStack(Tail(cs), st, abs)
       ELSE IF c = ".."
            THEN IF st # <<>> /\ st[Len(st)] # ".." THEN NormStack(Tail(cs), SubSeq(st, 1, Len(st) - 1), abs)
                 ELSE IF abs THEN NormStack(Tail(cs), st, abs)
                 ELSE NormStack(Tail(cs), Append(st, ".."), abs)
            ELSE NormStack(Tail(cs), Append(st, c), abs)
\* normalised components of an absolute path string / of a relative one appended to a base
AbsComps(s) == NormStack(Split(s), <<>>, TRUE)
Resolve(base, s) == IF IsAbs(s) THEN AbsComps(s) ELSE NormStack(Split(s), base, TRUE)
AbsStr(cs) == "/" \o JoinC(cs)
NormRel(s) == LET st == NormStack(Split(s), <<>>, FALSE) IN IF st = <<>> THEN "." ELSE JoinC(st)
Norm(s) == IF IsAbs(s) THEN AbsStr(AbsComps(s)) ELSE NormRel(s)

\* the relative path from directory `base` to `target` (both normalised absolute component sequences)
RECURSIVE Common(_, _)
Common(a, b) == IF a = <<>> \/ b = <<>> \/ Head(a) # Head(b) THEN 0 ELSE 1 + Common(Tail(a), Tail(b))
Rel(target, base) ==
  LET k == Common(target, base)
      ups == [i \in 1..(Len(base) - k) |-> ".."]
      res == ups \o SubSeq(target, k + 1, Len(target))
  IN IF res = <<>> THEN "." ELSE JoinC(res)

(* ------------------------------ the two translations ------------------------------ *)
StepDir(root, here) == Resolve(AbsComps(root), here)              \* where the step runs
WorkDir(root, here, workdir) == Resolve(StepDir(root, here), workdir)

Translate(root, here, workdir, path) ==
  IF IsAbs(path) THEN Norm(path)
  ELSE IF IsAbs(workdir) THEN AbsStr(Resolve(AbsComps(workdir), path))
  ELSE Rel(Resolve(WorkDir(root, here, workdir), path), AbsComps(root))

\* an absolute path is made relative only when both are absolute and it lies under the working directory
Under(p, w) == Len(p) >= Len(w) /\ SubSeq(p, 1, Len(w)) = w
TranslateBack(root, here, workdir, path) ==
  IF IsAbs(path)
  THEN IF IsAbs(workdir) /\ Under(AbsComps(path), AbsComps(workdir)) THEN Rel(AbsComps(path), AbsComps(workdir))
       ELSE Norm(path)
  ELSE Rel(Resolve(AbsComps(root), path), WorkDir(root, here, workdir))

\* leading "./" and trailing "/" of a path string ("./" alone has only the trailing one)
Trailing(s) == Len(s) >= 1 /\ Chr(s, Len(s)) = "/"
Core(s) == IF Trailing(s) THEN SubSeq(s, 1, Len(s) - 1) ELSE s
Leading(s) == Len(Core(s)) >= 2 /\ SubSeq(Core(s), 1, 2) = "./"
WithAffixes(orig, res) == (IF Leading(orig) THEN "./" ELSE "") \o res \o (IF Trailing(orig) THEN "/" ELSE "")

(* ------------------------------------ vectors ------------------------------------ *)
Lines == ndJsonDeserialize(IOEnv.TRACE_FILE)
N == Len(Lines)

\* a recorded call of the real code: e.got_t = translate(path, workdir), e.got_b = translate_back(..),
\* e.got_keep = _keep_affixes(path, translate) (or "<error>")
Eval(e) ==
  IF e.kind = "xlate" THEN
    LET t == Translate(e.root, e.here, e.workdir, e.path)
        b == TranslateBack(e.root, e.here, e.workdir, e.path)
        wd == WorkDir(e.root, e.here, e.workdir)
        meant == Resolve(wd, e.path)
        bad ==
          \* the specification's own statements
             (IF Resolve(AbsComps(e.root), t) # meant THEN {"spec_translate_same_file"} ELSE {})
          \cup (IF Norm(t) # t THEN {"spec_translate_normalized"} ELSE {})
          \cup (IF Resolve(wd, b) # Resolve(AbsComps(e.root), e.path) THEN {"spec_back_same_file"} ELSE {})
          \cup (IF Resolve(wd, TranslateBack(e.root, e.here, e.workdir, t)) # meant THEN {"spec_round_trip"} ELSE {})
          \* the implementation
          \cup (IF e.got_t # t THEN {"translate_is_not_the_normalized_root_relative_path"} ELSE {})
          \cup (IF Resolve(AbsComps(e.root), e.got_t) # meant THEN {"translate_designates_another_file"} ELSE {})
          \cup (IF Resolve(wd, e.got_b) # Resolve(AbsComps(e.root), e.path) THEN {"translate_back_designates_another_file"} ELSE {})
          \cup (IF Norm(e.got_b) # e.got_b THEN {"translate_back_not_normalized"} ELSE {})
          \cup (IF e.here = "." /\ e.workdir = "." /\ ~IsAbs(e.path) /\ NormRel(e.path) = e.path
                   /\ (Len(e.path) < 2 \/ SubSeq(e.path, 1, 2) # "..") /\ e.got_t # e.path
                THEN {"normalized_root_relative_path_changed"} ELSE {})
          \cup (IF e.workdir = "." /\ ~IsAbs(e.path) /\ e.got_keep # WithAffixes(e.path, Translate(e.root, e.here, ".", e.path))
                THEN {"affixes_not_preserved"} ELSE {})
    IN [id |-> e.id, bad |-> bad, translate |-> t, back |-> b]
  ELSE \* kind = "env": what the executor exported for a step running in workdir (relative to the root)
    LET wd == Resolve(AbsComps(e.root), e.workdir)
        bad == (IF Resolve(wd, e.ROOT) # AbsComps(e.root) THEN {"ROOT_does_not_lead_to_the_root"} ELSE {})
               \cup (IF Resolve(AbsComps(e.root), e.HERE) # wd THEN {"HERE_does_not_lead_to_the_working_directory"} ELSE {})
    IN [id |-> e.id, bad |-> bad, translate |-> Rel(wd, AbsComps(e.root)), back |-> Rel(AbsComps(e.root), wd)]

VARIABLES l, out
vars == <<l, out>>
Init == l = 0 /\ out = <<>>
Next ==
  /\ l < N
  /\ l' = l + 1
  /\ out' = Append(out, Eval(Lines[l + 1]))
  /\ (l' = N) => JsonSerialize(IOEnv.VERDICT_FILE, [vectors |-> out', n |-> N])
Spec == Init /\ [][Next]_vars
Consumed == TLCGet("stats").diameter - 1 = N
=============================================================================
