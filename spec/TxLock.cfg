SPECIFICATION TSpec
CONSTANTS
  Tasks = {"t1", "t2", "t3"}
  Keys = {1, 2, 3, 4}
  MaxOps = 0
INVARIANT OneHolder
INVARIANT QueueIsWaiters
INVARIANT UncommittedBelongsToHolder
PROPERTY CommitOnly
PROPERTY FreshStart
PROPERTY Fifo
PROPERTY NoBarging
POSTCONDITION Consumed
CHECK_DEADLOCK FALSE
