SPECIFICATION Spec
CONSTRAINT BoundQuick
INVARIANT IncrementalEqualsScan
INVARIANT RepeatedNameEqual
INVARIANT NamedLikeAnonymous
CHECK_DEADLOCK FALSE
