-------------------------------- MODULE Defer --------------------------------
(***************************************************************************)
(* Amended inputs, deferral and wake-up.                                    *)
(*                                                                         *)
(* A step C discovers its inputs while it runs and reports them with        *)
(* amend().  An input that is not available makes the script give up and    *)
(* ask to be deferred; StepUp parks the step (deferred = 1: not dispatched) *)
(* and wakes it up when a file it waits for changes                         *)
(* (mark_consuming_steps_pending -> mark_step_pending clears the flag).     *)
(* mark_step_pending ignores RUNNING steps, so an input that becomes        *)
(* available between the refused amendment and the end of the command       *)
(* wakes nobody: Step.mark_completed therefore asks again                   *)
(* (has_unavailable_dynamic_input) before it parks the step.  This module   *)
(* models that protocol and lets TLC explore every interleaving of          *)
(*   C       StartC (dispatch + reset_for_rerun), AmendC, CompleteC         *)
(*   x       a path that nothing declares at first (UNDECLARED when C       *)
(*           amends it), that a plan declares static later (DeclareX) and   *)
(*           that a hash job then confirms or finds missing (ConfirmX)      *)
(*   P, o    a producer and its output, amended by C as well; a producer    *)
(*           that overlaps with C's run makes its output unfresh            *)
(* Properties: NoLostWakeup (a parked step waits for something),            *)
(* FailedOnlyByCap, CapRespected, and under weak fairness Settles (C ends   *)
(* SUCCEEDED, FAILED or parked: no endless rerun).  With                    *)
(* ConfirmedCounts = FALSE the re-check treats only BUILT inputs as         *)
(* available (a seeded change the test suite does not notice): TLC finds    *)
(* the parked step that waits for nothing.                                  *)
(* Replay mode: sequences evaluated by TLC are executed on the real         *)
(* Workflow by checks/defer.py and compared after every action.             *)
(***************************************************************************)
EXTENDS Naturals, Sequences, FiniteSets, TLC, Json, IOUtils

CONSTANTS Cap,               \* defer cap
          ConfirmedCounts    \* FALSE: has_unavailable_dynamic_input accepts BUILT only

Scripts == {{"x"}, {"o"}, {"x", "o"}}    \* what C amends in one run

D0(sc) == [sc |-> sc, x |-> "NONE", o |-> "PLANNED", p |-> "PENDING",
           c |-> "PENDING", cdef |-> FALSE, cnt |-> 0, dyn |-> {}, wants |-> FALSE, asked |-> FALSE, overlap |-> FALSE]

FState(d, f) == IF f = "x" THEN d.x ELSE d.o
Avail(d, f) == FState(d, f) \in {"CONFIRMED", "BUILT"}
\* Step.has_unavailable_dynamic_input
Recheck(d) == \E f \in d.dyn : IF ConfirmedCounts THEN ~Avail(d, f) ELSE FState(d, f) # "BUILT"
\* step._ready: a dynamic input blocks dispatch only while it is an attached PLANNED / OUTDATED output
Ready(d) == ~("o" \in d.dyn /\ d.o \in {"PLANNED", "OUTDATED"})
\* mark_consuming_steps_pending(f) -> mark_step_pending(C): ignored while C is RUNNING
Wake(d, f) == IF f \in d.dyn /\ d.c # "RUNNING" THEN [d EXCEPT !.c = "PENDING", !.cdef = FALSE] ELSE d

StartCEn(d) == d.c = "PENDING" /\ ~d.cdef /\ Ready(d)
DoStartC(d) == [d EXCEPT !.c = "RUNNING", !.dyn = {}, !.wants = FALSE, !.asked = FALSE, !.overlap = (d.p = "RUNNING")]

\* amend_step: edges are recorded whatever the availability; an UNCONFIRMED input is hashed at once
\* (pres: whether the file exists); the script gives up when something is unavailable or unfresh
AmendEn(d) == d.c = "RUNNING" /\ ~d.asked
DoAmend(d, pres) ==
  LET x1 == IF "x" \in d.sc
            THEN (IF d.x = "NONE" THEN "UNDECLARED"
                  ELSE IF d.x = "UNCONFIRMED" THEN (IF pres THEN "CONFIRMED" ELSE "MISSING") ELSE d.x)
            ELSE d.x
      d1 == [d EXCEPT !.x = x1, !.dyn = d.sc, !.asked = TRUE]
      unavailable == \E f \in d.sc : ~Avail(d1, f)
      unfresh == "o" \in d.sc /\ d.o = "BUILT" /\ d.overlap
  IN [d1 EXCEPT !.wants = unavailable \/ unfresh]

DeclareXEn(d) == d.x \in {"NONE", "UNDECLARED"}
DoDeclareX(d) == [d EXCEPT !.x = "UNCONFIRMED"]
ConfirmXEn(d) == d.x = "UNCONFIRMED"
DoConfirmX(d, pres) == Wake([d EXCEPT !.x = IF pres THEN "CONFIRMED" ELSE "MISSING"], "x")

StartPEn(d) == d.p = "PENDING"
DoStartP(d) == [d EXCEPT !.p = "RUNNING", !.overlap = @ \/ d.c = "RUNNING"]
SucceedPEn(d) == d.p = "RUNNING"
DoSucceedP(d) == Wake([d EXCEPT !.p = "SUCCEEDED", !.o = "BUILT"], "o")

CompleteEn(d) == d.c = "RUNNING" /\ d.asked
DoComplete(d) ==
  IF d.wants
  THEN IF d.cnt + 1 <= Cap
       THEN [d EXCEPT !.cnt = @ + 1, !.c = "PENDING", !.cdef = Recheck(d)]
       ELSE [d EXCEPT !.cnt = @ + 1, !.c = "FAILED", !.cdef = FALSE]
  ELSE [d EXCEPT !.c = "SUCCEEDED", !.cdef = FALSE, !.cnt = 0]

(* ------------------------------ model mode ------------------------------ *)
VARIABLES d, l, out, ak, cur, acc
vars == <<d, l, out, ak, cur, acc>>
MInit == d \in {D0(sc) : sc \in Scripts} /\ l = 0 /\ out = <<>> /\ ak = 0 /\ cur = 0 /\ acc = <<>>
StartC == StartCEn(d) /\ d' = DoStartC(d)
AmendC == AmendEn(d) /\ \E pres \in BOOLEAN : d' = DoAmend(d, pres)
DeclareX == DeclareXEn(d) /\ d' = DoDeclareX(d)
ConfirmX == ConfirmXEn(d) /\ \E pres \in BOOLEAN : d' = DoConfirmX(d, pres)
StartP == StartPEn(d) /\ d' = DoStartP(d)
SucceedP == SucceedPEn(d) /\ d' = DoSucceedP(d)
CompleteC == CompleteEn(d) /\ d' = DoComplete(d)
MNext == /\ UNCHANGED <<l, out, ak, cur, acc>>
         /\ (StartC \/ AmendC \/ DeclareX \/ ConfirmX \/ StartP \/ SucceedP \/ CompleteC)
Rest == UNCHANGED <<l, out, ak, cur, acc>>
MSpec == MInit /\ [][MNext]_vars /\ WF_vars(StartC /\ Rest) /\ WF_vars(AmendC /\ Rest) /\ WF_vars(CompleteC /\ Rest)
                /\ WF_vars(StartP /\ Rest) /\ WF_vars(SucceedP /\ Rest) /\ WF_vars(ConfirmX /\ Rest)

NoLostWakeup == (d.c = "PENDING" /\ d.cdef) => \E f \in d.dyn : ~Avail(d, f)
FailedOnlyByCap == d.c = "FAILED" => d.cnt > Cap
CapRespected == d.cnt <= Cap + 1
\* C does not run for ever: it ends done, failed, or parked / blocked on an input that is not there
Settled == d.c \in {"SUCCEEDED", "FAILED"} \/ (d.c = "PENDING" /\ (d.cdef \/ ~Ready(d)))
Settles == <>[]Settled

(* -------------------------------- replay -------------------------------- *)
Lines == ndJsonDeserialize(IOEnv.TRACE_FILE)
NL == Len(Lines)
Apply(h, a) ==
  CASE a.a = "startC"   -> IF StartCEn(h) THEN <<TRUE, DoStartC(h)>> ELSE <<FALSE, h>>
    [] a.a = "amend"    -> IF AmendEn(h) THEN <<TRUE, DoAmend(h, a.pres)>> ELSE <<FALSE, h>>
    [] a.a = "declareX" -> IF DeclareXEn(h) THEN <<TRUE, DoDeclareX(h)>> ELSE <<FALSE, h>>
    [] a.a = "confirmX" -> IF ConfirmXEn(h) THEN <<TRUE, DoConfirmX(h, a.pres)>> ELSE <<FALSE, h>>
    [] a.a = "startP"   -> IF StartPEn(h) THEN <<TRUE, DoStartP(h)>> ELSE <<FALSE, h>>
    [] a.a = "succeedP" -> IF SucceedPEn(h) THEN <<TRUE, DoSucceedP(h)>> ELSE <<FALSE, h>>
    [] a.a = "complete" -> IF CompleteEn(h) THEN <<TRUE, DoComplete(h)>> ELSE <<FALSE, h>>
Proj(h) == [x |-> h.x, o |-> h.o, p |-> h.p, c |-> h.c, cdef |-> h.cdef, cnt |-> h.cnt,
            dynx |-> "x" \in h.dyn, dyno |-> "o" \in h.dyn, wants |-> h.wants, overlap |-> h.overlap,
            parked_for_nothing |-> ~((h.c = "PENDING" /\ h.cdef) => \E f \in h.dyn : ~Avail(h, f))]
Init == l = 1 /\ out = <<>> /\ d = 0 /\ ak = 0 /\ cur = D0({"x"}) /\ acc = <<>>
Start(line) == D0({f \in {"x", "o"} : \E i \in DOMAIN line.sc : line.sc[i] = f})
Next ==
  /\ l <= NL
  /\ UNCHANGED d
  /\ IF ak < Len(Lines[l].acts)
     THEN LET base == IF ak = 0 THEN Start(Lines[l]) ELSE cur
              r == Apply(base, Lines[l].acts[ak + 1]) IN
          /\ ak' = ak + 1
          /\ cur' = r[2]
          /\ acc' = Append(acc, [enabled |-> r[1], st |-> Proj(r[2])])
          /\ UNCHANGED <<l, out>>
     ELSE /\ out' = Append(out, [id |-> Lines[l].id, states |-> acc])
          /\ l' = l + 1 /\ ak' = 0 /\ cur' = D0({"x"}) /\ acc' = <<>>
          /\ (l' = NL + 1) => JsonSerialize(IOEnv.VERDICT_FILE, [vectors |-> out', n |-> NL])
Spec == Init /\ [][Next]_vars
Consumed == TLCGet("stats").diameter >= NL
=============================================================================
