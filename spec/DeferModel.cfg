SPECIFICATION MSpec
CONSTANTS
  Cap = 2
  ConfirmedCounts = TRUE
INVARIANT NoLostWakeup
INVARIANT FailedOnlyByCap
INVARIANT CapRespected
PROPERTY Settles
CHECK_DEADLOCK FALSE
