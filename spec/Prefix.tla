------------------------------- MODULE Prefix -------------------------------
(***************************************************************************)
(* C18: "under this directory" selects exactly the stored paths that have  *)
(* the directory as a proper path prefix, compared byte for byte.          *)
(*                                                                         *)
(* Paths are sequences of code points (strings do not survive the TLC      *)
(* JSON boundary for non-ASCII text and have no order).  TLC enumerates a   *)
(* universe of directory names and stored labels over an alphabet chosen   *)
(* to be adversarial for LIKE/GLOB/range implementations (case pairs, LIKE *)
(* and GLOB metacharacters, the escape character, the successor of '/',    *)
(* non-ASCII), evaluates the definition and emits one vector per directory *)
(* (mode G); harness/prefix_sites.py executes every selection site of the  *)
(* implementation on a real database holding all labels and compares.      *)
(***************************************************************************)
EXTENDS Naturals, Sequences, FiniteSets, TLC, Json, IOUtils

\* a A % _ \ . 0 * ? [ e-acute y-diaeresis
Alphabet == {97, 65, 37, 95, 92, 46, 48, 42, 63, 91, 233, 255}
Slash == 47

Names1 == {<<c>> : c \in Alphabet}
Names2 == {<<c, d>> : c \in Alphabet, d \in {97, 65, 37, 95, 48, 233}}
Names == (Names1 \cup Names2) \ {<<46>>, <<46, 46>>}      \* "." and ".." are not file names
DirNames == (Names1 \cup {<<97, c>> : c \in Alphabet} \cup {<<c, 97>> : c \in Alphabet})
            \ {<<46>>, <<46, 46>>}

Join(a, b) == a \o <<Slash>> \o b
Dirs == {n \o <<Slash>> : n \in DirNames}
         \cup {Join(n, m) \o <<Slash>> : n \in {<<97>>, <<65>>, <<37>>}, m \in {<<97>>, <<95>>, <<48>>}}
\* stored labels: files at depth 1, 2 and 3
Labels == Names
          \cup {Join(n, m) : n \in DirNames, m \in {<<97>>, <<65>>, <<120>>}}
          \cup {Join(Join(n, m), <<120>>) : n \in {<<97>>, <<65>>, <<37>>, <<95>>, <<97, 97>>},
                                           m \in {<<97>>, <<95>>, <<48>>, <<65>>}}

(* The definition: proper prefix, element for element *)
Under(d, p) == Len(p) > Len(d) /\ SubSeq(p, 1, Len(d)) = d

Expected(d) == {p \in Labels : Under(d, p)}

Vectors == [labels |-> Labels,
            dirs |-> {[d |-> d, under |-> Expected(d)] : d \in Dirs}]

\* sanity properties of the definition itself (checked by TLC while generating)
ASSUME \A d \in Dirs : d[Len(d)] = Slash
ASSUME \A d \in Dirs : \A p \in Expected(d) : Len(p) > Len(d)
\* case, wildcard and sibling look-alikes are never under the directory
ASSUME ~Under(<<97, Slash>>, <<65, Slash, 120>>)          \* a/ vs A/x
ASSUME ~Under(<<95, Slash>>, <<97, Slash, 120>>)          \* _/ vs a/x
ASSUME ~Under(<<37, Slash>>, <<97, 97, Slash, 120>>)      \* %/ vs aa/x
ASSUME ~Under(<<97, Slash>>, <<97, 48, Slash, 120>>)      \* a/ vs a0/x
ASSUME Under(<<97, Slash>>, <<97, Slash, 97, Slash, 120>>)

ASSUME JsonSerialize(IOEnv.VECTOR_FILE, Vectors)
ASSUME PrintT(<<"prefix_vectors", Cardinality(Dirs), Cardinality(Labels)>>)
=============================================================================
