SPECIFICATION MSpec
CONSTANTS
  MaxV = 4
  MaxB = 3
  Cap = 2
  Envs = {1, 2}
  CheckOut = TRUE
  DropHash = TRUE
INVARIANT Sound
INVARIANT HashOnlyWhenChecked
INVARIANT BuiltIsRecorded
INVARIANT NeverRaises
INVARIANT FailedHasNoHash
PROPERTY Settles
PROPERTY CapRespected
CHECK_DEADLOCK FALSE
