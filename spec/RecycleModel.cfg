SPECIFICATION MSpec
VIEW MView
CONSTRAINT MBound
INVARIANT OwnerAttached
INVARIANT BuiltMeansDone
INVARIANT DoneMeansBuilt
INVARIANT DoneMeansInputsDeclaredUpToF15
INVARIANT HashMeansOutput
CHECK_DEADLOCK FALSE
