------------------------------- MODULE TxLock -------------------------------
(* The transaction lock of the director's one SQLite connection (stepup/core/sqlite3.py, DBSession):
   `async with db:` = _acquire (nesting check, asyncio.Lock FIFO wait, _held) + BEGIN IMMEDIATE,
   __aexit__ = COMMIT or ROLLBACK + _release;  `_autocommit_con()` = the same lock without a transaction;
   execute() only for the task inside its own transaction.  One action per linearization point of the code:
   the call that returns or raises at once (Enter granted / Enter queued / Nested / Write / BadWrite /
   Commit / Rollback / ExitAuto), the waiter that is resumed with the lock (Grant), and the cancellation of
   a waiter (Cancel) -- including the waiter that release() already woke but that did not run yet.

   Two uses.  (1) model: TLC explores every interleaving of Tasks and checks the part of C15 that rests on
   this lock: at most one holder, uncommitted writes belong to the holder alone, the committed store changes
   only by the holder's commit and then to exactly its working copy, a rolled back or refused request changes
   nothing, the lock is handed over in arrival order and is never lost.  (2) trace: event lines recorded from
   the real DBSession driven by checks/txlock.py (with the committed store read through an independent
   connection and `_held` after every event) must be a behaviour of the same actions. *)
EXTENDS Naturals, Sequences, FiniteSets, TLC, Json, IOUtils

CONSTANTS Tasks, Keys, MaxOps
None == "none"

VARIABLES pc, holder, queue, committed, working, n, l
mvars == <<pc, holder, queue, committed, working>>
vars == <<pc, holder, queue, committed, working, n, l>>

SetPc(t, v) == pc' = [pc EXCEPT ![t] = v]
Free == holder = None /\ queue = <<>>
Take(t, mode) == holder' = t /\ SetPc(t, mode) /\ working' = committed

Enter(t, mode) ==
  /\ pc[t] = "idle"
  /\ IF Free THEN Take(t, mode) /\ UNCHANGED <<queue, committed>>
             ELSE /\ queue' = Append(queue, <<t, mode>>)
                  /\ SetPc(t, "waiting")
                  /\ UNCHANGED <<holder, committed, working>>
Grant(t) ==
  /\ holder = None /\ queue # <<>> /\ Head(queue)[1] = t
  /\ Take(t, Head(queue)[2]) /\ queue' = Tail(queue) /\ UNCHANGED committed
Nested(t) == pc[t] \in {"txn", "auto"} /\ UNCHANGED mvars            \* raises, nothing changes
Write(t, k) == pc[t] = "txn" /\ working' = working \cup {k} /\ UNCHANGED <<pc, holder, queue, committed>>
BadWrite(t, k) == pc[t] \in {"idle", "auto"} /\ UNCHANGED mvars      \* raises, nothing changes
Commit(t) == /\ pc[t] = "txn" /\ committed' = working /\ holder' = None /\ SetPc(t, "idle")
             /\ UNCHANGED <<queue, working>>
Rollback(t) == /\ pc[t] = "txn" /\ working' = committed /\ holder' = None /\ SetPc(t, "idle")
               /\ UNCHANGED <<queue, committed>>
ExitAuto(t) == /\ pc[t] = "auto" /\ holder' = None /\ SetPc(t, "idle")
               /\ UNCHANGED <<queue, committed, working>>
Cancel(t) == /\ pc[t] = "waiting"
             /\ queue' = SelectSeq(queue, LAMBDA e : e[1] # t) /\ SetPc(t, "idle")
             /\ UNCHANGED <<holder, committed, working>>

(* ----------------------------------- model ----------------------------------- *)
MInit == /\ pc = [t \in Tasks |-> "idle"] /\ holder = None /\ queue = <<>>
         /\ committed = {} /\ working = {} /\ n = 0 /\ l = 0
MNext == /\ n < MaxOps /\ n' = n + 1 /\ UNCHANGED l
         /\ \E t \in Tasks :
              \/ \E m \in {"txn", "auto"} : Enter(t, m)
              \/ Grant(t) \/ Nested(t) \/ Commit(t) \/ Rollback(t) \/ ExitAuto(t) \/ Cancel(t)
              \/ \E k \in Keys : Write(t, k) \/ BadWrite(t, k)
MSpec == MInit /\ [][MNext]_vars
\* liveness is checked on the variant without the operation budget
LNext == \E t \in Tasks :
              \/ \E m \in {"txn", "auto"} : Enter(t, m)
              \/ Grant(t) \/ Commit(t) \/ Rollback(t) \/ ExitAuto(t) \/ Cancel(t)
\* fairness: the waiter that release() woke runs (whoever it is: waiters may be cancelled meanwhile)
LSpec == MInit /\ [][LNext /\ UNCHANGED <<n, l>>]_vars /\ WF_vars((\E t \in Tasks : Grant(t)) /\ UNCHANGED <<n, l>>)

Inside == {t \in Tasks : pc[t] \in {"txn", "auto"}}
OneHolder == Inside = (IF holder = None THEN {} ELSE {holder})
QueueIsWaiters == /\ {queue[i][1] : i \in DOMAIN queue} = {t \in Tasks : pc[t] = "waiting"}
                  /\ \A i, j \in DOMAIN queue : i # j => queue[i][1] # queue[j][1]
UncommittedBelongsToHolder == working # committed => holder # None /\ pc[holder] = "txn"
\* the committed store changes only by the commit of the task inside the transaction, to its working copy;
\* every other step -- a rollback, a refused call, a cancellation, a hand-over -- leaves it alone
CommitOnly == [][committed' # committed =>
                   /\ holder # None /\ pc[holder] = "txn" /\ pc'[holder] = "idle" /\ committed' = working]_vars
\* a transaction starts from the committed store (nothing of a rolled back request leaks into the next)
FreshStart == [][\A t \in Tasks : pc[t] # "txn" /\ pc'[t] = "txn" => working' = committed]_vars
\* hand-over in arrival order: whoever gets the lock was the longest waiting, or nobody waited
Fifo == [][\A t \in Tasks : pc[t] = "waiting" /\ pc'[t] \in {"txn", "auto"} => Head(queue)[1] = t]_vars
NoBarging == [][\A t \in Tasks : pc[t] = "idle" /\ pc'[t] \in {"txn", "auto"} => queue = <<>>]_vars
\* the lock is never lost: with nobody inside, somebody waiting gets in
NeverLost == (holder = None /\ queue # <<>>) ~> (holder # None \/ queue = <<>>)

(* ----------------------------------- trace ----------------------------------- *)
Lines == ndJsonDeserialize(IOEnv.TRACE_FILE)
NL == Len(Lines)
ToSet(s) == {s[i] : i \in DOMAIN s}
Step(e) ==
  LET t == e.t IN
  CASE e.op = "enter"    -> Enter(t, e.mode) /\ (IF e.res = "granted" THEN pc'[t] = e.mode ELSE pc'[t] = "waiting")
    [] e.op = "grant"    -> Grant(t) /\ pc'[t] = e.mode
    [] e.op = "nested"   -> Nested(t) /\ e.res = "raised"
    [] e.op = "write"    -> IF e.res = "ok" THEN Write(t, e.k) ELSE BadWrite(t, e.k)
    [] e.op = "commit"   -> Commit(t) /\ e.res = "ok"
    [] e.op = "rollback" -> Rollback(t) /\ e.res = "ok"
    [] e.op = "exit_auto" -> ExitAuto(t) /\ e.res = "ok"
    [] e.op = "cancel"   -> Cancel(t)
    [] OTHER -> FALSE
TInit == /\ pc = [t \in Tasks |-> "idle"] /\ holder = None /\ queue = <<>>
         /\ committed = {} /\ working = {} /\ n = 0 /\ l = 1 /\ TLCSet(42, 0)
TNext ==
  /\ l <= NL /\ l' = l + 1 /\ UNCHANGED n
  /\ LET e == Lines[l] IN
       IF e.op = "reset"
       THEN /\ pc' = [t \in Tasks |-> "idle"] /\ holder' = None /\ queue' = <<>>
            /\ committed' = {} /\ working' = {}
       ELSE /\ Step(e)
            \* what the code showed after the event: committed rows seen by an independent connection,
            \* the task in `_held`, whether the asyncio lock is taken
            /\ committed' = ToSet(e.com)
            /\ holder' = e.held
            /\ e.locked = (holder' # None)
  /\ TLCSet(42, l)
TSpec == TInit /\ [][TNext]_vars
Consumed == IF TLCGet("stats").diameter >= NL + 1 THEN TRUE
            ELSE PrintT(<<"REACHED", TLCGet(42)>>) /\ FALSE
=============================================================================
