SPECIFICATION MSpec
CONSTANTS
  Cap = 2
  ConfirmedCounts = FALSE
INVARIANT NoLostWakeup
INVARIANT FailedOnlyByCap
INVARIANT CapRespected
PROPERTY Settles
CHECK_DEADLOCK FALSE
