SPECIFICATION MSpec
CONSTANTS
  N = 3
  MaxDirty = 2
  States = {"P"}
  Needs = {1, 2}
  MaxHold = 0
  EnableOut = FALSE
  EnableCons = TRUE
  UseMin = FALSE
  FlagProducerOnEdgeLoss = FALSE
INVARIANT CacheExactSafe
INVARIANT CacheExactAfter
INVARIANT CacheExactReady
INVARIANT TreeWellFormed
CHECK_DEADLOCK FALSE
