SPECIFICATION MSpec
CONSTANTS
  N = 3
  MaxDirty = 2
  States = {"P"}
  Needs = {1, 2}
  MaxHold = 0
  EnableCons = TRUE
  UseMin = FALSE
  FlagProducerOnEdgeLoss = FALSE
INVARIANT CacheExactSafe
INVARIANT CacheExactAfter
INVARIANT TreeWellFormed
CHECK_DEADLOCK FALSE
