SPECIFICATION RSpec
POSTCONDITION Consumed
CHECK_DEADLOCK FALSE
