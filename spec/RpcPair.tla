------------------------------- MODULE RpcPair -------------------------------
(***************************************************************************)
(* Calls and their outcomes as the CLIENTS see them (C16, end to end).      *)
(*                                                                         *)
(* Rpc.tla / TraceRpc.tla describe one server connection at the level of    *)
(* message units.  This module is the contract one level up, validated on   *)
(* executions of the real SocketRPCServer with real SocketAsyncRPCClient    *)
(* and SocketSyncRPCClient objects over Unix sockets: several connections,  *)
(* calls in flight at the same time, completion orders chosen by the        *)
(* driver, a peer that drops its connection in the middle.                  *)
(*   call(conn, k, kind, arg)   a client issues its k-th call               *)
(*   ret(conn, k, cls, val)     the call returns or raises                  *)
(*   drop(conn)                 the client's transport is torn down         *)
(* Every ret must answer a call of that connection that is still open, at   *)
(* most once, with the outcome its own kind and argument determine: the     *)
(* value computed from ITS argument, the usage error class raised for IT,   *)
(* a generic RPCError for an internal fault; a call may end in              *)
(* ConnectionResetError only on a connection that was dropped.  At the end  *)
(* nothing is left open except on dropped connections.                      *)
(***************************************************************************)
EXTENDS Naturals, Sequences, FiniteSets, TLC, Json, IOUtils

Log == ndJsonDeserialize(IOEnv.TRACE_FILE)
N == Len(Log)

VARIABLES l, open, dropped, bad
vars == <<l, open, dropped, bad>>

Expected(kind) == CASE kind = "ok" -> "ok" [] kind = "usage" -> "GraphError" [] kind = "internal" -> "RPCError"
                    [] kind = "unknown" -> "RPCError" [] kind = "intcancel" -> "RPCError" [] OTHER -> "?"

Handle(e, k) ==
  CASE e.ev = "start" ->
         /\ bad' = IF open # {} /\ \E o \in open : o.conn \notin dropped
                   THEN Append(bad, [tid |-> e.tid, line |-> k, clause |-> "call_left_unanswered", subj |-> ToString({o.k : o \in open})]) ELSE bad
         /\ open' = {} /\ dropped' = {}
    [] e.ev = "call" ->
         /\ open' = open \cup {[conn |-> e.conn, k |-> e.k, kind |-> e.kind, arg |-> e.arg]}
         /\ UNCHANGED <<dropped, bad>>
    [] e.ev = "drop" -> dropped' = dropped \cup {e.conn} /\ UNCHANGED <<open, bad>>
    [] e.ev = "ret" ->
         LET mine == {o \in open : o.conn = e.conn /\ o.k = e.k}
             o == CHOOSE o \in mine : TRUE
             why == IF mine = {} THEN "outcome_for_a_call_that_is_not_open"
                    ELSE IF e.cls = "ConnectionResetError" /\ e.conn \in dropped THEN ""
                    ELSE IF e.cls # Expected(o.kind) THEN "outcome_of_wrong_class"
                    ELSE IF e.val # o.arg THEN "outcome_belongs_to_another_call"
                    ELSE ""
         IN /\ open' = open \ mine
            /\ bad' = IF why = "" THEN bad ELSE Append(bad, [tid |-> e.tid, line |-> k, clause |-> why,
                                                              subj |-> ToString(<<e.conn, e.k, e.cls, e.val>>)])
            /\ UNCHANGED dropped
    [] OTHER -> UNCHANGED <<open, dropped, bad>>

Init == l = 0 /\ open = {} /\ dropped = {} /\ bad = <<>>
Next == /\ l < N
        /\ l' = l + 1
        /\ Handle(Log[l + 1], l + 1)
        /\ (l' = N) => JsonSerialize(IOEnv.VERDICT_FILE, [bad |-> bad', lines |-> N])
Spec == Init /\ [][Next]_vars
Consumed == TLCGet("stats").diameter >= N
=============================================================================
