SPECIFICATION MSpec
VIEW MView
CONSTRAINT MBound
INVARIANT OwnerAttached
INVARIANT BuiltMeansDone
INVARIANT DoneMeansBuilt
INVARIANT DoneMeansInputsDeclared
INVARIANT HashMeansOutput
CHECK_DEADLOCK FALSE
