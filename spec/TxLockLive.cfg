SPECIFICATION LSpec
CONSTANTS
  Tasks = {"t1", "t2", "t3"}
  Keys = {1}
  MaxOps = 0
INVARIANT OneHolder
PROPERTY NeverLost
CHECK_DEADLOCK FALSE
