SPECIFICATION MSpec
INVARIANT OnlyDeletedAreRemoved
INVARIANT ModifiedAreKept
INVARIANT AttachedAreKept
INVARIANT SurvivorsAreHeld
INVARIANT UnheldAreGone
CHECK_DEADLOCK FALSE
