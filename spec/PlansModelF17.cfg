SPECIFICATION MSpec
VIEW MView
CONSTRAINT MBound
INVARIANT NoSpuriousRejection
CHECK_DEADLOCK FALSE
