#!/bin/bash
# usage: tools_thorough.sh [<Cxx> ...] : run thorough checks sequentially, report time and verdict
props="${@:-C09 C10 C12 C15 C19 C03 C08 C06 C07 C11 C01 C04 C05 C02 C14 C13 C16 C17 C18 C20}"
cd /verif
for p in $props; do
  s=$(date +%s)
  out=$(timeout 14400 ./verif check $p --tier thorough 2>&1); rc=$?
  echo "$p rc=$rc $(( $(date +%s)-s ))s viol=$(echo "$out" | grep -c VIOLATION) kf=$(echo "$out" | grep -c KNOWN-FINDING) mach=$(echo "$out" | grep -c MACHINERY)"
  [ $rc -ne 0 ] && echo "$out" | grep -E "VIOLATION|MACHINERY" | cut -c1-400 | head -8
done
